#!/usr/bin/env python3
"""Regenerates MANIFEST.json from the table below (keeps it valid at all times)."""
import json, os
HERE = os.path.dirname(os.path.abspath(__file__))
props = {json.loads(l)['id']: json.loads(l) for l in open(os.path.join(HERE, 'properties.jsonl'))}

CHECKS = {}
D = os.path.join(HERE, 'manifest.d')
for f in sorted(os.listdir(D)):
    if f.endswith('.json'):
        CHECKS[f[:-5]] = json.load(open(os.path.join(D, f)))
NOT_YET = {}

def main():
    checks = []
    for pid, c in sorted(CHECKS.items()):
        checks.append({
            'property_id': pid,
            'quick_cmd': f'./check {pid} --tier quick',
            'thorough_cmd': f'./check {pid} --tier thorough',
            'evidence_file': f'evidence/{pid}.json',
            'replay_cmd_template': f'./check {pid} --replay {{path}}',
            'engine': 'lean-model+correspondence',
            'level_claimed': {'category': c['category'], 'text': c['text'], 'design_ref': c.get('design_ref', '')},
            'level_note': c['note'],
            'technique': c['technique'],
        })
    na = []
    for pid in sorted(props):
        if pid not in CHECKS:
            na.append({'property_id': pid, 'reason': NOT_YET.get(pid, 'not claimed yet: model/proof/correspondence for this property is still under construction (see DESIGN.md §8); no check is registered until it passes on the unchanged tree')})
    m = {
        'version': 1,
        'setup_cmd': './setup.sh',
        'hooks': {
            'guard': 'MESON_VERIF',
            'enable': 'no source hooks: all observation is from outside (in-process calls with PYTHONPATH=/repo, fake ninja on PATH, sitecustomize on PYTHONPATH)',
            'baseline_off_cmd': 'cd /repo && /venv/bin/python -m pytest -ra -q -p no:cacheprovider --timeout=900 --continue-on-collection-errors',
            'source_commits': [],
            'add_only': True,
        },
        'engines': [{'name': 'lean-model+correspondence', 'path': 'check',
                     'serves_properties': sorted(CHECKS),
                     'kind_free_text': 'Lean 4 model + theorems (lean/), native line-protocol driver, Python correspondence harness and property oracles (harness/)'}],
        'checks': checks,
        'notes': 'See DESIGN.md. ./check <ID> --tier quick|thorough; evidence/<ID>.json rewritten on every run.',
        'not_applicable': na,
    }
    json.dump(m, open(os.path.join(HERE, 'MANIFEST.json'), 'w'), indent=1)
    print('MANIFEST.json written:', len(checks), 'checks,', len(na), 'not claimed')
main()
