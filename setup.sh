#!/bin/sh
# MANIFEST.setup_cmd: build every Lean module (models, lemmas, property theorems) and every model driver.
# A module that fails to build here is reported by the check that needs it (failed obligation), so setup
# itself only fails when the toolchain is unusable.
cd "$(dirname "$0")/lean" || exit 1
lake --version || exit 1
lake build || echo "setup: some Lean modules failed to build (the owning checks will report them)"
for d in $(grep -o 'mvdriver-[a-z]*' lakefile.toml | sort -u); do
  lake build "$d" >/dev/null 2>&1 || echo "setup: $d failed to build"
done
exit 0
