#!/bin/sh
# MANIFEST.setup_cmd: build every Lean module (models, lemmas, property theorems) and every model driver.
set -e
cd "$(dirname "$0")/lean"
lake build
lake build $(grep -o 'mvdriver-[a-z]*' lakefile.toml | sort -u)
