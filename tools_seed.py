#!/usr/bin/env python3
"""Confirm a seeded property-breaking change and run the registered check against it.

    tools_seed.py <seed-out-dir> <PROPERTY> [<name>]

Steps (all in a scratch worktree of /repo, never in /repo itself):
 1. `git apply` patch.diff; 2. pinned test suite must still pass; 3. demo.py must exit 1 with the patch and 0
 without; 4. `VERIF_REPO=<worktree> ./check <PROPERTY>` (quick) — expected exit 1 with a VIOLATION line;
 5. copy patch.diff, demo.py and an augmented meta.json to /verif/seeded/<name>/; remove the worktree.
"""
import json
import os
import shutil
import subprocess
import sys
import time

VERIF = os.path.dirname(os.path.abspath(__file__))
PINNED = ['unittests/cargotests.py', 'unittests/optiontests.py', 'unittests/taptests.py', 'unittests/versiontests.py']


def sh(cmd, cwd=None, env=None, timeout=3600):
    p = subprocess.run(cmd, cwd=cwd, env=env, stdout=subprocess.PIPE, stderr=subprocess.STDOUT, text=True, timeout=timeout)
    return p.returncode, p.stdout


def main():
    src, prop = sys.argv[1], sys.argv[2].upper()
    name = sys.argv[3] if len(sys.argv) > 3 else os.path.basename(src.rstrip('/'))
    tiers = os.environ.get('SEED_TIERS', 'quick').split(',')
    wt = f'/tmp/seedcheck-{name}-{os.getpid()}'
    meta = json.load(open(os.path.join(src, 'meta.json'))) if os.path.exists(os.path.join(src, 'meta.json')) else {}
    res = {}
    rc, out = sh(['git', '-C', '/repo', 'worktree', 'add', '--detach', wt, 'HEAD'])
    assert rc == 0, out
    try:
        demo = os.path.join(src, 'demo.py')
        rc0, out0 = sh(['/venv/bin/python', demo, '/repo'], cwd='/tmp', timeout=900)
        res['demo_without_patch'] = rc0
        rc, out = sh(['git', 'apply', os.path.abspath(os.path.join(src, 'patch.diff'))], cwd=wt)
        res['applies'] = rc == 0
        if rc != 0:
            print('patch does not apply:', out)
        else:
            rc, out = sh(['/venv/bin/python', '-m', 'pytest', '-q', '-p', 'no:cacheprovider', '--timeout=900'] + PINNED, cwd=wt)
            res['pinned_tests'] = out.strip().split('\n')[-1]
            res['pinned_tests_pass'] = rc == 0
            rc1, out1 = sh(['/venv/bin/python', demo, wt], cwd='/tmp', timeout=900)
            res['demo_with_patch'] = rc1
            res['demo_output'] = out1[-600:]
            env = dict(os.environ, VERIF_REPO=wt)
            for tier in tiers:
                t0 = time.time()
                rc, out = sh([os.path.join(VERIF, 'check'), prop, '--tier', tier], cwd=VERIF, env=env, timeout=7200)
                lines = [l for l in out.split('\n') if l.startswith('VIOLATION') or l.startswith('KNOWN-FINDING')]
                lines.sort(key=lambda l: not l.startswith('VIOLATION'))   # verdict lines first: the list is truncated
                res[f'check_{tier}'] = {'exit': rc, 'lines': lines[:6], 'wall_s': round(time.time() - t0, 1),
                                        'detail': [l for l in out.split('\n') if l.startswith('  ')][:6]}
    finally:
        sh(['git', '-C', '/repo', 'worktree', 'remove', '--force', wt])
        shutil.rmtree(wt, ignore_errors=True)
    valid = res.get('applies') and res.get('pinned_tests_pass') and res.get('demo_with_patch') == 1 and res.get('demo_without_patch') == 0
    res['confirmed_valid_seed'] = bool(valid)
    print(json.dumps(res, indent=1))
    if valid:
        dst = os.path.join(VERIF, 'seeded', name)
        os.makedirs(dst, exist_ok=True)
        if os.path.abspath(src) != os.path.abspath(dst):
            shutil.copy(os.path.join(src, 'patch.diff'), dst)
            shutil.copy(demo, dst)
        old = {}
        if os.path.exists(os.path.join(dst, 'meta.json')):
            try:
                old = json.load(open(os.path.join(dst, 'meta.json')))
            except Exception:
                old = {}
        hist = old.get('history', [])
        caught = any(isinstance(v, dict) and v.get('exit') == 1 and any(l.startswith('VIOLATION') for l in v.get('lines', []))
                     for k, v in res.items() if k.startswith('check_'))
        crashed = any(isinstance(v, dict) and v.get('exit') == 2 for k, v in res.items() if k.startswith('check_'))
        verdict = 'caught' if caught else ('check crashed (exit 2)' if crashed else 'MISSED')
        head = subprocess.run(['git', '-C', '/repo', 'log', '--format=%h', '-1'], stdout=subprocess.PIPE, text=True).stdout.strip()
        vhead = subprocess.run(['git', '-C', VERIF, 'log', '--format=%h', '-1'], stdout=subprocess.PIPE, text=True).stdout.strip()
        hist.append({'repo_head': head, 'verif_head': vhead, 'tiers': tiers, 'verdict': verdict})
        firsts = [h['verdict'] for h in hist]
        meta['history'] = hist
        meta['last_result'] = verdict if len(set(firsts)) == 1 else f'{verdict} (history: ' + ' -> '.join(firsts) + ')'
        meta.update({'property': prop, 'confirmed': res, 'confirmed_by': 'tools_seed.py in a scratch worktree (patch applies to HEAD, 4 pinned test files pass, demo exits 1 with / 0 without the patch)'})
        json.dump(meta, open(os.path.join(dst, 'meta.json'), 'w'), indent=1)
        print('kept as', dst)
    else:
        print('NOT a valid seed; not kept')


main()
