"""C12 helper: run the REAL `TestHarness.doit()` / `_run_tests` in-process under a deterministic asyncio loop
with a virtual clock.  Only two things are replaced, both *below* the scheduler and the classifier:

  * `SingleTestRunner._run_subprocess`  -> returns a `TestSubprocess` around a fake process object whose
    life time is a virtual-clock timer and whose stdout is a real `asyncio.StreamReader` fed at exit;
  * `TestSubprocess._kill`              -> marks the fake process dead (no signals are sent anywhere).

Everything else (`doit`, `get_tests`, `get_test_runner`, `SingleTestRunner.__init__/run/_run_cmd`,
`TestSubprocess.communicate/wait` with its timeout, `TestRun*.complete/_complete`, the TAP parser,
`process_test_result`, `summary`, the json/junit/text loggers) is the code of the repository.

The event log is written by the fake process (spawn / exit / kill = what a test program would observe itself)
and by a wrapper around `process_test_result` (what the harness reports).
"""
from __future__ import annotations

import argparse
import asyncio
import contextlib
import io
import json
import os
import selectors
import sys
import typing as T

from . import common


class Deadlock(Exception):
    pass


class _VSelector:
    """wraps the real selector: never sleeps; when nothing is ready the virtual clock jumps to the next timer"""

    def __init__(self, loop: 'VLoop', real: selectors.BaseSelector):
        self._loop = loop
        self._real = real

    def select(self, timeout: T.Optional[float] = None):
        ev = self._real.select(0)
        if ev:
            return ev
        if timeout is None:
            raise Deadlock('event loop idle forever: no ready callback and no timer')
        if timeout > 0:
            self._loop._vt += timeout
        return []

    def __getattr__(self, name: str):
        return getattr(self._real, name)


class VLoop(asyncio.SelectorEventLoop):
    def __init__(self) -> None:
        self._vt = 1000.0
        super().__init__()
        self._selector = _VSelector(self, self._selector)  # type: ignore[assignment]
        self._clock_resolution = 1e-9

    def time(self) -> float:
        return self._vt


class VPolicy(asyncio.DefaultEventLoopPolicy):
    def new_event_loop(self):  # used by asyncio.run() inside TestHarness.run_tests
        return VLoop()


class Recorder:
    def __init__(self) -> None:
        self.events: T.List[T.Tuple] = []

    def ev(self, kind: str, key: T.Tuple[int, int], extra: T.Any = None) -> None:
        t = asyncio.get_running_loop().time()
        self.events.append((kind, key[0], key[1], round(t - 1000.0, 6), extra))


_CURRENT: T.Dict[str, T.Any] = {}


class FakeProc:
    def __init__(self, key: T.Tuple[int, int], dur: float, rc: int, out: bytes, rec: Recorder,
                 want_stdout: bool, want_stderr: bool):
        loop = asyncio.get_running_loop()
        self.pid = -1
        self.key = key
        self.returncode: T.Optional[int] = None
        self._rc = rc
        self._out = out
        self._rec = rec
        self._done = loop.create_future()
        self.stdout = asyncio.StreamReader() if want_stdout else None
        self.stderr = asyncio.StreamReader() if want_stderr else None
        rec.ev('spawn', key)
        self._timer = loop.call_later(dur, self._exit)

    def _finish(self, rc: int) -> None:
        self.returncode = rc
        if self.stdout is not None:
            if self._out:
                self.stdout.feed_data(self._out)
            self.stdout.feed_eof()
        if self.stderr is not None:
            self.stderr.feed_eof()
        if not self._done.done():
            self._done.set_result(rc)

    def _exit(self) -> None:
        if self.returncode is None:
            self._rec.ev('exit', self.key, self._rc)
            self._finish(self._rc)

    def killed(self) -> None:
        if self.returncode is None:
            self._timer.cancel()
            self._rec.ev('kill', self.key)
            self._out = b''
            self._finish(-15)

    async def wait(self) -> int:
        if self.returncode is None:
            await asyncio.shield(self._done)
        return self.returncode

    def kill(self) -> None:
        self.killed()


def install(mtest) -> None:
    """process-local replacement of the two OS-facing methods (idempotent)"""
    if getattr(mtest, '_verif_c12_installed', False):
        return

    class FakeSubprocess(mtest.TestSubprocess):
        async def _kill(self) -> T.Optional[str]:
            try:
                self._process.killed()
                await asyncio.sleep(0)
                return None
            finally:
                if self.stdo_task:
                    self.stdo_task.cancel()
                if self.stde_task:
                    self.stde_task.cancel()

    async def _run_subprocess(self, args, *, stdin, stdout, stderr, env, cwd):
        cur = _CURRENT
        idx = cur['names'][self.test.name]
        it = int(env['MESON_TEST_ITERATION']) - 1
        dur, rc, out = cur['behaviour'](idx, it)
        p = FakeProc((idx, it), dur, rc, out, cur['rec'], stdout is not None,
                     stderr is not None and stderr != asyncio.subprocess.STDOUT)
        return FakeSubprocess(p, stdout=stdout, stderr=stderr, postwait_fn=None)

    mtest.SingleTestRunner._run_subprocess = _run_subprocess
    mtest._verif_c12_installed = True


SUMMARY_KEYS = {'Ok:': 'ok', 'Expected Fail:': 'xfail', 'Fail:': 'fail', 'Unexpected Pass:': 'upass',
                'Skipped:': 'skip', 'Ignored:': 'ignored', 'Timeout:': 'timeout'}


def parse_summary(text: str) -> T.Dict[str, int]:
    """the printed totals (last summary block of the console output)"""
    out: T.Dict[str, int] = {}
    for line in text.split('\n'):
        for k, v in SUMMARY_KEYS.items():
            if line.startswith(k):
                rest = line[len(k):].strip()
                if rest.isdigit():
                    out[v] = int(rest)
    return out


COUNTER_ATTRS = [('ok', 'success_count'), ('xfail', 'expectedfail_count'), ('fail', 'fail_count'),
                 ('upass', 'unexpectedpass_count'), ('skip', 'skip_count'), ('ignored', 'ignored_count'),
                 ('timeout', 'timeout_count')]


def read_counts(th) -> T.Union[T.Dict[str, int], str]:
    """the seven counters of a TestHarness, or a string saying why they cannot be read (shape change)"""
    out: T.Dict[str, int] = {}
    for key, attr in COUNTER_ATTRS:
        try:
            v = getattr(th, attr)
            if isinstance(v, bool) or not isinstance(v, int):
                return f'counters: {attr} is {type(v).__name__}, not int'
            out[key] = v
        except Exception as e:
            return f'counters: {attr}: {type(e).__name__}: {e}'[:200]
    return out


def make_tests(mtest, case: dict):
    from mesonbuild.backend.backends import TestSerialisation, TestProtocol
    from mesonbuild.mesonlib import EnvironmentVariables
    from mesonbuild import coredata
    tests = []
    for i, t in enumerate(case['tests']):
        proto = {'exitcode': TestProtocol.EXITCODE, 'tap': TestProtocol.TAP}[t.get('proto', 'exitcode')]
        tests.append(TestSerialisation(
            name=t['name'], project_name=t.get('prj', 'p'), suite=list(t['suite']), fname=['vtest', str(i)],
            is_cross_built=False, exe_wrapper=None, needs_exe_wrapper=False, is_parallel=bool(t['par']),
            cmd_args=[], env=EnvironmentVariables(), expected_fail=bool(t.get('sf', False)),
            expected_exitcode=t.get('ee'), timeout=t.get('to'), workdir=None, extra_paths=[], protocol=proto,
            priority=0, cmd_is_built=False, cmd_is_exe=False, depends=[], version=coredata.version,
            verbose=False, exe_fname='vtest'))
    return tests


def cli_args(case: dict, wd: str) -> T.List[str]:
    a = ['--no-rebuild', '-C', wd, '--num-processes', str(case['jobs'])]
    if case.get('repeat', 1) != 1:
        a += ['--repeat', str(case['repeat'])]
    if case.get('maxfail', 0):
        a += ['--maxfail', str(case['maxfail'])]
    for s in case.get('suites', []):
        a += ['--suite', s]
    for s in case.get('nosuites', []):
        a += ['--no-suite', s]
    if case.get('slice'):
        a += ['--slice', '%d/%d' % tuple(case['slice'])]
    if case.get('tmult') is not None:
        a += ['--timeout-multiplier=' + repr(float(case['tmult']))]
    a += list(case.get('args', []))          # positional test names (never start with '-')
    return a


def sel_err(e: BaseException) -> str:
    """canonical name of a refusal of `get_tests`"""
    msg = str(e)
    if 'does not match any test' in msg:
        return 'ERR:noMatch'
    if 'exceeds number of tests' in msg:
        return 'ERR:tooManySlices'
    return 'ERR:' + type(e).__name__


def run_case(case: dict, wd: str, want_logs: bool = True) -> dict:
    """one in-process `meson test` run.  `case['beh']` maps 'idx:iter' (or 'idx') -> [dur, rc, tap-text]"""
    from mesonbuild import mtest
    install(mtest)
    rec = Recorder()
    beh = case.get('beh', {})

    def behaviour(idx: int, it: int):
        b = beh.get(f'{idx}:{it}') or beh.get(str(idx))
        if b is None:
            t = case['tests'][idx]
            b = [t['dur'], t['rc'], t.get('out', '')]
        return float(b[0]), int(b[1]), (b[2] if len(b) > 2 else '').encode()

    class Harness(mtest.TestHarness):
        def load_metadata(self) -> None:
            class BD:
                project_name = 'p'
                test_setups: dict = {}
                test_setup_default_name = ''
            self.build_data = BD()
            self.tests = make_tests(mtest, case)

    parser = argparse.ArgumentParser(prog='meson test')
    mtest.add_arguments(parser)
    opts = parser.parse_args(cli_args(case, wd))
    if not want_logs:
        opts.logbase = None
    _CURRENT.clear()
    _CURRENT.update(names={t['name']: i for i, t in enumerate(case['tests'])}, behaviour=behaviour, rec=rec)
    mtest.TestRun.TEST_NUM = 0
    old_policy = asyncio.get_event_loop_policy()
    asyncio.set_event_loop_policy(VPolicy())
    buf = io.StringIO()
    res: dict = {'error': None}
    cwd = os.getcwd()
    try:
        with contextlib.redirect_stdout(buf), contextlib.redirect_stderr(buf):
            with Harness(opts) as th:
                orig = th.process_test_result

                def ptr(result):
                    idx = _CURRENT['names'][result.test.name]
                    it = int(result.env['MESON_TEST_ITERATION']) - 1
                    rec.events.append(('result', idx, it, None, (result.res.value, result.returncode)))
                    return orig(result)
                th.process_test_result = ptr  # type: ignore[method-assign]
                try:
                    selected = th.get_tests()
                    res['selected'] = [_CURRENT['names'][t.name] for t in selected]
                except Exception as e:  # MesonException for too many slices / an argument matching no test
                    res['selected'] = sel_err(e)
                th2_exit = None
                try:
                    th2_exit = th.doit()
                except Deadlock as e:
                    res['error'] = 'deadlock'
                except Exception as e:
                    res['error'] = type(e).__name__ + ':' + str(e)[:200]
                res['exit'] = th2_exit
                # adapters: a changed attribute shape is an outcome (`adapter_error`), never an exception
                adapter_errors = []
                counts = read_counts(th)
                if isinstance(counts, str):
                    adapter_errors.append(counts)
                    counts = None
                res['counts'] = counts
                for key, fn in (('eff_jobs', lambda: int(th.options.num_processes)),
                                ('test_count', lambda: int(th.test_count)),
                                ('collected', lambda: [r.res.name for r in th.collected_failures]),
                                ('flag', lambda: bool(th.maxfail_reached))):
                    try:
                        res[key] = fn()
                    except Exception as e:
                        res[key] = None
                        adapter_errors.append(f'{key}: {type(e).__name__}: {e}'[:200])
                if adapter_errors:
                    res['adapter_error'] = adapter_errors
    finally:
        os.chdir(cwd)
        asyncio.set_event_loop_policy(old_policy)
    out = buf.getvalue()
    res['summary'] = parse_summary(out)
    res['events'] = rec.events
    res['stdout_tail'] = out[-400:]
    if want_logs:
        jpath = os.path.join(wd, 'meson-logs', 'testlog.json')
        jl = []
        if os.path.exists(jpath):
            for line in open(jpath, encoding='utf-8'):
                if line.strip():
                    j = json.loads(line)
                    jl.append({'name': j['name'], 'result': j['result'], 'returncode': j['returncode'],
                               'is_fail': j['is_fail'], 'iter': int(j['env'].get('MESON_TEST_ITERATION', '1')) - 1})
            os.unlink(jpath)
        res['json'] = jl
    return res
