"""C01 — program generators (all randomness comes from the `rng` passed in).

* `Gen.program()`      type-directed, mostly-valid programs (expression depth <= 5, <= 12 statements)
* `Gen(mutant=True)`   the same generator with type confusion / erroneous forms injected
* `alias_program()`    alias-sensitive programs (`b = a; b += ...; message(a)` and relatives)
* `operator_grid()`, `method_grid()`, `function_grid()`   exhaustive small grids
"""
from __future__ import annotations

import typing as T

# characters a generated string may contain.  Non-ASCII ones are "inert" for every predicate the
# modelled code applies (checked at start-up by `check_alphabet`).
ASCII_CHARS = list("abcxyzABZ019 _-./,:@'\\\t\n=+#%{}[]()\x1c")
INERT = ['€', '中', '→', '∑', '😀']
WORDS = ['', 'a', 'b', 'ab', 'foo', 'Bar', 'a b', 'a,b,c', '1.2.3', ' x ', '@0@', '@1@ @0@', '@x@', '42', '-7', '0x1f',
         'a/b', '/abs', 'x_y', 'line1\nline2', 'tab\there', '>=1.0', '1.10', "it's", 'back\\slash', '@', '@@', '@a', '007', ' 12 ', '0b101', '0o17', '1_000']
NAMES = ['a', 'b', 'c', 'd', 'x', 'y', 'z', 'v1', 'v_2', 'acc']
LOOPNAMES = ['i', 'j', 'it', 'e1', 'kk', 'vv', 'n_0']
KEYS = ['k', 'a', 'b', 'z', 'key', 'K', '', 'a b']

SCALARS = ['int', 'bool', 'str']


def check_alphabet() -> T.List[str]:
    bad = []
    for c in INERT:
        if c.isspace() or c.isdigit() or c.isalpha() and (c.upper() != c or c.lower() != c) or c.upper() != c \
                or c.lower() != c or len(('a' + c + 'b').splitlines()) != 1 or c.isdecimal():
            bad.append(c)
    return bad


def lit_str(rng, s: str) -> str:
    """a source literal whose value is `s`"""
    if s and "'" not in s and rng.random() < 0.12:
        return "'''" + s + "'''"        # raw: a backslash in the value is a backslash in the source
    out = []
    for c in s:
        if c == "'":
            out.append("\\'")
        elif c == '\\':
            out.append('\\\\')
        elif c == '\n':
            out.append('\\n')
        elif c == '\t' and rng.random() < 0.5:
            out.append('\\t')
        elif ord(c) < 32:
            out.append('\\x%02x' % ord(c))
        elif rng.random() < 0.03 and ord(c) < 128:
            out.append('\\x%02x' % ord(c))
        elif rng.random() < 0.1 and 128 <= ord(c) < 0x10000:
            out.append('\\u%04x' % ord(c))
        else:
            out.append(c)
    return "'" + ''.join(out) + "'"


def rand_str(rng) -> str:
    r = rng.random()
    if r < 0.55:
        return rng.choice(WORDS)
    n = rng.randint(0, 6)
    return ''.join(rng.choice(ASCII_CHARS if rng.random() < 0.9 else INERT) for _ in range(n))


def rand_int(rng) -> int:
    r = rng.random()
    if r < 0.6:
        return rng.randint(0, 9)
    if r < 0.85:
        return rng.randint(0, 300)
    if r < 0.97:
        return rng.choice([2 ** 31 - 1, 2 ** 31, 2 ** 63, 2 ** 64 + 1, 10 ** 20, 255, 256, 1000])
    return rng.randint(0, 10 ** 30)


def lit_int(rng, n: int) -> str:
    assert n >= 0
    r = rng.random()
    if r < 0.06:
        return hex(n)
    if r < 0.09:
        return oct(n)
    if r < 0.12:
        return bin(n) if n < 2 ** 16 else str(n)
    return str(n)


class Gen:
    """type-directed generator of source text.  Types: 'int' 'bool' 'str' ('arr', T) ('dict', T)."""

    def __init__(self, rng, mutant: bool = False, max_depth: int = 5, max_stmts: int = 12):
        self.rng = rng
        self.mutant = mutant
        self.max_depth = max_depth
        self.max_stmts = max_stmts
        self.env: T.Dict[str, T.Any] = {}
        self.loop = 0
        self.err_rate = 0.04 if mutant else 0.0
        self.in_tern = False

    # ------------------------------------------------------------ types
    def rand_type(self, depth: int = 0) -> T.Any:
        r = self.rng.random()
        if r < 0.7 or depth >= 2:
            return self.rng.choice(SCALARS)
        if r < 0.88:
            return ('arr', self.rand_type(depth + 1))
        return ('dict', self.rand_type(depth + 1))

    def vars_of(self, ty: T.Any) -> T.List[str]:
        return [n for n, t in self.env.items() if t == ty]

    # ------------------------------------------------------------ expressions
    # Every production returns (text, level); level says how loosely the top operator binds:
    # 0 atom/postfix, 1 unary, 2 * / %, 3 + -, 4 comparison, 5 and, 6 or, 7 ternary.
    # `sub(ty, d, maxlvl)` parenthesises only when the documented precedence requires it
    # (plus a few redundant parentheses), so that the parser's precedence ladder matters.

    def expr(self, ty: T.Any, d: int) -> str:
        return self.expr_l(ty, d)[0]

    def expr_l(self, ty: T.Any, d: int) -> T.Tuple[str, int]:
        rng = self.rng
        if self.err_rate and rng.random() < self.err_rate:
            return self.wrong(ty, d), 7
        if d <= 0 or rng.random() < 0.25:
            return self.atom_l(ty, d)
        if ty == 'int':
            return self.int_expr(d)
        if ty == 'bool':
            return self.bool_expr(d)
        if ty == 'str':
            return self.str_expr(d)
        if ty[0] == 'arr':
            return self.arr_expr(ty, d)
        return self.dict_expr(ty, d)

    def sub(self, ty: T.Any, d: int, maxlvl: int = 7) -> str:
        e, lvl = self.expr_l(ty, d - 1)
        if lvl > maxlvl or self.rng.random() < 0.05:
            return '(' + e + ')'
        return e

    def wrong(self, ty: T.Any, d: int) -> str:
        """an erroneous / ill-typed form where a `ty` was wanted (always parenthesised or atomic)"""
        rng = self.rng
        r = rng.random()
        save, self.err_rate = self.err_rate, 0.0
        try:
            if r < 0.45:
                other = self.rand_type()
                return '(' + self.expr(other, max(0, d - 1)) + ')'
            if r < 0.55:
                return rng.choice(['undefined_var', 'meson', 'q'])
            if r < 0.63:
                return rng.choice(["message('void')", "set_variable('sv', 1)", "unset_variable('nope')"])
            if r < 0.7:
                return f'{self.sub(ty, max(1, d), 0)}.{rng.choice(["nope", "length", "to_int", "keys", "contains", "get"])}()'
            if r < 0.76:
                return f'({self.atom("int", 0)} / 0)' if rng.random() < 0.5 else f'({self.atom("int", 0)} % 0)'
            if r < 0.82:
                return f'[1, 2][{rng.choice([2, 5, -3, 100])}]'
            if r < 0.86:
                return f"{{'a': 1}}[{lit_str(rng, rng.choice(['b', 'A', '']))}]"
            if r < 0.9:
                return f'unknown_function({self.atom(ty, 0)})'
            if r < 0.93:
                return f"[{self.atom(ty, 0)}, k: 1]" if rng.random() < 0.5 else f"[xx = {self.atom(ty, 0)}]"
            if r < 0.96:
                return f"{{{self.atom('int', 0)}: 1}}" if rng.random() < 0.5 else "{'a': 1, 'a': 2}"
            return rng.choice(["range(3)", "range(5, 2)", "range(-1)", "range(1, 5, 0)", "get_variable('nope')",
                               "'@5@'.format(1)", "f'@nope@'", "'x'.to_int()", "[1].get(7)", "{'a': 1}.get('b')",
                               "range(3)['a']", "range(3)[3]", "'abc'[3]", "'a'.split('')", "[1].slice(1)",
                               "[1].slice(0, 1, step: 0)", "true.to_string('x')", "1.to_string(format: 'x')",
                               "()", "'a'.join([1])", "'a'.join('b', ['c', ['d']])"])
        finally:
            self.err_rate = save

    def atom(self, ty: T.Any, d: int) -> str:
        e, lvl = self.atom_l(ty, d)
        return e if lvl == 0 else '(' + e + ')'

    def atom_l(self, ty: T.Any, d: int) -> T.Tuple[str, int]:
        rng = self.rng
        vs = self.vars_of(ty)
        if vs and rng.random() < 0.5:
            v = rng.choice(vs)
            if rng.random() < 0.08:
                return f"get_variable('{v}')", 0
            return v, 0
        if ty == 'int':
            n = rand_int(rng)
            if rng.random() < 0.15:
                return '-' + lit_int(rng, n), 1
            return lit_int(rng, n), 0
        if ty == 'bool':
            return rng.choice(['true', 'false']), 0
        if ty == 'str':
            if rng.random() < 0.08:
                return self.fstring(), 0
            return lit_str(rng, rand_str(rng)), 0
        save, self.in_tern = self.in_tern, False      # brackets do not reset the parser's flag, but
        try:                                         # elements are parsed by statement(): see tern()
            self.in_tern = save
            if ty[0] == 'arr':
                n = rng.choice([0, 1, 1, 2, 2, 3])
                items = [self.sub(ty[1], d, 7) for _ in range(n)]
                if n >= 2 and rng.random() < 0.1:
                    return '[\n  ' + ',\n  '.join(items) + (',' if rng.random() < 0.5 else '') + '\n]', 0
                return '[' + ', '.join(items) + (',' if n and rng.random() < 0.08 else '') + ']', 0
            n = rng.choice([0, 1, 2, 2, 3])
            keys = rng.sample(KEYS, n)
            if keys and rng.random() < 0.01:
                keys[0] = 'kwargs'
            ents = []
            for k in keys:
                kx = lit_str(rng, k) if rng.random() < 0.85 else self.key_expr(k)
                ents.append(f'{kx}: {self.sub(ty[1], d, 7)}')
            if n >= 2 and rng.random() < 0.1:
                return '{\n  ' + ',\n  '.join(ents) + '\n}', 0
            return '{' + ', '.join(ents) + '}', 0
        finally:
            self.in_tern = save

    def key_expr(self, k: str) -> str:
        rng = self.rng
        if len(k) >= 2 and rng.random() < 0.5:
            i = rng.randint(1, len(k) - 1)
            return f'{lit_str(rng, k[:i])} + {lit_str(rng, k[i:])}'
        return f'{lit_str(rng, k)}.strip()' if k == k.strip() else lit_str(rng, k)

    def fstring(self) -> str:
        rng = self.rng
        parts = []
        cands = [n for n, t in self.env.items()]
        for _ in range(rng.randint(1, 3)):
            if cands and rng.random() < 0.7:
                parts.append('@' + rng.choice(cands) + '@')
            else:
                parts.append(rng.choice(['x', ' ', '@', 'a@b', '@@', '@1@', ':', '\\n', '\\t', '\\\\', '\\x41', '\\101',
                                         '\\u20ac', 'C:\\temp\\new', '\\q']))
        body = ''.join(parts)
        if rng.random() < 0.25:
            return "f'''" + body + "'''"      # raw as well: no escape is decoded here
        return "f'" + body + "'"

    def tern(self, ty: T.Any, d: int) -> T.Tuple[str, int]:
        """`c ? a : b`; the parser rejects a ternary anywhere inside a ternary's branches"""
        if self.in_tern:
            return self.atom_l(ty, d)
        c = self.sub('bool', d, 6)
        self.in_tern = True
        try:
            a, b = self.sub(ty, d, 6), self.sub(ty, d, 6)
        finally:
            self.in_tern = False
        return f'{c} ? {a} : {b}', 7

    def index_int(self) -> str:
        rng = self.rng
        r = rng.random()
        if r < 0.8:
            return str(rng.choice([0, 0, 0, -1, -1, 1, 1, 2, -2, 3, -3]))
        return self.sub('int', 1)

    def safe_index(self) -> str:
        rng = self.rng
        if rng.random() < 0.85:
            return str(rng.choice([0, 0, -1]))
        return self.index_int()

    def nonempty_arr(self, el: T.Any, d: int) -> str:
        """a level-0 array expression with at least one element (so that most indexing succeeds)"""
        items = [self.sub(el, max(0, d - 1)) for _ in range(self.rng.choice([1, 2, 2, 3]))]
        lit = '[' + ', '.join(items) + ']'
        if self.rng.random() < 0.3:
            return f'({lit} + {self.sub(("arr", el), d, 2)})'
        return lit

    def int_expr(self, d: int) -> T.Tuple[str, int]:
        rng = self.rng
        r = rng.random()
        if r < 0.42:
            op = rng.choice(['+', '-', '*', '/', '%', '+', '-', '*'])
            lvl = 3 if op in '+-' else 2
            right = self.sub('int', d, lvl - 1)
            if op in '/%' and rng.random() < 0.85:
                right = str(rng.choice([1, 2, 3, 7, 10])) if rng.random() < 0.6 else '-' + str(rng.choice([1, 2, 3, 7]))
                if right.startswith('-') and rng.random() < 0.5:
                    right = '(' + right + ')'
            return f'{self.sub("int", d, lvl)} {op} {right}', lvl
        if r < 0.48:
            return '-' + self.sub('int', d, 0), 1
        if r < 0.56:
            return self.tern('int', d)
        if r < 0.63:
            return f'{self.sub(("arr", self.rand_type(1)), d, 0)}.length()', 0
        if r < 0.7:
            return f'{self.nonempty_arr("int", d)}[{self.safe_index()}]', 0
        if r < 0.75:
            return f'{self.sub(("arr", "int"), d, 0)}.get({self.index_int()}, {self.sub("int", d)})', 0
        if r < 0.8:
            k = lit_str(rng, rng.choice(KEYS))
            return f'{self.sub(("dict", "int"), d, 0)}.get({k}, {self.sub("int", d)})', 0
        if r < 0.85:
            return f'{lit_str(rng, rng.choice(["42", " 7 ", "-3", "+5", "0x1f", "0o17", "0b101", "007", "1_0", "12", "0"]))}.to_int()', 0
        if r < 0.9:
            return f'{self.sub("bool", d, 0)}.to_int()', 0
        if r < 0.95:
            a, b = rng.randint(0, 3), rng.randint(4, 8)
            return (f'range({a}, {b}, {rng.randint(1, 3)})[{rng.choice([0, -1, 0])}]' if rng.random() < 0.5
                    else f'range({b})[{rng.choice([0, 1, -1, 2, -4])}]'), 0
        return '(' + self.expr('int', d - 1) + ')', 0

    def bool_expr(self, d: int) -> T.Tuple[str, int]:
        rng = self.rng
        r = rng.random()
        if r < 0.25:
            ty = rng.choice(['int', 'int', 'str', 'str', 'bool', ('arr', 'int'), ('arr', 'str'), ('dict', 'int'), self.rand_type(1)])
            ops = ['==', '!='] + (['<', '<=', '>', '>='] if ty in ('int', 'str') else [])
            return f'{self.sub(ty, d, 3)} {rng.choice(ops)} {self.sub(ty, d, 3)}', 4
        if r < 0.33:
            return f'{self.sub("bool", d, 5)} and {self.sub("bool", d, 4)}', 5
        if r < 0.4:
            return f'{self.sub("bool", d, 6)} or {self.sub("bool", d, 5)}', 6
        if r < 0.47:
            return 'not ' + self.sub('bool', d, 0), 1
        if r < 0.57:
            t = rng.choice(['int', 'str', 'bool', self.rand_type(1)])
            return f'{self.sub(t, d, 3)} {rng.choice(["in", "not in"])} {self.sub(("arr", t), d, 3)}', 4
        if r < 0.62:
            return f'{self.sub("str", d, 3)} {rng.choice(["in", "not in"])} {self.sub("str", d, 3)}', 4
        if r < 0.67:
            return f'{lit_str(rng, rng.choice(KEYS))} {rng.choice(["in", "not in"])} {self.sub(("dict", self.rand_type(1)), d, 3)}', 4
        if r < 0.75:
            m = rng.choice(['contains', 'startswith', 'endswith'])
            return f'{self.sub("str", d, 0)}.{m}({self.sub("str", d)})', 0
        if r < 0.8:
            t = rng.choice(['int', 'str', self.rand_type(1)])
            return f'{self.sub(("arr", t), d, 0)}.contains({self.sub(t, d)})', 0
        if r < 0.84:
            return f'{self.sub(("dict", self.rand_type(1)), d, 0)}.has_key({lit_str(rng, rng.choice(KEYS))})', 0
        if r < 0.89:
            return f'{self.sub("int", d, 0)}.{rng.choice(["is_even", "is_odd"])}()', 0
        if r < 0.92:
            return f"is_variable('{rng.choice(NAMES)}')", 0
        if r < 0.95:
            v = rng.choice(['1.2.3', '0.9', '1.10', '2.0.0', '1.2.3a'])
            c = rng.choice(['>=1.0', '<2.0', '==1.2.3', '!=1.2.3', '>1.2', '<=1.10', '1.2.3', '>= 0.9'])
            return f"'{v}'.version_compare('{c}')", 0
        if r < 0.97:
            return self.tern('bool', d)
        return '(' + self.expr('bool', d - 1) + ')', 0

    def stringable(self, d: int) -> str:
        t = self.rng.choice(['int', 'str', 'bool', ('arr', 'int'), ('arr', 'str'), ('dict', 'int'), self.rand_type(0)])
        return self.sub(t, d)

    def str_expr(self, d: int) -> T.Tuple[str, int]:
        rng = self.rng
        r = rng.random()
        if r < 0.18:
            return f'{self.sub("str", d, 3)} + {self.sub("str", d, 2)}', 3
        if r < 0.24:
            return f'{self.sub("str", d, 2)} / {self.sub("str", d, 1)}', 2
        if r < 0.34:
            n = rng.randint(0, 3)
            ph = ['@%d@' % rng.randint(0, n - 1)] if n and rng.random() < 0.95 else ['@%d@' % rng.randint(0, 3)]
            tpl = ''.join(rng.choice(ph + ph + [' ', 'x', ':', '@', '@x@']) for _ in range(rng.randint(1, 4)))
            return f'{lit_str(rng, tpl)}.format({", ".join(self.stringable(d) for _ in range(n))})', 0
        if r < 0.42:
            return f'{self.sub("str", d, 0)}.join({self.sub(("arr", "str"), d)})', 0
        if r < 0.48:
            return f'{self.sub("str", d, 0)}.replace({self.sub("str", d)}, {self.sub("str", d)})', 0
        if r < 0.54:
            arg = '' if rng.random() < 0.6 else self.sub('str', d)
            return f'{self.sub("str", d, 0)}.strip({arg})', 0
        if r < 0.62:
            return f'{self.sub("str", d, 0)}.{rng.choice(["to_upper", "to_lower", "underscorify"])}()', 0
        if r < 0.7:
            n = rng.choice([0, 1, 2, 2])
            args = ', '.join(str(rng.choice([0, 1, 2, -1, -2, 5, 10, -10])) for _ in range(n))
            return f'{self.sub("str", d, 0)}.substring({args})', 0
        if r < 0.75:
            return (f'{self.sub("str", d, 0)}[{self.index_int()}]' if rng.random() < 0.4
                    else f'{lit_str(rng, "hello")}[{rng.choice([0, 1, -1, 4, -5, 2, -2])}]'), 0
        if r < 0.82:
            kws = []
            if rng.random() < 0.5:
                kws.append(f'fill: {rng.choice([0, 1, 3, 8, -2])}')
            if rng.random() < 0.5:
                kws.append(f"format: '{rng.choice(['dec', 'hex', 'oct', 'bin'])}'")
            return f'{self.sub("int", d, 0)}.to_string({", ".join(kws)})', 0
        if r < 0.86:
            args = '' if rng.random() < 0.5 else f"{lit_str(rng, rng.choice(['yes', '', 'Y']))}, {lit_str(rng, rng.choice(['no', '', 'N']))}"
            return f'{self.sub("bool", d, 0)}.to_string({args})', 0
        if r < 0.9:
            return self.tern('str', d)
        if r < 0.94:
            return f'{self.nonempty_arr("str", d)}[{self.safe_index()}]', 0
        if r < 0.97:
            return self.fstring(), 0
        return '(' + self.expr('str', d - 1) + ')', 0

    def arr_expr(self, ty: T.Any, d: int) -> T.Tuple[str, int]:
        rng = self.rng
        el = ty[1]
        r = rng.random()
        if r < 0.25:
            return f'{self.sub(ty, d, 3)} + {self.sub(ty, d, 2)}', 3
        if r < 0.35 and not (isinstance(el, tuple) and el[0] == 'arr'):
            return f'{self.sub(ty, d, 3)} + {self.sub(el, d, 2)}', 3
        if r < 0.47:
            n = rng.choice([0, 2, 2])
            args = [str(rng.choice([0, 1, 2, -1, -2, 5, -7])) for _ in range(n)]
            if rng.random() < 0.4:
                args.append(f'step: {rng.choice([1, 2, -1, -2, 3])}')
            return f'{self.sub(ty, d, 0)}.slice({", ".join(args)})', 0
        if r < 0.53 and el == 'str':
            arg = '' if rng.random() < 0.4 else lit_str(rng, rng.choice([',', ' ', 'a', '.', 'ab', '\n']))
            return f'{self.sub("str", d, 0)}.split({arg})', 0
        if r < 0.57 and el == 'str':
            return f'{self.sub("str", d, 0)}.splitlines()', 0
        if r < 0.62 and el == 'str':
            return f'{self.sub(("dict", self.rand_type(1)), d, 0)}.keys()', 0
        if r < 0.68:
            return f'{self.sub(("dict", el), d, 0)}.values()', 0
        if r < 0.74 and not isinstance(el, tuple):
            return f'{self.sub(("arr", ("arr", el)), d, 0)}.flatten()', 0
        if r < 0.8:
            return self.tern(ty, d)
        if r < 0.85:
            return f'{self.nonempty_arr(ty, d)}[{self.safe_index()}]', 0
        return self.atom_l(ty, d)

    def dict_expr(self, ty: T.Any, d: int) -> T.Tuple[str, int]:
        rng = self.rng
        r = rng.random()
        if r < 0.35:
            return f'{self.sub(ty, d, 3)} + {self.sub(ty, d, 2)}', 3
        if r < 0.45:
            return self.tern(ty, d)
        if r < 0.55:
            return f'{self.nonempty_arr(ty, d)}[{self.safe_index()}]', 0
        return self.atom_l(ty, d)

    # ------------------------------------------------------------ statements
    def fresh_name(self) -> str:
        return self.rng.choice(NAMES)

    def stmt(self, depth: int, ind: str) -> T.List[str]:
        rng = self.rng
        r = rng.random()
        d = rng.choice([0, 1, 1, 1, 1, 2, 2, 2, 3, 3, 4, self.max_depth])
        if self.mutant and rng.random() < 0.03:
            return [ind + rng.choice(['break', 'continue', 'meson = 1', 'x = ', 'unknown_fn()', "set_variable('1x', 2)",
                                      "set_variable('meson', 2)", "message('a', sep: 'b')", "unset_variable('zz')",
                                      "assert(false, 'boom')", "assert(1 == 2)", '1 + 1', "zz += 1", "message(1, k: 2, 3)"])]
        if r < 0.34 or not self.env:
            ty = self.rand_type()
            name = self.fresh_name()
            if name in self.env and depth > 0:
                ty = self.env[name]  # keep types stable inside blocks
            e = self.expr(ty, d)
            if depth == 0:
                self.env[name] = ty
            return [f'{ind}{name} = {e}']
        if r < 0.5:
            name = rng.choice(list(self.env))
            ty = self.env[name]
            if ty == 'bool':
                return [f'{ind}{name} = {self.expr("bool", d)}']
            if isinstance(ty, tuple) and ty[0] == 'arr' and rng.random() < 0.4 and not (isinstance(ty[1], tuple) and ty[1][0] == 'arr'):
                return [f'{ind}{name} += {self.expr(ty[1], d)}']
            return [f'{ind}{name} += {self.expr(ty, d)}']
        if r < 0.6:
            n = rng.randint(1, 3)
            return [f'{ind}message({", ".join(self.stringable(max(1, d)) for _ in range(n))})']
        if r < 0.7 and depth < 2:
            out = [f'{ind}if {self.expr("bool", d)}']
            out += self.block(depth + 1, ind + '  ')
            for _ in range(rng.choice([0, 0, 1, 2])):
                out.append(f'{ind}elif {self.expr("bool", d)}')
                out += self.block(depth + 1, ind + '  ')
            if rng.random() < 0.5:
                out.append(f'{ind}else')
                out += self.block(depth + 1, ind + '  ')
            out.append(f'{ind}endif')
            return out
        if r < 0.82 and depth < 2:
            kind = rng.random()
            saved = dict(self.env)
            if kind < 0.45:
                el = self.rand_type(1)
                var = rng.choice(LOOPNAMES)
                head = f'{ind}foreach {var} : {self.expr(("arr", el), d)}'
                self.env[var] = el
            elif kind < 0.7:
                el = self.rand_type(1)
                k, v = rng.sample(LOOPNAMES, 2)
                head = f'{ind}foreach {k}, {v} : {self.expr(("dict", el), d)}'
                self.env[k] = 'str'
                self.env[v] = el
            else:
                var = rng.choice(LOOPNAMES)
                a, b = rng.randint(0, 2), rng.randint(0, 6)
                args = rng.choice([f'{b}', f'{a}, {a + b}', f'{a}, {a + b}, {rng.randint(1, 3)}'])
                head = f'{ind}foreach {var} : range({args})'
                self.env[var] = 'int'
            self.loop += 1
            body = self.block(depth + 1, ind + '  ')
            self.loop -= 1
            self.env = saved
            return [head] + body + [f'{ind}endforeach']
        if r < 0.86 and self.loop:
            kw = rng.choice(['break', 'continue'])
            if rng.random() < 0.75:
                return [f'{ind}if {self.expr("bool", min(d, 2))}', f'{ind}  {kw}', f'{ind}endif']
            return [ind + kw]
        if r < 0.91:
            ty = self.rand_type()
            name = self.fresh_name()
            if name in self.env and depth > 0:
                ty = self.env[name]
            e = self.expr(ty, d)
            if depth == 0:
                self.env[name] = ty
            nm = f"'{name}'" if rng.random() < 0.8 else f"'{name[0]}' + '{name[1:]}'"
            return [f'{ind}set_variable({nm}, {e})']
        if r < 0.93 and depth == 0 and self.env:
            name = rng.choice(list(self.env))
            del self.env[name]
            return [f"{ind}unset_variable('{name}')"]
        if r < 0.98:
            c = self.sub("bool", d, 6)
            self.in_tern = True
            try:
                a, b = self.stringable(1), self.stringable(1)
            finally:
                self.in_tern = False
            return [f'{ind}{c} ? message({a}) : message({b})']
        c = self.sub('bool', d, 5)
        return [f'{ind}assert({c} or {rng.choice(["true", "true", "true", "false"])}, {lit_str(rng, "m")})']

    def block(self, depth: int, ind: str) -> T.List[str]:
        out: T.List[str] = []
        for _ in range(self.rng.choice([1, 1, 2, 2, 3])):
            out += self.stmt(depth, ind)
        return out

    def program(self) -> str:
        self.env = {}
        self.loop = 0
        lines: T.List[str] = []
        n = self.rng.choice([1, 2, 3, 3, 4, 4, 5, 6, 8, self.max_stmts])
        for _ in range(n):
            lines += self.stmt(0, '')
            if self.rng.random() < 0.05:
                lines.append(self.rng.choice(['', '# comment', '  ']))
        return '\n'.join(lines) + '\n'


# ---------------------------------------------------------------- alias-sensitive programs

def alias_program(rng) -> str:
    """programs in which a shared mutable object inside the interpreter would become visible"""
    g = Gen(rng)
    el = rng.choice(['int', 'str', ('arr', 'int'), ('dict', 'int')])
    arr_t = ('arr', el)
    dict_t = ('dict', el)
    a0 = g.atom(arr_t, 2)
    d0 = g.atom(dict_t, 2)
    e1 = g.atom(el, 1)
    e2 = g.atom(el, 1)
    k = lit_str(rng, rng.choice(KEYS[:6]))
    pats = [
        f"a = {a0}\nb = a\nb += [{e1}]\nmessage(a)\nmessage(b)\n",
        f"a = {a0}\nb = a\nb += {e1}\nc = a + [{e2}]\nmessage(a, b, c)\n",
        f"d = {d0}\ne = d\ne += {{{k}: {e1}}}\nmessage(d)\nmessage(e)\n",
        f"a = [{a0}, {a0}]\nb = a[0]\nb += [{e1}]\nmessage(a)\nc = a[1]\nc += b\nmessage(a, b, c)\n",
        f"d = {{{k}: {a0}}}\nx = d[{k}]\nx += [{e1}]\ny = d.get({k})\ny += [{e2}]\nmessage(d)\n",
        f"a = {a0}\nset_variable('c', a)\nc += [{e1}]\nmessage(a)\nmessage(get_variable('c'))\n",
        f"a = {a0}\nc = get_variable('a')\nc += [{e1}]\nmessage(a, c)\na += [{e2}]\nmessage(a, c)\n",
        f"a = [{a0}, {a0}]\nforeach x : a\n  x += [{e1}]\n  message(x)\nendforeach\nmessage(a)\n",
        f"d = {{{k}: {a0}, 'zz': {a0}}}\nforeach kk, v : d\n  v += [{e1}]\n  kk += 'q'\nendforeach\nmessage(d)\n",
        f"d = {d0}\nk1 = d.keys()\nk1 += ['zzz']\nk2 = d.keys()\nv1 = d.values()\nv1 += [{e1}]\nmessage(d, k1, k2, d.values())\n",
        f"a = {a0}\ns = a.slice()\ns += [{e1}]\nf = [a, a].flatten()\nf += [{e2}]\nmessage(a, s, f)\n",
        f"a = {a0}\nb = a + []\nb += [{e1}]\nc = true ? a : b\nc += [{e2}]\nmessage(a, b, c)\n",
        f"a = {a0}\nd = {{'k': a}}\na += [{e1}]\nmessage(d)\ne = [a, d]\nd += {{'j': a}}\nmessage(e)\n",
        f"a = {a0}\nb = [a]\nforeach i : range(3)\n  a += [i]\n  b += [a]\nendforeach\nmessage(b)\n",
        f"s = 'ab'\nt = s\nt += 'c'\nn = 1\nm = n\nm += 1\nmessage(s, t, n, m)\n",
        f"a = {a0}\nb = a\nforeach x : a\n  a += [{e1}]\n  b = a\nendforeach\nmessage(a, b)\n",
        f"d = {d0}\ne = d + {{}}\ne += {{{k}: {e1}}}\nf = d\nd += {{'n': {e2}}}\nmessage(d, e, f)\n",
        f"a = {a0}\nx = a.get(0, {e1})\nset_variable('a', a + [{e2}])\nb = a\nunset_variable('a')\nmessage(b, x)\n",
    ]
    return rng.choice(pats)


# ---------------------------------------------------------------- exhaustive grids

SAMPLES = {
    'int': ['0', '1', '7', '-3', '2'],
    'bool': ['true', 'false'],
    'str': ["''", "'a'", "'ab'", "'1'", "'a b'"],
    'arr': ['[]', '[1]', "['a', 'b']", '[1, [2]]', '[true]', '[1, 2, 3]'],
    'dict': ['{}', "{'a': 1}", "{'b': 'x', 'a': 1}", "{'a': true}"],
    'range': ['range(3)', 'range(1, 7, 2)', 'range(0)'],
    'void': ["message('v')"],
}
BINOPS = ['+', '-', '*', '/', '%', '==', '!=', '<', '<=', '>', '>=', 'in', 'not in', 'and', 'or']


def operator_grid(full: bool) -> T.Iterator[T.Tuple[str, str]]:
    """every binary operator on every pair of sample values; unary forms; `+=`; indexing"""
    tys = list(SAMPLES)
    for lt in tys:
        for rt in tys:
            ls = SAMPLES[lt] if full else SAMPLES[lt][:3]
            rs = SAMPLES[rt] if full else SAMPLES[rt][:3]
            for l in ls:
                for r in rs:
                    for op in BINOPS:
                        yield f'bin:{lt}:{op}:{rt}', f'x = {l} {op} {r}\n'
                    yield f'idx:{lt}:{rt}', f'x = {l}[{r}]\n' if lt != 'void' else f'x = ({l})[{r}]\n'
                    if lt != 'void':
                        yield f'pasg:{lt}:{rt}', f'x = {l}\ny = x\nx += {r}\nmessage(y)\n' if lt != 'range' else f'x = {l}\nx += {r}\n'
    for t in tys:
        for v in SAMPLES[t]:
            yield f'un:not:{t}', f'x = not {v}\n'
            yield f'un:neg:{t}', f'x = -{v}\n' if not v.startswith('-') else f'x = -({v})\n'
            yield f'if:{t}', f'if {v}\n  x = 1\nelse\n  x = 2\nendif\n'
            yield f'tern:{t}', f'x = {v} ? 1 : 2\n'
            yield f'foreach1:{t}', f'n = 0\nforeach i : {v}\n  n += 1\nendforeach\n'
            yield f'foreach2:{t}', f'n = 0\nforeach i, j : {v}\n  n += 1\nendforeach\n'
            yield f'msg:{t}', f'message({v})\n'
            yield f'fstr:{t}', f"v = {v}\ns = f'<@v@>'\n"
            yield f'fmt:{t}', f"s = '<@0@>'.format({v})\n" if t != 'range' else "s = '<@0@>'.format(1)\n"
            yield f'elem:{t}', f"x = [{v}]\n"
            yield f'dval:{t}', f"x = {{'k': {v}}}\n"
            yield f'dkey:{t}', f"x = {{{v}: 1}}\n"
            yield f'setvar:{t}', f"set_variable('q', {v})\ny = get_variable('q')\n"
            yield f'getvar-dflt:{t}', f"y = get_variable('nope', {v})\n"


ARG_POOL = ['0', '1', '-1', '5', "'a'", "''", "','", "'ab'", 'true', '[]', "['a']", "['a', ['b']]", '[1, 2]', "{'a': 1}",
            'range(2)', '[[1]]']


def method_grid(method_names: T.Dict[str, T.List[str]], rng, per: int) -> T.Iterator[T.Tuple[str, str]]:
    """every method of every holder (plus an unknown one) on receivers of every type with 0..2 pooled arguments"""
    recv = {
        'int': ['5', '-12', '0', '255'],
        'bool': ['true', 'false'],
        'str': ["'a,b,,c'", "' x y '", "'@0@-@1@'", "'Hello'", "''", "'1.2.3'", "'42'", "'a/b'"],
        'arr': ['[1, 2, 3]', "['a', ['b', ['c']]]", '[]', "[1, 'a', true]"],
        'dict': ["{'b': 1, 'a': 2}", '{}', "{'a': [1]}"],
        'range': ['range(3)'],
    }
    all_methods = sorted({m for ms in method_names.values() for m in ms} | {'nope'})
    for t, rs in recv.items():
        for m in all_methods:
            own = m in method_names.get(t, [])
            shapes: T.List[str] = ['']
            for a in ARG_POOL:
                shapes.append(a)
            n2 = per if own else 2
            for _ in range(n2):
                shapes.append(f'{rng.choice(ARG_POOL)}, {rng.choice(ARG_POOL)}')
            if own:
                shapes += [f'{rng.choice(ARG_POOL)}, {rng.choice(ARG_POOL)}, {rng.choice(ARG_POOL)}', 'k: 1', "fill: 3", "step: 2",
                           "0, 2, step: -1", "format: 'hex'", "fill: 5, format: 'bin'", "format: 'zz'", "fill: 'a'", "step: 0",
                           "1, 5, step: 2", "-1, -4, step: -1", "'x', 'y'", "'', ''", "0, 'd'", "'a', 'd'", "'zz', [1]", "7, [1]"]
            if not own:
                shapes = shapes[:4]
            for sh in shapes:
                r = rng.choice(rs)
                yield f'm:{t}.{m}', f'x = {r}.{m}({sh})\n'


def function_grid(rng) -> T.Iterator[T.Tuple[str, str]]:
    fns = ['message', 'set_variable', 'get_variable', 'is_variable', 'unset_variable', 'range', 'assert', 'nosuchfn']
    for f in fns:
        shapes = ['', 'k: 1', "'a', k: 1"] + ARG_POOL + [f'{a}, {b}' for a in ARG_POOL[:8] for b in ARG_POOL[:10]]
        shapes += ["'v', 1, 2", '1, 2, 3', '0, 5, 2', '1, 2, 3, 4', "['v']", "[['v']]", "'v', [1, [2]]", "true, 'm'", "false, 'm'",
                   "'1v', 1", "'v_1', 1", "'', 1", "'meson', 1", "'a b', 1", '2, 1', '0, 3, 0', '-1, 3']
        for sh in shapes:
            yield f'f:{f}', f"v = 3\nx = {f}({sh})\n"
            yield f'f:{f}', f"v = 3\n{f}({sh})\nw = is_variable('v')\n"


# ---------------------------------------------------------------- multi-file programs (subdir / subproject)

def _frag(g: Gen, n: int) -> T.List[str]:
    lines: T.List[str] = []
    for _ in range(n):
        lines += g.stmt(0, '')
    return lines


TREE_ERRORS = ["subdir('..')", "subdir('')", "subdir('subprojects')", "subdir('meson-x')", "subdir('/abs')", "subdir('nofile')",
               "subdir(1)", "subdir('sub', 'lib')", "subdir_done(1)", "subdir_done(k: 1)", "subproject('')", "subproject('.x')",
               "subproject('a..b')", "subproject('/abs')", "subproject(1)", "x = subdir('lib2')", "message(subproject('sp'))",
               "q = subproject('sp') == 1", "q = subproject('sp') == subproject('sp')", "q = [subproject('sp')]",
               "q = subproject('sp').get_variable('no_such_variable')", "q = subproject('sp').get_variable()",
               "q = subproject('sp').get_variable(1)", "q = subproject('sp').nope()", "q = subproject('sp').found(1)",
               "subdir_done()"]


def tree_program(rng) -> T.Tuple[str, T.Dict[str, str]]:
    """a top-level build file plus subdir()/subproject() files.  subdir files continue the caller's typed
    environment (they share its variables); subproject files start from an empty one"""
    g = Gen(rng, mutant=rng.random() < 0.15, max_stmts=4)
    g.env = {}
    g.loop = 0
    files: T.Dict[str, str] = {}
    main: T.List[str] = _frag(g, rng.randint(0, 3))
    sp_envs: T.Dict[str, T.Dict[str, T.Any]] = {}

    def subdir_file(prefix: str, depth: int) -> str:
        body = _frag(g, rng.randint(1, 3))
        if depth < 2 and rng.random() < 0.3:
            inner = rng.choice(['inner', 'more'])
            rel = prefix + '/' + inner
            if rel not in files:
                files[rel] = ''            # reserve, filled below (generation order = execution order)
                body.append(f"subdir('{inner}')")
                files[rel] = subdir_file(rel, depth + 1)
                body += _frag(g, rng.randint(0, 2))
        if rng.random() < 0.2:
            body.append('subdir_done()' if rng.random() < 0.7 else "if true\n  subdir_done()\nendif")
            saved = dict(g.env)
            body += _frag(g, rng.randint(1, 2))     # never runs: its definitions must not be relied upon
            g.env = saved
        return '\n'.join(body) + '\n'

    def subproject_file(name: str, depth: int) -> str:
        nonlocal g
        outer = g
        g = Gen(rng, mutant=rng.random() < 0.1, max_stmts=4)
        g.env = {}
        g.loop = 0
        body = [f"project('{name}')"] + _frag(g, rng.randint(1, 3))
        if rng.random() < 0.3:
            body.append(f"message(is_variable('{rng.choice(NAMES)}'), get_variable('{rng.choice(NAMES)}', 'none'))")
        if rng.random() < 0.25:
            rel = f'subprojects/{name}/d'
            body.append("subdir('d')")
            files[rel] = '\n'.join(_frag(g, rng.randint(1, 2))) + '\n'
        if depth == 0 and rng.random() < 0.2:
            other = 'sq' if name != 'sq' else 'sr'
            if f'subprojects/{other}' not in files:
                files[f'subprojects/{other}'] = ''
                files[f'subprojects/{other}'] = subproject_file(other, depth + 1)
            body.append(f"nested = subproject('{other}')")
            ne = sp_envs.get(other, {})
            if ne and rng.random() < 0.7:
                v = rng.choice(list(ne))
                body.append(f"from_nested = nested.get_variable('{v}')")
                g.env['from_nested'] = ne[v]
        if rng.random() < 0.06:
            body.append(f"again = subproject('{name}')")      # recursive include: InvalidCode
        if rng.random() < 0.1:
            body.append(rng.choice(['subdir_done()', 'break', 'continue']))
        sp_envs[name] = dict(g.env)
        g = outer
        return '\n'.join(body) + '\n'

    for _ in range(rng.randint(1, 4)):
        r = rng.random()
        if r < 0.4:
            d = rng.choice(['sub', 'lib', 'sub', 'tools'])
            if d not in files or rng.random() < 0.05:          # entering a directory twice is an error
                if d not in files:
                    files[d] = ''
                    main.append(f"subdir('{d}')")
                    files[d] = subdir_file(d, 0)
                else:
                    main.append(f"subdir('{d}')")
            main += _frag(g, rng.randint(0, 2))
        elif r < 0.88:
            name = rng.choice(['sp', 'sq', 'sp'])
            var = rng.choice(['sp', 'proj', 'dep_' + name])
            if f'subprojects/{name}' not in files:
                files[f'subprojects/{name}'] = ''
                files[f'subprojects/{name}'] = subproject_file(name, 0)
            main.append(f"{var} = subproject('{name}')")
            env = sp_envs.get(name, {})
            for _k in range(rng.randint(0, 3)):
                q = rng.random()
                if env and q < 0.5:
                    v = rng.choice(list(env))
                    tgt = rng.choice(NAMES)
                    main.append(f"{tgt} = {var}.get_variable('{v}')")
                    g.env[tgt] = env[v]
                elif q < 0.65:
                    main.append(f"message({var}.get_variable('zz_missing', {g.atom(rng.choice(SCALARS), 0)}), {var}.found())")
                elif q < 0.85:
                    v = rng.choice(list(env) + NAMES[:3])
                    main.append(f"message(is_variable('{v}'), get_variable('{v}', 'unset'))")
                else:
                    main += _frag(g, 1)
        elif r < 0.95:
            main.append(rng.choice(TREE_ERRORS))
        else:
            main.append("foreach it : [1, 2]")
            d = rng.choice(['loopdir', 'sub'])
            if d not in files:
                files[d] = rng.choice(["n_in = it\n", "if it == 1\n  break\nendif\n", "continue\n", "subdir_done()\nzz = 1\n"])
            main.append(f"  subdir('{d}')")
            main.append("  message(it)")
            main.append("endforeach")
    main += _frag(g, rng.randint(0, 2))
    return '\n'.join(main) + '\n', {k: v for k, v in files.items() if v}


# ---------------------------------------------------------------- the alias family, exhaustively

ALIAS_TYPES = {
    # type: (literal, piece appended by +=, second piece, [method expressions that LOOK like in-place operations])
    'arr': ("['x']", "['y']", "'z'", ['{v}.flatten()', '{v}.slice()', '{v}.get(0)', '{v}.contains(\'x\')', '{v}.length()', '{v} + [1]']),
    'nested': ("[['x'], []]", "[['y']]", "[[]]", ['{v}.flatten()', '{v}.slice(0, 1)', '{v}[0] + [1]', '{v}.get(-1)']),
    'dict': ("{'k': 'x'}", "{'n': 'y'}", "{'k': 'z'}", ['{v}.keys()', '{v}.values()', '{v}.get(\'k\')', '{v}.has_key(\'k\')', '{v} + {\'q\': 1}']),
    'str': ("'x'", "'y'", "'z'", ['{v}.to_upper()', '{v}.replace(\'x\', \'q\')', '{v}.strip()', '{v}.split(\'x\')', '{v} + \'w\'',
                               '{v}.substring(0, 1)', '\'-\'.join([{v}])', '\'@0@\'.format({v})']),
    'int': ('1', '2', '3', ['{v}.to_string()', '{v}.is_even()', '{v} + 1']),
}


def alias_grid() -> T.Iterator[T.Tuple[str, str, T.Dict[str, str]]]:
    """every way a value gets a second name  x  every way the value was produced  x  every operation that looks as
    if it changed the value, applied to either name afterwards.  -> (tag, main program, other build files)"""
    for ty, (lit, p1, p2, methods) in ALIAS_TYPES.items():
        origins = {
            'assigned': f'a = {lit}\n',
            'plusassigned': f'a = {lit}\na += {p1}\n',
            'plusassigned-twice': f'a = {lit}\na += {p1}\na += {p2}\n',
            'method-result': (f'a = ([{lit}] + [{lit}])[0]\n' if ty != 'arr' else f"a = ['x', 'y'].slice(0, 1)\n"),
            'loop-built': f'a = {lit}\nforeach it : [1, 2]\n  a += {p1}\nendforeach\n',
            'set_variable': f"set_variable('a', {lit})\n",
            'set_variable-plusassigned': f"set_variable('a', {lit})\na += {p1}\n",
        }
        aliases = {
            'assign': 'b = a\n',
            'get_variable': "b = get_variable('a')\n",
            'get_variable-fallback': f"b = get_variable('a', {lit})\n",
            'fallback-value': "b = get_variable('undefined_name', a)\n",
            'set_variable': "set_variable('b', a)\n",
            'set_get_variable': "set_variable('b', get_variable('a'))\n",
            'foreach-var': 'foreach b : [a]\nendforeach\n',
            'foreach-dict-var': "foreach kk, b : {'k': a}\nendforeach\n",
            'array-element': 'w = [a]\nb = w[0]\n',
            'array-get': 'w = [a, a]\nb = w.get(1)\n',
            'dict-element': "w = {'k': a}\nb = w['k']\n",
            'dict-get': "w = {'k': a}\nb = w.get('k')\n",
            'dict-get-fallback': "b = {}.get('k', a)\n",
            'ternary': 'b = true ? a : a\n',
            'paren': 'b = (a)\n',
            'is_variable-then-assign': "ok = is_variable('a')\nb = a\n",
            'chain': "c = a\nb = get_variable('c')\n",
        }
        ops = {
            'plusassign-a': f'a += {p1}\n',
            'plusassign-b': f'b += {p1}\n',
            'plusassign-a-twice': f'a += {p1}\na += {p2}\n',
            'plusassign-both': f'a += {p1}\nb += {p2}\na += {p2}\n',
            'reassign-sum': f'a = a + {p1}\n' if ty != 'arr' else f"a = a + ['y']\n",
            'plusassign-self': 'a += a\n' if ty not in ('dict',) else "a += a + {'s': 1}\n",
            'loop-plusassign': f'foreach it : [1, 2]\n  a += {p1}\n  b += {p2}\nendforeach\n',
            'unset-a': "unset_variable('a')\n",
        }
        for i, m in enumerate(methods):
            ops[f'method-{i}'] = 'r1 = ' + m.replace('{v}', 'a') + '\nr2 = ' + m.replace('{v}', 'b') + f'\na += {p1}\n'
        for on, o in origins.items():
            for an, al in aliases.items():
                for pn, op in ops.items():
                    tail = 'message(b)\n' if pn == 'unset-a' else 'message(a)\nmessage(b)\n'
                    yield f'alias:{ty}:{on}:{an}:{pn}', o + al + op + tail, {}
        # through other build files
        for on, o in origins.items():
            for pn in ('plusassign-a', 'plusassign-b', 'plusassign-both'):
                op = ops[pn]
                yield (f'alias:{ty}:{on}:subdir-assign:{pn}', o + "subdir('sub')\n" + op + 'message(a)\nmessage(b)\n',
                       {'sub': "b = get_variable('a')\n"})
                yield (f'alias:{ty}:{on}:subdir-op:{pn}', o + "b = get_variable('a')\nsubdir('sub')\nmessage(a)\nmessage(b)\n",
                       {'sub': op})
                yield (f'alias:{ty}:{on}:subproject-get:{pn}',
                       "sp = subproject('sp')\na = sp.get_variable('a')\nb = sp.get_variable('a')\n" + op +
                       "c = sp.get_variable('a')\nmessage(a)\nmessage(b)\nmessage(c)\n",
                       {'subprojects/sp': "project('sp')\n" + o})


# ---------------------------------------------------------------- string methods / substitution, exhaustively on short strings

def _strings(alphabet: str, maxlen: int) -> T.List[str]:
    out = ['']
    layer = ['']
    for _ in range(maxlen):
        layer = [s + c for s in layer for c in alphabet]
        out += layer
    return out


def _q(s: str) -> str:
    return "'" + s.replace('\\', '\\\\').replace("'", "\\'").replace('\n', '\\n').replace('\t', '\\t') + "'"


def _pack(tag: str, exprs: T.Iterable[str], per: int = 40) -> T.Iterator[T.Tuple[str, str]]:
    """many non-failing calls per program (one statement each)"""
    buf: T.List[str] = []
    for e in exprs:
        buf.append(f'r{len(buf)} = {e}')
        if len(buf) == per:
            yield tag, '\n'.join(buf) + '\n'
            buf = []
    if buf:
        yield tag, '\n'.join(buf) + '\n'


def string_grid(full: bool) -> T.Iterator[T.Tuple[str, str]]:
    """every string method of the formatting / splitting family on ALL short strings over small alphabets chosen so
    that separators overlap, placeholders nest and touch, and indices fall on, inside and outside the bounds:
    split/join/replace/strip/contains/startswith/endswith over {a, b, ','}; strip() over blanks; substring over all
    index pairs in [-len-2, len+2]; .format() templates over {@, 0, 1, x} (arguments that are themselves placeholders);
    f-string templates over {@, x, 1, _} with every short identifier defined (values that are themselves placeholders)"""
    n = 4 if full else 3
    recv = _strings('ab,', 5 if full else 4)
    args = [a for a in _strings('ab,', 2)]
    yield from _pack('sg:split', (f'{_q(s)}.split({_q(a)})' for s in recv for a in args if a))
    yield from _pack('sg:join-split', (f'{_q(a)}.join({_q(s)}.split({_q(a)})) == {_q(s)}' for s in recv for a in args if a))
    yield from _pack('sg:replace', (f'{_q(s)}.replace({_q(a)}, {_q(b)})' for s in recv for a in args if a for b in ('', 'x', 'ab', a + a)))
    yield from _pack('sg:replace-empty', (f'{_q(s)}.replace(\'\', {_q(b)})' for s in recv[:40] for b in ('', 'x', 'ab')))
    yield from _pack('sg:strip-chars', (f'{_q(s)}.strip({_q(a)})' for s in recv for a in args))
    yield from _pack('sg:strip', (f'{_q(s)}.strip()' for s in _strings(' a\n\t', n + 1)))
    for m in ('contains', 'startswith', 'endswith'):
        yield from _pack(f'sg:{m}', (f'{_q(s)}.{m}({_q(a)})' for s in recv for a in args))
    yield from _pack('sg:join', (f'{_q(a)}.join([{", ".join(_q(p) for p in parts)}])' for a in args
                                  for parts in ([], [''], ['a'], ['a', ''], ['', ''], ['a', 'b', ','], [',', 'ab'])))
    yield from _pack('sg:split-ws', (f'{_q(s)}.split()' for s in _strings(' a\n', n + 1)))
    yield from _pack('sg:case', (f'[{_q(s)}.to_upper(), {_q(s)}.to_lower(), {_q(s)}.underscorify()]' for s in _strings('aZ_-1€', 2)))
    for s in ('', 'a', 'ab', 'abc', 'abcd'):
        rng_ = range(-len(s) - 2, len(s) + 3)
        yield from _pack('sg:substring', [f'{_q(s)}.substring({a}, {b})' for a in rng_ for b in rng_] + [f'{_q(s)}.substring({a})' for a in rng_]
                         + [f'{_q(s)}.substring()'])
    yield 'sg:split-empty-sep', "r = 'ab'.split('')\n"
    # .format(): two arguments, the first of which looks like a placeholder itself
    import re as _re
    fargs = "'@1@', 'B'"
    ok: T.List[str] = []
    for t in _strings('@01x', 5 if full else 4) + ['@0@@1@', '@1@@0@@1@', '@00@', '@01@x', 'x@1@0@', '@0@1@', '@@0@@', '@10@', '@2@', '@0@@2@']:
        if any(int(m) >= 2 for m in _re.findall(r'@([0-9]+)@', t)):
            yield 'sg:format-out-of-range', f"r = {_q(t)}.format({fargs})\n"      # must fail: a program of its own
        else:
            ok.append(f'{_q(t)}.format({fargs})')
    yield from _pack('sg:format', ok)
    yield from _pack('sg:format-values', (f"'<@0@|@1@>'.format({a}, {b})" for a in SAMPLES['int'] + SAMPLES['bool'] + SAMPLES['str'] + SAMPLES['arr'] + SAMPLES['dict']
                                          for b in ('1', 'true', "'1'", '[true, 1]', "{'a': true}")))
    # f-strings: every identifier of up to three characters over {x, _, 1} is defined; x itself holds a placeholder text
    idents = [a + r for a in 'x_' for r in _strings('x_1', 2)]
    defs = ''.join(f"{i} = {_q('@x@' if i == 'x' else i.upper() + str(k))}\n" for k, i in enumerate(idents))
    buf = []
    for t in _strings('@x1_', 5 if full else 4) + ['@x@@x@', '@x@x@', '@@x@@', '@x1@@_@', '@1x@', '@x_1@']:
        buf.append(f"r{len(buf)} = f{_q(t)}")
        if len(buf) == 40:
            yield 'sg:fstring', defs + '\n'.join(buf) + '\n'
            buf = []
    if buf:
        yield 'sg:fstring', defs + '\n'.join(buf) + '\n'
    for t in ('@y@', '@x@@y@', 'a@y@', '@xy@', '@x1x1@'):
        yield 'sg:fstring-undefined', f"x = 'A'\nr = f{_q(t)}\n"
    for v in SAMPLES['int'] + SAMPLES['bool'] + SAMPLES['str'] + SAMPLES['arr'] + SAMPLES['dict'] + SAMPLES['range'][:1]:
        yield 'sg:fstring-values', f"v = {v}\nw = true\nr = f'<@v@|@w@|@v@>'\n"
