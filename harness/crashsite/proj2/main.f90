program p
  use m
  print *, x
end program p
