#!/bin/sh
# postconf script of the C09 test project: fails only when the harness asks for it
[ -z "$C09_POSTFAIL" ]
