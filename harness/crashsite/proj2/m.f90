module m
  integer :: x = 1
end module m
