"""Effect recorder / crash injector for property C09 (loaded through PYTHONPATH as `sitecustomize`).

Active only when MESON_VERIF_BUILD_DIR is set.  Every file-system mutation whose path lies inside that
directory is an *effect*; effects are numbered 0,1,2,... in program order and appended, one line each, to
the file named by MESON_VERIF_EFFECT_LOG (if set):

    <index> <kind> <path relative to the build dir> [<second path>|<nbytes>|site=<file>:<line>:<function> for opens]

Kinds: open_w (create/truncate for writing), open_a (append / r+), write, flush, fsync, close, replace, rename,
unlink, rmdir, mkdir, copyfile, other.  Paths outside the build directory are printed as `@out/<basename>`.
Files under meson-logs/ are not state (meson never reads them back) and are not effects.

MESON_VERIF_CRASH_AT=k   the process calls os._exit(137) right BEFORE performing effect k (Python's own
                         buffers are not flushed, exactly like SIGKILL).
MESON_VERIF_CRASH_MODE   `before` (default) | `torn`: for a write/copyfile effect, a strict prefix of the data
                         (half, rounded down) is written and flushed to the file, then the process exits
                         (a crash inside a non-atomic write).  For other kinds `torn` equals `before`.

No file of /repo is touched; the module only wraps builtins.open/io.open, a few os.* and shutil.* entry points.
"""
import os as _os
import sys as _sys

_BD = _os.environ.get('MESON_VERIF_BUILD_DIR')

if _BD:
    import builtins as _builtins
    import io as _io
    import shutil as _shutil

    _BD = _os.path.realpath(_BD)
    _LOG = _os.environ.get('MESON_VERIF_EFFECT_LOG')
    _AT = int(_os.environ.get('MESON_VERIF_CRASH_AT', '-1') or -1)
    _MODE = _os.environ.get('MESON_VERIF_CRASH_MODE', 'before')
    _state = {'n': 0, 'quiet': 0}
    _real_open = _builtins.open
    _logfd = _os.open(_LOG, _os.O_WRONLY | _os.O_CREAT | _os.O_APPEND, 0o644) if _LOG else -1
    _pid = _os.getpid()

    # full-path (non dir_fd) rmtree so that every unlink/rmdir inside a tree removal is a visible effect
    try:
        _shutil._use_fd_functions = False
    except Exception:
        pass

    def _rel(path):
        """path relative to the build dir, or None when outside (or a log file)"""
        try:
            if isinstance(path, int):
                return None
            p = _os.fspath(path)
            if isinstance(p, bytes):
                p = _os.fsdecode(p)
            p = _os.path.abspath(p)
            d = _os.path.dirname(p)
            # resolve symlinks of the directory part only (the last component may be what is being replaced)
            p = _os.path.join(_os.path.realpath(d), _os.path.basename(p))
        except Exception:
            return None
        if p == _BD:
            return '.'
        if not p.startswith(_BD + _os.sep):
            return None
        r = p[len(_BD) + 1:]
        if r.startswith('meson-logs' + _os.sep) or r == 'meson-logs':
            return None
        return r

    def _out(path):
        """name of a path outside the build dir: only its basename is kept (temp dir names vary)"""
        try:
            return '@out/' + _os.path.basename(_os.fsdecode(_os.fspath(path)))
        except Exception:
            return '@out/?'

    def _effect(kind, rel, extra=''):
        """returns True when the caller must crash *inside* this effect (torn variant)"""
        if _os.getpid() != _pid or _state['quiet']:
            return False
        k = _state['n']
        _state['n'] = k + 1
        if _logfd >= 0:
            _os.write(_logfd, ('%d %s %s %s\n' % (k, kind, rel.replace(' ', '%20'), extra)).encode())
        if k == _AT:
            if _MODE == 'torn' and kind in ('write', 'copyfile'):
                return True
            _os._exit(137)
        return False

    class _W:
        """proxy of a file object opened for writing inside the build dir"""

        def __init__(self, f, rel):
            object.__setattr__(self, '_f', f)
            object.__setattr__(self, '_rel', rel)
            object.__setattr__(self, '_closed_logged', False)

        def write(self, data):
            if _effect('write', self._rel, str(len(data))):
                self._f.write(data[:len(data) // 2])
                self._f.flush()
                _os._exit(137)
            return self._f.write(data)

        def writelines(self, lines):
            for l in lines:
                self.write(l)

        def flush(self):
            _effect('flush', self._rel)
            return self._f.flush()

        def close(self):
            if not self._f.closed and not self._closed_logged:
                object.__setattr__(self, '_closed_logged', True)
                _effect('close', self._rel)
            return self._f.close()

        def __enter__(self):
            self._f.__enter__()
            return self

        def __exit__(self, *a):
            self.close()
            return False

        def __iter__(self):
            return iter(self._f)

        def __next__(self):
            return next(self._f)

        def __getattr__(self, name):
            return getattr(self._f, name)

        def __setattr__(self, name, value):
            setattr(self._f, name, value)

        def __del__(self):
            # an unclosed handle is flushed by the interpreter when collected: that is a close effect
            try:
                if not self._f.closed:
                    self.close()
            except Exception:
                pass

    def _site():
        """nearest caller inside the meson sources: site=<file relative to the repo>:<line>:<function>"""
        try:
            f = _sys._getframe(2)
            while f is not None:
                fn = f.f_code.co_filename
                i = fn.rfind('mesonbuild' + _os.sep)
                if i >= 0:
                    return 'site=%s:%d:%s' % (fn[i:], f.f_lineno, f.f_code.co_name)
                f = f.f_back
        except Exception:
            pass
        return 'site=?'

    def _open(file, mode='r', *args, **kwargs):
        m = mode if isinstance(mode, str) else 'r'
        writing = any(c in m for c in 'wax+')
        rel = _rel(file) if writing else None
        if rel is None:
            return _real_open(file, mode, *args, **kwargs)
        _effect('open_w' if 'w' in m or 'x' in m else 'open_a', rel, _site())
        return _W(_real_open(file, mode, *args, **kwargs), rel)

    _builtins.open = _open
    _io.open = _open

    def _wrap1(mod, name, kind):
        real = getattr(mod, name)

        def w(path, *a, **kw):
            rel = _rel(path) if not kw.get('dir_fd') else None
            if rel is not None:
                _effect(kind, rel)
            return real(path, *a, **kw)
        w.__name__ = name
        setattr(mod, name, w)

    def _wrap2(mod, name, kind):
        real = getattr(mod, name)

        def w(src, dst, *a, **kw):
            rs, rd = _rel(src), _rel(dst)
            if rs is not None or rd is not None:
                _effect(kind, rs or _out(src), (rd or _out(dst)).replace(' ', '%20'))
            return real(src, dst, *a, **kw)
        w.__name__ = name
        setattr(mod, name, w)

    _wrap1(_os, 'unlink', 'unlink')
    _wrap1(_os, 'remove', 'unlink')
    _wrap1(_os, 'rmdir', 'rmdir')
    _wrap1(_os, 'mkdir', 'mkdir')
    _wrap1(_os, 'chmod', 'other')
    _wrap1(_os, 'utime', 'other')
    _wrap1(_os, 'truncate', 'other')
    _wrap2(_os, 'replace', 'replace')
    _wrap2(_os, 'rename', 'rename')
    _wrap2(_os, 'symlink', 'other')
    _wrap2(_os, 'link', 'other')

    _real_fsync = _os.fsync

    def _fsync(fd):
        try:
            p = _os.readlink('/proc/self/fd/%d' % (fd if isinstance(fd, int) else fd.fileno()))
            rel = _rel(p)
        except Exception:
            rel = None
        if rel is not None:
            _effect('fsync', rel)
        return _real_fsync(fd)
    _os.fsync = _fsync

    _real_copyfile = _shutil.copyfile

    def _copyfile(src, dst, *a, **kw):
        rs, rd = _rel(src), _rel(dst)
        if rs is None and rd is None:
            return _real_copyfile(src, dst, *a, **kw)
        torn = _effect('copyfile', rs or _out(src), (rd or _out(dst)).replace(' ', '%20'))
        if torn:
            with _real_open(src, 'rb') as fi:
                data = fi.read()
            with _real_open(dst, 'wb') as fo:
                fo.write(data[:len(data) // 2])
                fo.flush()
            _os._exit(137)
        _state['quiet'] += 1
        try:
            return _real_copyfile(src, dst, *a, **kw)
        finally:
            _state['quiet'] -= 1
    _shutil.copyfile = _copyfile
