"""C15 tracer: records which build-definition files the meson process actually opens.

Activated only when C15_TRACE_LOG is set.  Every `open` audit event whose path lies under C15_TRACE_SRC and whose
basename is meson.build / meson.options / meson_options.txt, or whose path is one of C15_TRACE_EXTRA (os.pathsep
separated native/cross files), is appended to the log as one JSON line {"path":..., "mode":...}.
"""
import os
import sys

_log = os.environ.get('C15_TRACE_LOG')
if _log:
    import json
    _src = os.path.realpath(os.environ.get('C15_TRACE_SRC', '/nonexistent')) + os.sep
    _extra = set(os.path.realpath(p) for p in os.environ.get('C15_TRACE_EXTRA', '').split(os.pathsep) if p)
    _names = ('meson.build', 'meson.options', 'meson_options.txt')
    _fd = os.open(_log, os.O_WRONLY | os.O_APPEND | os.O_CREAT, 0o644)

    def _hook(event, args):
        if event != 'open':
            return
        try:
            path = args[0]
            if isinstance(path, bytes):
                path = os.fsdecode(path)
            if not isinstance(path, str):
                return
            base = os.path.basename(path)
            ap = os.path.abspath(path)
            if (base in _names and (ap + os.sep).startswith(_src) or ap.startswith(_src) and base in _names) or os.path.realpath(ap) in _extra:
                os.write(_fd, (json.dumps({'path': ap, 'mode': args[1] if isinstance(args[1], str) else None}) + '\n').encode())
        except Exception:
            pass

    sys.addaudithook(_hook)
