"""C14 — in-process adapter for real `configure_file()` calls.

One real `Interpreter` (project without languages, `--backend=none`) over a scratch source / build tree.  Each call
is a small meson program (`d = configuration_data()` / `d.set(...)` / `configure_file(...)`) parsed by the real
parser and evaluated by `Interpreter.evaluate_codeblock`, so the keyword type checks, the action dispatch of
`func_configure_file`, `do_conf_file` / `dump_conf_header` / `run_command_impl` / `shutil.copy2` all run as they do under
`meson setup`.  Observed from outside: exception class, bytes of the output file (or its absence), the warnings
logged (undefined names, "empty configuration_data"), and whether the data object was marked used.
"""
from __future__ import annotations

import argparse
import os
import re
import signal
import sys
import typing as T

from . import common


class CallTimeout(BaseException):
    pass


def _on_alarm(signum: int, frame: T.Any) -> None:
    raise CallTimeout()


MISSING_RE = re.compile(r"The variable\(s\) (.*) in the input file '")


class Obs(T.NamedTuple):
    status: str                      # 'OK' or 'ERR:<class>:<kind>'
    out: T.Optional[bytes]           # bytes of the output file; None = no such file after the call
    missing: T.Optional[T.List[str]]  # names in the undefined-variable warning (None = no such warning)
    useless: bool                    # the "empty configuration_data() object" warning was logged
    used: T.Optional[bool]           # `.used` of the object bound to variable `d` (None: not a ConfigurationData)
    message: str


class InterpEnv:
    TIME_LIMIT = 20.0

    def __init__(self) -> None:
        self.dir = ''
        try:
            self._init()
        except BaseException:
            if self.dir:
                common.rmtree(self.dir)
            raise

    def _init(self) -> None:
        from mesonbuild import mparser, mlog, environment, build, msetup
        from mesonbuild.interpreter import Interpreter
        from mesonbuild.interpreterbase._unholder import _unholder
        self.mparser = mparser
        self.mlog = mlog
        self.build = build
        self._unholder = _unholder
        self.dir = common.scratch_dir('mverif-c14-cf-')
        self.src = os.path.join(self.dir, 'src')
        self.bld = os.path.join(self.dir, 'bld')
        os.makedirs(self.src)
        os.makedirs(self.bld)
        with open(os.path.join(self.src, 'meson.build'), 'w') as f:
            f.write("project('c14cf', meson_version: '>=1.3.0')\n")
        p = argparse.ArgumentParser()
        msetup.add_arguments(p)
        opts = p.parse_args(['--backend=none', self.src, self.bld])
        self._old_disable = mlog._logger.log_disable_stdout
        mlog._logger.log_disable_stdout = True
        from mesonbuild.utils import universal as U
        if U._meson_command is None:       # `command:` mode runs the program with MESONINTROSPECT etc. in its environment
            U.set_meson_command(os.path.join(common.REPO, 'meson.py'))
        env = environment.Environment(self.src, self.bld, opts)
        self.interp = Interpreter(build.Build(env), user_defined_options=opts)
        # (the constructor has evaluated the project() call of the root file: the target version that the
        # FeatureNew checks consult is set)
        self.warnings: T.List[str] = []
        self._orig_warning = mlog.warning
        outer = self

        def warning(*args: T.Any, **kw: T.Any) -> None:
            outer.warnings.append(' '.join(str(getattr(a, 'text', a)) for a in args))
        mlog.warning = warning
        self._n = 0
        # which core routine a call reaches (observed from outside; a routine that cannot be wrapped is reported)
        self.actions: T.List[str] = []
        self.spy_problems: T.List[str] = []
        self._restore: T.List[T.Tuple[T.Any, str, T.Any]] = []
        import shutil
        from mesonbuild import mesonlib

        def spy(owner: T.Any, attr: str, label: str) -> None:
            orig = getattr(owner, attr, None)
            if not callable(orig):
                self.spy_problems.append(f'{getattr(owner, "__name__", type(owner).__name__)}.{attr} is not callable')
                return

            def wrapped(*a: T.Any, **k: T.Any) -> T.Any:
                outer.actions.append(label)
                return orig(*a, **k)
            self._restore.append((owner, attr, orig))
            setattr(owner, attr, wrapped)
        spy(mesonlib, 'do_conf_file', 'configuration')
        spy(mesonlib, 'dump_conf_header', 'configuration')
        spy(shutil, 'copy2', 'copy')
        spy(self.interp, 'run_command_impl', 'command')

    def close(self) -> None:
        for owner, attr, orig in reversed(self._restore):
            try:
                if owner is self.interp:
                    delattr(owner, attr)
                else:
                    setattr(owner, attr, orig)
            except Exception:
                pass
        self.mlog.warning = self._orig_warning
        self.mlog._logger.log_disable_stdout = self._old_disable
        common.rmtree(self.dir)

    def parse(self, code: str):
        return self.mparser.Parser(code, 'meson.build').parse()

    def fresh_name(self, stem: str) -> str:
        self._n += 1
        return f'{stem}{self._n}'

    def write_input(self, name: str, content: bytes) -> None:
        with open(os.path.join(self.src, name), 'wb') as f:
            f.write(content)

    def remove_input(self, name: str) -> None:
        try:
            os.unlink(os.path.join(self.src, name))
        except OSError:
            pass

    def call(self, code: str, output: str) -> Obs:
        """evaluate `code` (which calls configure_file(output: <output>) once) on a fresh variable table"""
        it = self.interp
        it.variables = {}
        it.argument_depth = 0
        it.configure_file_outputs = {}
        it.current_node = self.mparser.BaseNode(-1, -1, 'sentinel')
        self.warnings = []
        self.actions = []
        opath = os.path.join(self.bld, output)
        for p in (opath, opath + '~'):
            if os.path.exists(p):
                os.unlink(p)
        status, msg = 'OK', ''
        old = signal.signal(signal.SIGALRM, _on_alarm)
        try:
            try:
                ast = self.parse(code)
                signal.setitimer(signal.ITIMER_REAL, self.TIME_LIMIT)
                try:
                    it.evaluate_codeblock(ast)
                finally:
                    signal.setitimer(signal.ITIMER_REAL, 0)
            except BaseException as e:  # noqa: B036 - every outcome is a class
                if isinstance(e, (KeyboardInterrupt, SystemExit)):
                    raise
                msg = str(e)
                status = 'ERR:' + err_kind(e)
        finally:
            signal.signal(signal.SIGALRM, old)
        out: T.Optional[bytes] = None
        if os.path.isfile(opath):
            with open(opath, 'rb') as f:
                out = f.read()
        missing: T.Optional[T.List[str]] = None
        useless = False
        for w in self.warnings:
            m = MISSING_RE.search(w)
            if m:
                import ast as pyast
                try:
                    v = pyast.literal_eval('[' + m.group(1) + ']')
                    missing = (missing or []) + [str(x) for x in v]
                except (ValueError, SyntaxError):
                    missing = (missing or []) + ['<unparsed:' + m.group(1) + '>']
            if 'Got an empty configuration_data() object' in w:
                useless = True
        used: T.Optional[bool] = None
        h = it.variables.get('d')
        if h is not None:
            try:
                o = self._unholder(h)
            except Exception:
                o = None
            if isinstance(o, self.build.ConfigurationData):
                used = bool(o.used)
        return Obs(status, out, missing, useless, used, msg[:300])


def err_kind(e: BaseException) -> str:
    """small enum of the errors configure_file raises (class + which rule), never message text beyond the rule"""
    if isinstance(e, (CallTimeout, RecursionError)):
        return 'HANG'
    names = [c.__name__ for c in type(e).__mro__]
    m = str(e)
    if 'MesonException' in names:
        table = [
            ('Must specify an action', 'no-action'),
            ('Must not specify both', 'two-actions'),
            ('Must specify one of', 'three-actions'),
            ('"capture" keyword requires "command"', 'capture-needs-command'),
            ('At most one input file', 'config-many-inputs'),
            ('Exactly one input file must be given in copy mode', 'copy-needs-one-input'),
            ('Could not read input file', 'read'),
            ('Could not write output file', 'write'),
            ('#mesondefine does not contain exactly two tokens', 'tokens'),
            ('Format error', 'format'),
            ('Found invalid character', 'invalid'),
            ('Found incomplete variable', 'incomplete'),
        ]
        for pat, kind in table:
            if pat in m:
                return 'Meson:' + kind
        cls = next(n for n in names if n in ('InvalidArguments', 'InvalidCode', 'InterpreterException', 'MesonException'))
        return 'Meson:other:' + cls
    return type(e).__name__


def python_cmd() -> str:
    return sys.executable
