"""Project-tree generator and `meson setup` runner (shared by C04, C05, C06, C15).

Public API
----------
FAKEBIN
    directory holding the stand-in `ninja` (answers `--version`, exits 0 otherwise); `configure` puts it first on PATH.

gen_project(rng, dir, features=None) -> spec
    Write a random but *valid-by-construction* meson project (C sources, no external deps) below `dir`
    and return its description.  `features` is a dict of switches / probabilities (see DEFAULT_FEATURES);
    `features['collision']` (None or one of COLLISION_KINDS) plants exactly one pair of targets whose
    outputs collide.  The spec is JSON-serialisable:
        spec['files']      {relative path: text}  -- everything written (replay = write_project(dir, files))
        spec['targets']    [{'var','name','kind','dir','project','outputs','bbd'}]  in creation order
        spec['tests']      [{'name','exe': var,'depends':[var…],'benchmark':bool}]
        spec['collision']  None | kind
        spec['shared']     [{'pkind', 'project', 'dir', 'uses': [[consumer kind, dir], …]}] produced objects handed to >= 2 consumers
        spec['failing_subproject']  None | {'call', 'without', 'root_without': root meson.build text without the call, …}:
                           an optional subproject `optsp` that fails part-way; the project must configure exactly as
                           the same project with `root_without` as its root meson.build
        spec['layout_sensitive'] True when the project is only collision-free under layout=mirror
    Everything random comes from `rng` (a random.Random).

write_project(dir, files)
    Materialise spec['files'] again.

configure(srcdir, builddir, args=(), env=None, timeout=300) -> result
    (env=None: os.environ minus MESON_RSP_THRESHOLD/NINJA/CC/CFLAGS/LDFLAGS/DESTDIR; an explicit env is used as given)
    Run `[sys.executable, <common.REPO>/meson.py, 'setup', srcdir, builddir, *args]` with FAKEBIN first on PATH and
    PYTHONPATH=common.REPO.  result = {'rc','ok','out','wall','timeout'}; `ok` means rc == 0 and build.ninja exists.

read_build(builddir) -> {'ninja': text, 'targets': intro-targets.json, 'tests': intro-tests.json,
                         'benchmarks': intro-benchmarks.json}

option_matrix() -> list of (label, [args])   layout x default_library x unity
backend_option_values() -> {option: [values]}  every other option that changes what the backend writes (live registrations)
"""
from __future__ import annotations

import json
import os
import subprocess
import sys
import time
import typing as T

from . import common

FAKEBIN = os.path.join(common.VERIF, 'harness', 'fakebin')

DEFAULT_FEATURES: T.Dict[str, T.Any] = {
    'subdirs': 0.8,        # probability of having subdirectories
    'subproject': 0.35,    # probability of a subproject
    'custom_targets': 0.8,
    'generators': 0.4,
    'configure_file': 0.5,
    'odd_names': 0.35,     # probability that a given name is taken from the odd-name pool
    'tests': 0.8,
    'aliases': 0.4,
    'max_targets': 9,
    'collision': None,
    'unity': 'off',        # the -Dunity value the project will be configured with (single-object extraction needs 'off')
    'unity_size': 4,       # the -Dunity_size value in use: source counts are biased towards its exact multiples
    'extraction': 0.45,    # probability that a target consumes extracted objects of an earlier one
    'pch': 0.15,
    'failing_subproject': 0.25,  # probability of an OPTIONAL subproject that fails part-way (state must not leak)
    'sharing': 0.75,       # probability (per project) of produced objects shared by 2-3 consumers of different kinds
    'prereq_cases': 0.7,   # probability (per project part) of the test/benchmark prerequisite cases with private helpers
    'pipe_names': False,   # names containing `|` (ninja cannot express them; must be rejected at configure time)
}

COLLISION_KINDS = [
    'ct-ct-same-output',        # two custom targets in one directory produce the same file
    'ct-output-vs-exe',         # a custom target output named like an executable of the same directory
    'ct-output-vs-staticlib',   # custom target output libX.a next to static_library('X')
    'same-name-same-dir',       # executable('x') twice in one directory
    'flat-same-name',           # same executable name in two directories, layout=flat
    'flat-ct-vs-exe',           # custom target output in one dir, executable of that name in another, layout=flat
    'shared-vs-module',         # shared_library('x') and shared_module('x') in one directory
    'library-vs-static',        # both_libraries('x') and static_library('x') in one directory
    'reserved-ct-output',       # a custom target output named like one of the backend's own phony targets
    'reserved-target-name',     # a target named like one of the backend's own targets
]

NORMAL_NAMES = ['foo', 'bar', 'util', 'core', 'app', 'tool', 'data', 'io', 'net', 'base', 'liba', 'x1', 'common',
                'proto', 'conf', 'front', 'back', 'mid', 'extra', 'main']
ODD_NAMES = ['my prog', 'a:b', 'do$lar', 'pre#fix', 'é中文', "q'uote", 'semi;colon', 'amp&er', 'par(en)', 'eq=x',
             '-dash', '.dot', 'com,ma', 'st*r', 'per%cent', 'br{a}ce', 'plus+', 'ti~lde', 'ex!cl', 'h^t', 'qm?',
             'sq[b]', 'gt>lt', 'two  spaces', 'trail$', 'a$ b', 'x::y', '#lead', 'dq"uote']
PIPE_NAMES = ['a|b', 'pipe|', 'x ||y']
RESERVED_BACKEND = ['all', 'test', 'benchmark', 'install', 'uninstall', 'dist', 'clean', 'PHONY', 'reconfigure',
                    'build.ninja', 'meson-test-prereq', 'meson-benchmark-prereq', 'meson-internal__test',
                    'clean-ctlist', 'meson-internal__clean', 'meson-implicit-outs', 'meson-internal__install',
                    'coverage', 'scan-build', 'clang-format', 'clang-tidy']

GEN_PY = '''#!/usr/bin/env python3
import sys
for p in sys.argv[1:]:
    if p.startswith('-'):
        continue
    if not p.endswith(('.in', '.txt.in')):
        with open(p, 'w') as f:
            f.write('/* generated */\\n')
'''


class _Gen:
    def __init__(self, rng, features):
        self.rng = rng
        self.f = dict(DEFAULT_FEATURES)
        self.f.update(features or {})
        self.files: T.Dict[str, str] = {}
        self.lines: T.Dict[str, T.List[str]] = {}
        self.targets: T.List[dict] = []
        self.tests: T.List[dict] = []
        self.used_names: T.Set[T.Tuple[str, str, str]] = set()   # (project, dir, name): the same name may recur in another dir
        self.cur = ''
        self.nvar = 0
        self.nfile = 0
        self.layout_sensitive = False
        self.overrides: T.List[dict] = []
        self.shared: T.List[dict] = []

    # ---- helpers
    def q(self, s: str) -> str:
        """meson string literal"""
        return "'" + s.replace('\\', '\\\\').replace("'", "\\'") + "'"

    def var(self, prefix='t') -> str:
        self.nvar += 1
        return f'{prefix}{self.nvar}'

    def emit(self, mdir: str, line: str) -> None:
        self.lines.setdefault(mdir, []).append(line)

    def name(self, project: str, odd_ok=True, pool=None) -> str:
        rng = self.rng
        for _ in range(200):
            if pool is None:
                if odd_ok and self.f['pipe_names'] and rng.random() < 0.3:
                    n = rng.choice(PIPE_NAMES)
                elif odd_ok and rng.random() < self.f['odd_names']:
                    n = rng.choice(ODD_NAMES)
                else:
                    n = rng.choice(NORMAL_NAMES)
                    if rng.random() < 0.3:
                        n += str(rng.randint(0, 9))
            else:
                n = rng.choice(pool)
            if (project, self.cur, n) not in self.used_names:
                self.used_names.add((project, self.cur, n))
                return n
        self.nvar += 1
        n = f'n{self.nvar}'
        self.used_names.add((project, self.cur, n))
        return n

    def src(self, mdir: str, stem: str = None, ext='.c', body=None) -> str:
        """create a source file in mdir, return its name relative to mdir"""
        rng = self.rng
        if stem is None:
            stem = rng.choice(['main', 'util', 'impl', 'a', 'b', 'mod', 'x y', 'a_b'])
        fn = stem + ext
        path = os.path.join(mdir, fn)
        if path in self.files:
            self.nfile += 1
            fn = f'{stem}{self.nfile}{ext}'
            path = os.path.join(mdir, fn)
        self.nfile += 1
        if body is None:
            body = f'int f{self.nfile}(void) {{ return {self.nfile}; }}\n' if ext == '.c' else f'data {self.nfile}\n'
        self.files[path] = body
        return fn

    def add_target(self, **kw) -> dict:
        self.targets.append(kw)
        return kw

    def nsrc(self) -> int:
        """number of sources of a target: 1..5, and often an exact multiple of the unity size"""
        rng = self.rng
        us = int(self.f.get('unity_size') or 4)
        if rng.random() < 0.4:
            return min(8, us * rng.choice([1, 1, 2]))
        return rng.randint(1, 5)

    def objects_kw(self, project, me_kind) -> T.Optional[str]:
        """`objects:` from an earlier target of the same project (its object names are recomputed by
        Backend._determine_ext_objs, not taken from the statements that produce them)"""
        rng = self.rng
        if rng.random() >= self.f['extraction']:
            return None
        cands = [t for t in self.targets if t['project'] == project and t.get('srcs') and
                 t['kind'] in ('static_library', 'shared_library', 'executable', 'both_libraries', 'library', 'shared_module')]
        if not cands:
            return None
        t = rng.choice(cands)
        r = rng.random()
        if r < 0.3 and self.f.get('unity') == 'off' and t['dir'] == self.cur:
            # single objects (not possible in unity builds); names are relative to the directory of the call
            pick = rng.sample(t['srcs'], rng.randint(1, len(t['srcs'])))
            return f"objects: {t['var']}.extract_objects({', '.join(self.q(x) for x in pick)})"
        rec = rng.choice(['true', 'false'])
        return f"objects: {t['var']}.extract_all_objects(recursive: {rec})"

    def pch_kw(self, mdir, name) -> T.Optional[str]:
        if self.rng.random() >= self.f['pch']:
            return None
        self.nfile += 1
        fn = f'pch/p{self.nfile}_pch.h'
        self.files[os.path.join(mdir, fn)] = '#include <stdio.h>\n'
        return f'c_pch: {self.q(fn)}'

    # ---- target makers; each returns the target dict
    def mk_lib(self, mdir, project, kind=None, name=None):
        rng = self.rng
        self.cur = mdir
        kind = kind or rng.choice(['static_library', 'shared_library', 'both_libraries', 'library', 'shared_module'])
        name = name or self.name(project)
        v = self.var()
        srcs = [self.src(mdir) for _ in range(self.nsrc())]
        kws = []
        okw = self.objects_kw(project, kind)
        if okw:
            kws.append(okw)
        pkw = self.pch_kw(mdir, name)
        if pkw:
            kws.append(pkw)
        libs = [t for t in self.targets if t['kind'] in ('static_library', 'library', 'both_libraries', 'shared_library')
                and t['project'] == project]
        if libs and rng.random() < 0.5 and kind != 'shared_module':
            dep = rng.choice(libs)
            kws.append(f"{rng.choice(['link_with', 'link_with', 'link_whole'] if dep['kind'] == 'static_library' else ['link_with'])}: {dep['var']}")
        gens = self.pick_generated(project)
        extra = ''
        if gens:
            extra = ', ' + self.fmt_extra(mdir, gens)
        if kind == 'shared_library' and rng.random() < 0.3:
            kws.append("version: '1.2.3'")
            if rng.random() < 0.5:
                kws.append("soversion: '1'")
        if rng.random() < 0.25:
            kws.append('install: true')
        bbd = True
        if rng.random() < 0.15:
            kws.append('build_by_default: false')
            bbd = False
        if kind == 'static_library' and rng.random() < 0.2:
            kws.append('pic: true')
        args = ', '.join([self.q(name)] + [self.q(s) for s in srcs]) + extra
        if kws:
            args += ', ' + ', '.join(kws)
        self.emit(mdir, f'{v} = {kind}({args})')
        return self.add_target(var=v, name=name, kind=kind, dir=mdir, project=project, outputs=None,
                               bbd=bbd, srcs=srcs)

    def pick_generated(self, project) -> str:
        """maybe some generated sources (custom target / generator / configure_file objects) as extra positional args"""
        rng = self.rng
        out = []
        cts = [t for t in self.targets if t['kind'] == 'custom_target' and t['project'] == project
               and any(o.endswith(('.c', '.h')) for o in t['outputs'])]
        if cts and rng.random() < 0.5:
            ct = rng.choice(cts)
            if rng.random() < 0.6 or len(ct['outputs']) == 1:
                out.append(ct['var'])
            else:
                idx = [i for i, o in enumerate(ct['outputs']) if o.endswith(('.c', '.h'))]
                out.append(f"{ct['var']}[{rng.choice(idx)}]")
        gens = [t for t in self.targets if t['kind'] == 'generator' and t['project'] == project]
        if gens and rng.random() < 0.5:
            g = rng.choice(gens)
            # processed in the directory of use: the input file lives there
            out.append(('GEN', g['var']))
        cfs = [t for t in self.targets if t['kind'] == 'configure_file' and t['project'] == project
               and t['outputs'][0].endswith('.h')]
        if cfs and rng.random() < 0.4:
            out.append(rng.choice(cfs)['var'])
        return out

    def fmt_extra(self, mdir, extra) -> str:
        parts = []
        for e in extra:
            if isinstance(e, tuple):
                inp = self.src(mdir, stem=self.rng.choice(['tmpl', 'x', 'in put']), ext='.in')
                parts.append(f'{e[1]}.process({self.q(inp)})')
            else:
                parts.append(e)
        return ', '.join(parts)

    def mk_exe(self, mdir, project, name=None, allow_extra=True):
        rng = self.rng
        self.cur = mdir
        name = name or self.name(project)
        v = self.var()
        srcs = [self.src(mdir, stem='main', body='int main(void) { return 0; }\n')]
        srcs += [self.src(mdir) for _ in range(self.nsrc() - 1)]
        positional = [self.q(name)] + [self.q(s) for s in srcs]
        if allow_extra:
            # a source of another directory with the same basename (object name mangling)
            others = [p for p in self.files if p.endswith('.c') and os.path.dirname(p) != mdir
                      and self.proj_of(p) == project and 'main' not in os.path.basename(p)]
            if others and rng.random() < 0.3:
                o = rng.choice(sorted(others))
                ov = self.var('f')
                odir = os.path.dirname(o)
                # files() must be evaluated in the directory of the file: use a path relative to the project root
                root = self.proj_root(project)
                rel = os.path.relpath(o, root)
                self.emit(mdir, f"{ov} = files(meson.project_source_root() / {self.q(rel)})")
                positional.append(ov)
            extra = self.pick_generated(project)
            if extra:
                positional.append(self.fmt_extra(mdir, extra))
        kws = []
        libs = [t for t in self.targets if t['kind'] in ('static_library', 'shared_library', 'both_libraries', 'library')
                and (t['project'] == project or (project == '' and t.get('exported')))]
        if libs and rng.random() < 0.7:
            ch = rng.sample(libs, min(len(libs), rng.randint(1, 2)))
            kws.append('link_with: [' + ', '.join(t['var'] for t in ch) + ']')
        okw = self.objects_kw(project, 'executable')
        if okw:
            kws.append(okw)
        pkw = self.pch_kw(mdir, name)
        if pkw:
            kws.append(pkw)
        slibs = [t for t in self.targets if t['kind'] == 'static_library' and t['project'] == project]
        if slibs and rng.random() < 0.25:
            kws.append(f"link_whole: {rng.choice(slibs)['var']}")
        deps = [t for t in self.targets if t['kind'] == 'dependency' and t['project'] == project]
        if deps and rng.random() < 0.5:
            kws.append(f"dependencies: {rng.choice(deps)['var']}")
        if rng.random() < 0.2:
            kws.append('install: true')
        bbd = True
        if rng.random() < 0.2:
            kws.append('build_by_default: false')
            bbd = False
        self.emit(mdir, f"{v} = executable({', '.join(positional + kws)})")
        return self.add_target(var=v, name=name, kind='executable', dir=mdir, project=project, outputs=None, bbd=bbd,
                               srcs=srcs)

    def proj_root(self, project: str) -> str:
        return '' if project == '' else os.path.join('subprojects', project)

    def proj_of(self, path: str) -> str:
        parts = path.split(os.sep)
        if parts[0] == 'subprojects' and len(parts) > 2:
            return parts[1]
        return ''

    def mk_ct(self, mdir, project, outputs=None, name=None, bbd=None):
        rng = self.rng
        self.cur = mdir
        v = self.var()
        name = name or self.name(project)
        if outputs is None:
            n = rng.randint(1, 3)
            outputs = []
            stem = rng.choice(['gen', 'out', 'tbl', 'odd name', 'res']) + str(self.nvar)
            if self.f['pipe_names'] and rng.random() < 0.5:
                stem = 'o|p' + str(self.nvar)
            exts = rng.sample(['.h', '.c', '.txt', '.dat'], n)
            if rng.random() < 0.5 and '.h' not in exts:
                exts[0] = '.h'
            for e in exts:
                outputs.append(stem + e)
        kws = [f"output: [{', '.join(self.q(o) for o in outputs)}]"]
        cmd = ['gen']
        prior = [t for t in self.targets if t['project'] == project and t['kind'] in
                 ('executable', 'custom_target', 'static_library', 'shared_library')]
        r = rng.random()
        if r < 0.3:
            inp = self.src(mdir, stem=rng.choice(['data', 'in put', 'x']), ext='.txt.in')
            kws.append(f'input: {self.q(inp)}')
            cmd.append("'@INPUT@'")
        elif r < 0.5 and prior:
            kws.append(f"input: {rng.choice(prior)['var']}")
            cmd.append("'@INPUT@'")
        if rng.random() < 0.15 and len(outputs) == 1:
            kws.append('capture: true')
        else:
            cmd.append("'@OUTPUT@'")
        if rng.random() < 0.15:
            kws.append("depfile: '@BASENAME@.d'" if 'input:' in ' '.join(kws) and "input: '" in ' '.join(kws) else f"depfile: {self.q(outputs[0] + '.d')}")
        if prior and rng.random() < 0.3:
            kws.append(f"depends: {rng.choice(prior)['var']}")
        if rng.random() < 0.2:
            df = self.src(mdir, stem='dep', ext='.txt')
            kws.append(f'depend_files: files({self.q(df)})')
        if bbd is None:
            bbd = rng.random() < 0.5
        if bbd:
            kws.append('build_by_default: true')
        if rng.random() < 0.1:
            kws.append('build_always_stale: true')
        if rng.random() < 0.15:
            kws.append("install: true, install_dir: " + '[' + ', '.join(["'share/x'"] * len(outputs)) + ']')
        kws.insert(1, f"command: [{', '.join(cmd)}]")
        self.emit(mdir, f"{v} = custom_target({self.q(name)}, {', '.join(kws)})")
        return self.add_target(var=v, name=name, kind='custom_target', dir=mdir, project=project,
                               outputs=list(outputs), bbd=bbd)

    def mk_generator(self, mdir, project):
        rng = self.rng
        v = self.var('g')
        outs = rng.choice([["'@BASENAME@.c'"], ["'@BASENAME@.c'", "'@BASENAME@.h'"], ["'@PLAINNAME@.c'"]])
        self.emit(mdir, f"{v} = generator(gen, output: [{', '.join(outs)}], arguments: ['@INPUT@', '@OUTPUT@'])")
        return self.add_target(var=v, name=v, kind='generator', dir=mdir, project=project, outputs=None, bbd=None)

    def mk_configure_file(self, mdir, project):
        rng = self.rng
        v = self.var('cf')
        out = rng.choice(['config', 'conf gen', 'ver']) + str(self.nvar) + rng.choice(['.h', '.h', '.txt'])
        mode = rng.random()
        if mode < 0.5:
            self.emit(mdir, f"{v} = configure_file(output: {self.q(out)}, configuration: {{'A': 1, 'B': 'x'}})")
        elif mode < 0.8:
            inp = self.src(mdir, stem='cfg', ext='.h.in', body='#define X @X@\n')
            self.emit(mdir, f"{v} = configure_file(input: {self.q(inp)}, output: {self.q(out)}, copy: true)")
        else:
            self.emit(mdir, f"{v} = configure_file(output: {self.q(out)}, command: [gen, '@OUTPUT@'])")
        return self.add_target(var=v, name=out, kind='configure_file', dir=mdir, project=project, outputs=[out], bbd=None)

    def mk_dep(self, mdir, project):
        """declare_dependency carrying a library and generated sources (headers reach consumers as order-only inputs)"""
        rng = self.rng
        libs = [t for t in self.targets if t['kind'] in ('static_library', 'shared_library', 'both_libraries', 'library')
                and t['project'] == project]
        parts = []
        if libs and rng.random() < 0.7:
            parts.append(f"link_with: {rng.choice(libs)['var']}")
        extra = self.pick_generated(project)
        if extra:
            parts.append(f"sources: [{self.fmt_extra(mdir, extra)}]")
        if not parts:
            return
        v = self.var('d')
        self.emit(mdir, f"{v} = declare_dependency({', '.join(parts)})")
        self.add_target(var=v, name=v, kind='dependency', dir=mdir, project=project, outputs=None, bbd=None)

    def mk_test(self, mdir, project):
        rng = self.rng
        exes = [t for t in self.targets if t['kind'] == 'executable' and t['project'] == project]
        if not exes:
            return
        exe = rng.choice(exes)
        deps = []
        cands = [t for t in self.targets if t['project'] == project and t['kind'] in
                 ('custom_target', 'executable', 'shared_library', 'shared_module', 'static_library') and t is not exe]
        if cands and rng.random() < 0.6:
            deps = rng.sample(cands, min(len(cands), rng.randint(1, 2)))
        args = []
        argt = []
        if cands and rng.random() < 0.3:
            a = rng.choice(cands)
            argt.append(a)
            args.append(a['var'])
        name = rng.choice(['t', 'check', 'unit test', 'smoke:1']) + str(len(self.tests))
        bench = rng.random() < 0.15
        kws = []
        if deps:
            kws.append('depends: [' + ', '.join(d['var'] for d in deps) + ']')
        if args:
            kws.append('args: [' + ', '.join(args) + ']')
        fn = 'benchmark' if bench else 'test'
        self.emit(mdir, f"{fn}({', '.join([self.q(name), exe['var']] + kws)})")
        self.tests.append({'name': name, 'exe': exe['var'], 'depends': [d['var'] for d in deps + argt],
                           'benchmark': bench, 'project': project})

    PREREQ_WAYS = ['exe', 'arg-target', 'arg-ct', 'arg-ct-index', 'depends', 'depends-ct', 'override-exe', 'override-arg',
                   'ct-exe']

    def mk_prereq_cases(self, mdir, project, ways=None) -> None:
        """Every way a target becomes a test / benchmark prerequisite, each with a *fresh helper target* that is
        build_by_default: false and used nowhere else — so it hangs below `meson-test-prereq` / `meson-benchmark-prereq`
        only through that phony's own input list.  spec['tests'] records which helper each test needs."""
        rng = self.rng
        self.cur = mdir
        if ways is None:
            ways = rng.sample(self.PREREQ_WAYS, rng.randint(2, 4))
        self.nvar += 1
        mainv = f'pm{self.nvar}'
        msrc = self.src(mdir, stem=f'pmain{self.nvar}', body='int main(void) { return 0; }\n')
        mname = f'prq main{self.nvar}'
        self.emit(mdir, f"{mainv} = executable({self.q(mname)}, {self.q(msrc)})")
        self.add_target(var=mainv, name=mname, kind='executable', dir=mdir, project=project, outputs=None, bbd=True,
                        srcs=[msrc])

        def helper_exe():
            self.nvar += 1
            v = f'ph{self.nvar}'
            src = self.src(mdir, stem=f'hlp{self.nvar}', body='int main(void) { return 0; }\n')
            name = rng.choice(['hlp', 'h elper', 'h:lp']) + str(self.nvar)
            self.emit(mdir, f"{v} = executable({self.q(name)}, {self.q(src)}, build_by_default: false)")
            return self.add_target(var=v, name=name, kind='executable', dir=mdir, project=project, outputs=None, bbd=False,
                                   srcs=[src], helper=True)

        def helper_ct(nout=1):
            self.nvar += 1
            v = f'pc{self.nvar}'
            outs = [f'hct{self.nvar}_{i}.dat' for i in range(nout)]
            self.emit(mdir, f"{v} = custom_target({self.q('hct' + str(self.nvar))}, output: [{', '.join(self.q(o) for o in outs)}], "
                            f"command: [gen, '@OUTPUT@'], build_by_default: false)")
            return self.add_target(var=v, name='hct' + str(self.nvar), kind='custom_target', dir=mdir, project=project,
                                   outputs=outs, bbd=False, helper=True)
        for way in ways:
            bench = rng.random() < 0.4
            fn = 'benchmark' if bench else 'test'
            tname = f'prq {way} {len(self.tests)}'
            exe_expr, exe_var, kws, needs = mainv, mainv, [], []
            if way == 'exe':
                h = helper_exe()
                exe_expr = exe_var = h['var']
            elif way == 'arg-target':
                h = helper_exe()
                kws.append(f"args: ['--x', {h['var']}]")
                needs.append(h['var'])
            elif way == 'arg-ct':
                h = helper_ct()
                kws.append(f"args: [{h['var']}]")
                needs.append(h['var'])
            elif way == 'arg-ct-index':
                h = helper_ct(2)
                kws.append(f"args: [{h['var']}[1]]")
                needs.append(h['var'])
            elif way == 'depends':
                h = helper_exe()
                kws.append(f"depends: [{h['var']}]")
                needs.append(h['var'])
            elif way == 'depends-ct':
                h = helper_ct(2)
                kws.append(f"depends: {h['var']}[0]" if rng.random() < 0.5 else f"depends: [{h['var']}]")
                needs.append(h['var'])
            elif way in ('override-exe', 'override-arg'):
                h = helper_exe()
                pn = f'ovprog{self.nvar}'
                pv = f'pp{self.nvar}'
                self.emit(mdir, f"meson.override_find_program({self.q(pn)}, {h['var']})")
                # the lookup may happen in another directory of the same project later on; here: right away
                self.emit(mdir, f"{pv} = find_program({self.q(pn)})")
                if way == 'override-exe':
                    exe_expr, exe_var = pv, h['var']
                else:
                    kws.append(f"args: [{pv}, 'x']")
                    needs.append(h['var'])
                self.overrides.append({'prog': pn, 'var': h['var'], 'project': project})
            elif way == 'ct-exe':
                h = helper_ct()
                exe_expr = exe_var = h['var']
            if rng.random() < 0.3:
                kws.append("workdir: meson.current_build_dir()")
            if rng.random() < 0.3:
                kws.append("env: ['A=1', 'B=' + meson.current_build_dir()]")
            self.emit(mdir, f"{fn}({', '.join([self.q(tname), exe_expr] + kws)})")
            self.tests.append({'name': tname, 'exe': exe_var, 'depends': needs, 'benchmark': bench, 'project': project,
                               'way': way})

    def mk_override_use(self, mdir, project) -> None:
        """a test in *this* directory/project whose program or argument is an executable overridden elsewhere
        (a subdirectory or a subproject configured earlier)"""
        rng = self.rng
        cands = [o for o in self.overrides if not o.get('used_elsewhere')]
        if not cands:
            return
        o = rng.choice(cands)
        self.nvar += 1
        pv = f'pq{self.nvar}'
        self.emit(mdir, f"{pv} = find_program({self.q(o['prog'])})")
        bench = rng.random() < 0.4
        fn = 'benchmark' if bench else 'test'
        tname = f'prq elsewhere {len(self.tests)}'
        mains = [t for t in self.targets if t['kind'] == 'executable' and t['project'] == project and t.get('bbd')]
        if mains and rng.random() < 0.6:
            m = rng.choice(mains)
            self.emit(mdir, f"{fn}({self.q(tname)}, {m['var']}, args: [{pv}])")
            self.tests.append({'name': tname, 'exe': m['var'], 'depends': [o['var']], 'benchmark': bench, 'project': project,
                               'way': 'override-arg-elsewhere'})
        else:
            self.emit(mdir, f"{fn}({self.q(tname)}, {pv})")
            self.tests.append({'name': tname, 'exe': o['var'], 'depends': [], 'benchmark': bench, 'project': project,
                               'way': 'override-exe-elsewhere'})

    # ---- sharing: one produced object handed to several consumers of different kinds -------------------------------
    # producer kind -> consumer kinds it may be handed to (meson's own typing of the keyword arguments)
    SHARE = {
        'genlist':         ['executable', 'static_library', 'shared_library', 'both_libraries', 'ct-input', 'process-input'],
        'chained-genlist': ['executable', 'static_library', 'shared_library', 'both_libraries', 'ct-input', 'process-input'],
        'custom_target':   ['executable', 'static_library', 'shared_library', 'both_libraries', 'ct-input', 'ct-depends',
                            'process-input', 'run_target', 'test-args', 'alias_target'],
        'ct-index':        ['executable', 'static_library', 'shared_library', 'both_libraries', 'ct-input', 'process-input',
                            'test-args'],
        'vcs_tag':         ['executable', 'static_library', 'shared_library', 'both_libraries', 'ct-input', 'ct-depends',
                            'run_target', 'test-args'],
        'configure_file':  ['executable', 'static_library', 'shared_library', 'both_libraries', 'ct-input', 'process-input',
                            'install_data', 'test-args'],
        'extract':         ['executable-objects', 'static_library-objects', 'shared_library-objects'],
        'dep-sources':     ['executable-deps', 'static_library-deps', 'shared_library-deps', 'both_libraries-deps'],
    }

    def share_generators(self, mdir, project):
        """the generators the sharing cases use (once per project): .in -> .c, .c -> .post.c, any -> <name>.x.c"""
        key = ('sharegens', project)
        if key not in self.used_names:
            self.used_names.add(key)
            root = self.proj_root(project)
            # emitted where first needed; meson variables are project-global
            self.emit(mdir, "shg1 = generator(gen, output: '@BASENAME@.c', arguments: ['@INPUT@', '@OUTPUT@'])")
            self.emit(mdir, "shg2 = generator(gen, output: '@BASENAME@.post.c', arguments: ['@INPUT@', '@OUTPUT@'])")
            # for consumers that process a shared object again: output names distinct for every input file name
            self.emit(mdir, "shg3 = generator(gen, output: '@PLAINNAME@.x.c', arguments: ['@INPUT@', '@OUTPUT@'])")

    def mk_shared_producer(self, mdir, project, pkind=None):
        rng = self.rng
        self.cur = mdir
        self.share_generators(mdir, project)
        pkind = pkind or rng.choice(sorted(self.SHARE))
        self.nvar += 1
        n = self.nvar
        v = f'shp{n}'
        if pkind == 'genlist':
            inp = self.src(mdir, stem=f'shin{n}', ext='.in')
            self.emit(mdir, f"{v} = shg1.process({self.q(inp)})")
        elif pkind == 'chained-genlist':
            inp = self.src(mdir, stem=f'shin{n}', ext='.in')
            # the inner list is private to this chain (the same inner list twice in ONE target is rejected by meson)
            self.emit(mdir, f"{v} = shg2.process(shg1.process({self.q(inp)}))")
        elif pkind in ('custom_target', 'ct-index'):
            self.emit(mdir, f"{v}_ct = custom_target('shp ct{n}', output: ['shp{n}.c', 'shp{n}.h'], command: [gen, '@OUTPUT@'])")
            self.emit(mdir, f"{v} = {v}_ct" + (f"[{rng.choice([0, 1])}]" if pkind == 'ct-index' else ''))
        elif pkind == 'vcs_tag':
            inp = self.src(mdir, stem=f'shvcs{n}', ext='.h.in', body='#define V "@VCS_TAG@"\n')
            self.emit(mdir, f"{v} = vcs_tag(input: {self.q(inp)}, output: 'shvcs{n}.h', fallback: '0')")
        elif pkind == 'configure_file':
            self.emit(mdir, f"{v} = configure_file(output: 'shcf{n}.h', configuration: {{'S': {n}}})")
        elif pkind == 'extract':
            src = [self.src(mdir, stem=f'shx{n}_{i}') for i in range(self.nsrc())]
            self.emit(mdir, f"{v}_lib = static_library('shp xlib{n}', {', '.join(self.q(x) for x in src)})")
            self.emit(mdir, f"{v} = {v}_lib.extract_all_objects(recursive: {rng.choice(['true', 'false'])})")
        elif pkind == 'dep-sources':
            inp = self.src(mdir, stem=f'shin{n}', ext='.in')
            self.emit(mdir, f"{v}_ct = custom_target('shp dct{n}', output: 'shpd{n}.h', command: [gen, '@OUTPUT@'])")
            self.emit(mdir, f"{v} = declare_dependency(sources: [{v}_ct, shg1.process({self.q(inp)})])")
        p = {'var': v, 'pkind': pkind, 'project': project, 'dir': mdir, 'uses': [], 'n': n}
        self.shared.append(p)
        return p

    def mk_shared_consumer(self, mdir, project, prod=None):
        rng = self.rng
        self.cur = mdir
        if prod is None:
            cands = [p for p in self.shared if p['project'] == project and len(p['uses']) < 3]
            if not cands:
                return
            prod = rng.choice(cands)
        kinds = [k for k in self.SHARE[prod['pkind']] if (k, mdir) not in prod['uses']] or self.SHARE[prod['pkind']]
        ckind = rng.choice(kinds)
        self.nvar += 1
        n = self.nvar
        P = prod['var']
        base = ckind.split('-')[0]
        if base in ('executable', 'static_library', 'shared_library', 'both_libraries'):
            body = 'int main(void) { return 0; }\n' if base == 'executable' else None
            src = [self.src(mdir, stem=f'shc{n}_{i}', body=body if i == 0 else None) for i in range(self.nsrc())]
            how = {'objects': f'objects: {P}', 'deps': f'dependencies: {P}'}.get(ckind.partition('-')[2], P)
            name = f'shc {base[:3]}{n}'
            v = f'shc{n}'
            self.emit(mdir, f"{v} = {base}({self.q(name)}, {', '.join(self.q(x) for x in src)}, {how})")
            if base != 'both_libraries':
                self.add_target(var=v, name=name, kind=base, dir=mdir, project=project, outputs=None, bbd=True, srcs=src)
        elif ckind == 'ct-input':
            bbd = rng.random() < 0.6
            self.emit(mdir, f"shc{n} = custom_target('shc ct{n}', input: {P}, output: 'shc{n}.dat', "
                            f"command: [gen, '@INPUT@', '@OUTPUT@'], build_by_default: {'true' if bbd else 'false'})")
        elif ckind == 'ct-depends':
            self.emit(mdir, f"shc{n} = custom_target('shc ctd{n}', depends: {P}, output: 'shc{n}.dat', "
                            f"command: [gen, '@OUTPUT@'], build_by_default: true)")
        elif ckind == 'process-input':
            self.share_generators(mdir, project)
            src = self.src(mdir, stem=f'shc{n}', body='int main(void) { return 0; }\n')
            self.emit(mdir, f"shc{n} = executable('shc chain{n}', {self.q(src)}, shg3.process({P}))")
        elif ckind == 'run_target':
            self.emit(mdir, f"run_target('shc-run{n}', command: [gen, '--run'], depends: {P})")
        elif ckind == 'alias_target':
            self.emit(mdir, f"alias_target('shc-alias{n}', {P})")
        elif ckind == 'test-args':
            src = self.src(mdir, stem=f'shc{n}', body='int main(void) { return 0; }\n')
            self.emit(mdir, f"shc{n} = executable('shc texe{n}', {self.q(src)})")
            self.emit(mdir, f"{rng.choice(['test', 'benchmark'])}('shc t{n}', shc{n}, args: [{P}])")
        elif ckind == 'install_data':
            self.emit(mdir, f"install_data({P}, install_dir: 'share/shc')")
        prod['uses'].append((ckind, mdir))

    def flush_shared(self, project) -> None:
        """every shared producer of the project ends up with at least two consumers (the last ones in the project root)"""
        root = self.proj_root(project)
        for p in self.shared:
            if p['project'] == project:
                while len(p['uses']) < 2:
                    self.mk_shared_consumer(root, project, p)

    def mk_alias(self, mdir, project):
        rng = self.rng
        self.cur = mdir
        cands = [t for t in self.targets if t['project'] == project and t['kind'] in
                 ('custom_target', 'executable', 'shared_library', 'static_library')]
        if not cands:
            return
        name = self.name(project, odd_ok=False) + '-alias'
        if rng.random() < 0.5:
            ch = rng.sample(cands, min(len(cands), rng.randint(1, 2)))
            self.emit(mdir, f"alias_target({self.q(name)}, {', '.join(c['var'] for c in ch)})")
        else:
            d = rng.choice(cands)
            self.emit(mdir, f"run_target({self.q(name)}, command: [gen, '--run'], depends: {d['var']})")

    # ---- directory / project structure
    def fill_dir(self, mdir, project, budget) -> None:
        rng = self.rng
        for _ in range(budget):
            r = rng.random()
            if r < 0.3:
                self.mk_exe(mdir, project)
            elif r < 0.55:
                self.mk_lib(mdir, project)
            elif r < 0.75 and rng.random() < self.f['custom_targets'] + 0.2:
                self.mk_ct(mdir, project)
            elif r < 0.82 and rng.random() < self.f['generators'] + 0.3:
                self.mk_generator(mdir, project)
            elif r < 0.88 and rng.random() < self.f['configure_file'] + 0.3:
                self.mk_configure_file(mdir, project)
            elif r < 0.92:
                self.mk_dep(mdir, project)
            elif r < 0.96 and rng.random() < self.f['tests']:
                self.mk_test(mdir, project)
            elif rng.random() < self.f['aliases']:
                self.mk_alias(mdir, project)

    def gen_project_body(self, project: str, budget: int, depth_ok=True) -> None:
        rng = self.rng
        root = self.proj_root(project)
        self.files[os.path.join(root, 'gen.py')] = GEN_PY
        self.emit(root, "gen = find_program('gen.py')")
        subdirs: T.List[str] = []
        if rng.random() < self.f['subdirs']:
            for _ in range(rng.randint(1, 3)):
                d = rng.choice(['lib', 'src', 'tools', 'sub dir', 'a', 'b', 'gen', 'tests'])
                if d not in subdirs:
                    subdirs.append(d)
        remaining = budget
        chunks = len(subdirs) * 2 + 1
        sharing = rng.random() < self.f['sharing']
        for i in range(chunks):
            share = max(1, remaining // (chunks - i))
            remaining -= share
            if i % 2 == 0:
                self.fill_dir(root, project, share)
                here = root
            else:
                d = subdirs[i // 2]
                mdir = os.path.join(root, d)
                self.emit(root, f'subdir({self.q(d)})')
                self.lines.setdefault(mdir, [])
                self.fill_dir(mdir, project, share)
                here = mdir
                if rng.random() < 0.3:
                    nd = rng.choice(['inner', 'x'])
                    self.emit(mdir, f'subdir({self.q(nd)})')
                    self.lines.setdefault(os.path.join(mdir, nd), [])
                    self.fill_dir(os.path.join(mdir, nd), project, 1 + share // 2)
                    if rng.random() < 0.5:
                        here = os.path.join(mdir, nd)
            if sharing:
                # consumers of what earlier parts produced (other directory), then maybe a new producer with a first consumer
                for _ in range(rng.randint(0, 2)):
                    self.mk_shared_consumer(here, project)
                if rng.random() < 0.6 and len([p for p in self.shared if p['project'] == project]) < 3:
                    p = self.mk_shared_producer(here, project)
                    if rng.random() < 0.7:
                        self.mk_shared_consumer(here, project, p)
        if rng.random() < self.f['tests']:
            self.mk_test(root, project)
        self.flush_shared(project)
        if rng.random() < self.f['prereq_cases']:
            where = root
            if subdirs and rng.random() < 0.5:
                where = os.path.join(root, rng.choice(subdirs))
            self.mk_prereq_cases(where, project)
        if rng.random() < self.f['prereq_cases']:
            # an override made in a subdirectory or (for the main project) in the subproject, used from the project root
            self.mk_override_use(root, project)

    def plant_collision(self, kind: str) -> None:
        rng = self.rng
        root = ''
        d1 = root
        if kind == 'ct-ct-same-output':
            out = rng.choice(['same.h', 'dup file.txt', 'x.c'])
            self.mk_ct(d1, '', outputs=[out, 'one.dat'])
            self.mk_ct(d1, '', outputs=['two.dat', out])
        elif kind == 'ct-output-vs-exe':
            n = self.name('', odd_ok=True)
            if rng.random() < 0.5:
                self.mk_exe(d1, '', name=n, allow_extra=False)
                self.mk_ct(d1, '', outputs=[n], bbd=rng.random() < 0.5)
            else:
                self.mk_ct(d1, '', outputs=[n], bbd=rng.random() < 0.5)
                self.mk_exe(d1, '', name=n, allow_extra=False)
        elif kind == 'ct-output-vs-staticlib':
            n = self.name('', odd_ok=False)
            self.mk_lib(d1, '', kind='static_library', name=n)
            self.mk_ct(d1, '', outputs=[f'lib{n}.a'])
        elif kind == 'same-name-same-dir':
            n = self.name('', odd_ok=True)
            self.mk_exe(d1, '', name=n, allow_extra=False)
            self.mk_exe(d1, '', name=n, allow_extra=False)
        elif kind in ('flat-same-name', 'flat-ct-vs-exe'):
            n = self.name('', odd_ok=True)
            self.emit(root, "subdir('c1')")
            self.emit(root, "subdir('c2')")
            self.mk_exe('c1', '', name=n, allow_extra=False)
            if kind == 'flat-same-name':
                self.mk_exe('c2', '', name=n, allow_extra=False)
            else:
                self.mk_ct('c2', '', outputs=[n], bbd=True)
            self.layout_sensitive = True
        elif kind == 'shared-vs-module':
            n = self.name('', odd_ok=False)
            self.mk_lib(d1, '', kind='shared_library', name=n)
            self.mk_lib(d1, '', kind='shared_module', name=n)
        elif kind == 'library-vs-static':
            n = self.name('', odd_ok=False)
            self.mk_lib(d1, '', kind='both_libraries', name=n)
            self.mk_lib(d1, '', kind='static_library', name=n)
        elif kind == 'reserved-ct-output':
            n = rng.choice(RESERVED_BACKEND)
            self.mk_ct(d1, '', outputs=[n], bbd=rng.random() < 0.5)
        elif kind == 'reserved-target-name':
            n = rng.choice(RESERVED_BACKEND)
            if rng.random() < 0.5:
                self.mk_exe(d1, '', name=n, allow_extra=False)
            else:
                self.mk_ct(d1, '', name=n)
        else:
            raise ValueError(kind)

    def finish(self) -> None:
        for mdir, lines in self.lines.items():
            path = os.path.join(mdir, 'meson.build')
            self.files[path] = '\n'.join(lines) + '\n'


OPT_FAILURES = ["error('optional subproject gives up')", "assert(false, 'optional subproject assertion')",
                "executable('never', 'this-file-does-not-exist.c')", "executable('never', 'o0.c', no_such_kwarg: 1)",
                "dependency('surely-not-installed-xyz-42')", "subdir('no-such-dir')",
                "find_program('surely-no-such-program-xyz')", "import('no_such_module_xyz')",
                "subproject('no-such-nested-subproject')"]
# (unknown functions / variables are InvalidCode: they abort the whole configuration even under required: false)


def _failing_subproject(g: '_Gen', rng) -> dict:
    """An optional subproject `optsp` that registers k things (targets, tests, benchmarks, install rules, headers, data,
    scripts, overrides, aliases, a subdir) and then fails at a random statement; the parent calls it with
    `required: false` (directly or as a dependency fallback) and must configure as if the call were not there.
    Returns {'call': line in the root meson.build, 'without': replacement line}."""
    root = os.path.join('subprojects', 'optsp')
    g.files[os.path.join(root, 'gen.py')] = GEN_PY
    for i in range(3):
        g.files[os.path.join(root, f'o{i}.c')] = f'int o{i}(void) {{ return {i}; }}\n'
    g.files[os.path.join(root, 'omain.c')] = 'int main(void) { return 0; }\n'
    g.files[os.path.join(root, 'oh.h')] = '#pragma once\n'
    g.files[os.path.join(root, 'od.txt')] = 'data\n'
    g.files[os.path.join(root, 'osub', 'os.c')] = 'int main(void) { return 0; }\n'
    g.files[os.path.join(root, 'osub', 'meson.build')] = (
        "osube = executable('opt sub exe', 'os.c', install: true)\ntest('opt sub test', osube)\n")
    pool = [
        "oe = executable('opt exe', 'omain.c', 'o0.c')",
        "ol = static_library('optlib', 'o1.c', install: true)",
        "osh = shared_library('optshared', 'o2.c', version: '2.0.0')",
        "oct = custom_target('opt ct', output: ['opt.h', 'opt.dat'], command: [gen, '@OUTPUT@'], build_by_default: true, "
        "install: true, install_dir: ['include', 'share/opt'])",
        "test('opt test', executable('opt texe', 'omain.c'))",
        "benchmark('opt bench', executable('opt bexe', 'omain.c'), args: ['x'])",
        "ohelper = executable('opt helper', 'omain.c', build_by_default: false)\ntest('opt test 2', ohelper, "
        "depends: custom_target('opt dep', output: 'optdep.dat', command: [gen, '@OUTPUT@']))",
        "install_headers('oh.h')",
        "install_data('od.txt', install_dir: 'share/opt')",
        "meson.add_install_script(gen, 'x')",
        "meson.add_postconf_script(gen, 'y')",
        "configure_file(output: 'optconf.h', configuration: {'O': 1})",
        "alias_target('opt-alias', executable('opt aexe', 'omain.c', build_by_default: false))",
        "run_target('opt-run', command: [gen, '--run'])",
        "meson.override_find_program('optprog', executable('opt prog', 'omain.c', build_by_default: false))",
        "meson.override_dependency('optdep', declare_dependency(link_with: static_library('optdeplib', 'o1.c')))",
        "subdir('osub')",
        "install_subdir('osub', install_dir: 'share/opt')",
        "optgenr = generator(gen, output: '@BASENAME@.c', arguments: ['@INPUT@', '@OUTPUT@'])",
    ]
    k = rng.randint(1, 9)
    body = rng.sample(pool, k)
    lines = ["project('optsp', 'c', version: '0.1')", "gen = find_program('gen.py')"]
    if rng.random() < 0.15 and body:
        lines = ["project('optsp', 'c', version: '0.1')", "gen = find_program('gen.py')"]
    fail_at = rng.randint(0 if rng.random() < 0.15 else 1, len(body))
    body.insert(fail_at, rng.choice(OPT_FAILURES))
    lines += body
    lines.append("odep = declare_dependency()")
    g.files[os.path.join(root, 'meson.build')] = '\n'.join(lines) + '\n'
    how = rng.random()
    if how < 0.5:
        call, without = "optsp = subproject('optsp', required: false)", ''
    elif how < 0.8:
        call = "optd = dependency('optdep-not-installed', fallback: ['optsp', 'odep'], required: false)"
        without = "optd = dependency('', required: false)"
    else:
        call = "optd = dependency('optdep', required: false, fallback: ['optsp', 'odep'])"
        without = "optd = dependency('', required: false)"
    return {'call': call, 'without': without, 'registered': k, 'fail_at': fail_at}


def gen_project(rng, dir: str, features: T.Optional[dict] = None) -> dict:
    g = _Gen(rng, features)
    f = g.f
    sub = None
    if rng.random() < f['subproject'] and not f['collision']:
        sub = rng.choice(['sp1', 'sub proj', 'zlib-ish'])
    pname = rng.choice(['proj', 'my project', 'p-1'])
    opts = []
    g.emit('', f"project({g.q(pname)}, 'c'" + (", default_options: ['warning_level=0']" if rng.random() < 0.3 else '') + ')')
    budget = rng.randint(3, f['max_targets'])
    if sub:
        sroot = g.proj_root(sub)
        g.emit(sroot, f"project({g.q(sub)}, 'c')")
        g.gen_project_body(sub, max(2, budget // 3))
        # export the subproject's libraries
        for t in g.targets:
            if t['project'] == sub and t['kind'] in ('static_library', 'shared_library', 'library', 'both_libraries'):
                t['exported'] = True
        g.emit('', f"sp = subproject({g.q(sub)})")
        for t in g.targets:
            if t.get('exported'):
                g.emit('', f"{t['var']} = sp.get_variable('{t['var']}')")
    if f['collision']:
        g.emit('', "gen = find_program('gen.py')")
        g.files['gen.py'] = GEN_PY
        if rng.random() < 0.5:
            g.fill_dir('', '', rng.randint(0, 2))
        g.plant_collision(f['collision'])
        if rng.random() < 0.5:
            g.fill_dir('', '', rng.randint(0, 2))
    else:
        g.gen_project_body('', budget)
    failing = None
    if not f['collision'] and rng.random() < f['failing_subproject']:
        failing = _failing_subproject(g, rng)
        root_lines = g.lines['']
        pos = rng.randint(1, len(root_lines))
        root_lines.insert(pos, failing['call'])
        # whatever the failed subproject registered must be invisible afterwards
        root_lines.append("optp = find_program('optprog', required: false)")
        root_lines.append("if optp.found()\n  test('leaked override', optp)\nendif")
    g.finish()
    if failing:
        failing['root_without'] = g.files['meson.build'].replace(
            failing['call'] + '\n', (failing['without'] + '\n') if failing['without'] else '', 1)
    write_project(dir, g.files)
    return {'files': g.files, 'targets': g.targets, 'tests': g.tests, 'collision': f['collision'],
            'layout_sensitive': g.layout_sensitive, 'subproject': sub, 'failing_subproject': failing,
            'shared': [{'pkind': p['pkind'], 'project': p['project'], 'dir': p['dir'],
                        'uses': [list(u) for u in p['uses']]} for p in g.shared]}


def write_project(dir: str, files: T.Dict[str, str]) -> None:
    for rel, text in files.items():
        p = os.path.join(dir, rel)
        os.makedirs(os.path.dirname(p), exist_ok=True)
        with open(p, 'w', encoding='utf-8') as fh:
            fh.write(text)
        if rel.endswith('gen.py'):
            os.chmod(p, 0o755)


# options that are varied elsewhere or do not change what the backend writes on this host
_OPTION_EXCLUDE = {'backend', 'genvslite', 'vsenv', 'layout', 'default_library', 'unity', 'unity_size', 'install_umask',
                   'force_fallback_for', 'wrap_mode', 'auto_features', 'os2_emxomf', 'b_vscrt', 'b_bitcode',
                   'b_thinlto_cache_dir', 'b_sanitize', 'backend_startup_project'}


def backend_option_values() -> T.Dict[str, T.List[str]]:
    """Every option that can change what the ninja backend writes, with boundary / all values, enumerated from the LIVE
    registrations: CoreData.init_backend_options('ninja') (backend_*), options.COMPILER_BASE_OPTIONS (b_*) and
    options.BUILTIN_CORE_OPTIONS minus _OPTION_EXCLUDE (so an option added upstream is picked up).
    Booleans -> true/false, combos/features -> every choice, integers -> min, min+1, 2, 5 and max when bounded."""
    from mesonbuild import options as O, coredata as C
    found: T.Dict[str, T.Any] = {}

    class _Store:
        def add_system_option(self, name, opt):
            found[str(name)] = opt

    class _Fake:
        optstore = _Store()
    C.CoreData.init_backend_options(_Fake(), 'ninja')
    for table in (O.COMPILER_BASE_OPTIONS, O.BUILTIN_CORE_OPTIONS):
        for k, v in table.items():
            if '.' not in k.name:
                found.setdefault(k.name, v)
    out: T.Dict[str, T.List[str]] = {}
    for name, opt in found.items():
        if name in _OPTION_EXCLUDE:
            continue
        if isinstance(opt, O.UserBooleanOption):
            out[name] = ['true', 'false']
        elif isinstance(opt, (O.UserComboOption, O.UserFeatureOption)):
            out[name] = [str(c) for c in opt.choices]
        elif isinstance(opt, O.UserIntegerOption):
            lo = opt.min_value if opt.min_value is not None else 0
            vals = {lo, lo + 1, 2, 5}
            if opt.max_value is not None:
                vals = {v for v in vals if v <= opt.max_value} | {opt.max_value}
            out[name] = [str(v) for v in sorted(v for v in vals if v >= lo)]
    return out


def option_matrix() -> T.List[T.Tuple[str, T.List[str]]]:
    out = []
    for layout in ('mirror', 'flat'):
        for dl in ('shared', 'static', 'both'):
            for unity in ('off', 'on', 'subprojects'):
                out.append((f'{layout}/{dl}/{unity}', [f'--layout={layout}', f'-Ddefault_library={dl}', f'-Dunity={unity}']))
    return out


def configure(srcdir: str, builddir: str, args: T.Sequence[str] = (), env: T.Optional[dict] = None,
              timeout: int = 300) -> dict:
    e = dict(os.environ if env is None else env)
    e['PATH'] = FAKEBIN + os.pathsep + e.get('PATH', '')
    e['PYTHONPATH'] = common.REPO
    e['PYTHONDONTWRITEBYTECODE'] = '1'
    e.setdefault('PYTHONHASHSEED', '0')
    if env is None:
        for k in ('MESON_RSP_THRESHOLD', 'NINJA', 'CC', 'CFLAGS', 'LDFLAGS', 'DESTDIR'):
            e.pop(k, None)
    cmd = [sys.executable, os.path.join(common.REPO, 'meson.py'), 'setup', srcdir, builddir] + list(args)
    t0 = time.time()
    try:
        p = subprocess.run(cmd, env=e, stdout=subprocess.PIPE, stderr=subprocess.STDOUT, timeout=timeout,
                           cwd=os.path.dirname(builddir) or None)
        rc, out, to = p.returncode, p.stdout.decode('utf-8', errors='replace'), False
    except subprocess.TimeoutExpired as ex:
        rc, out, to = -9, (ex.stdout or b'').decode('utf-8', errors='replace'), True
    ok = rc == 0 and os.path.exists(os.path.join(builddir, 'build.ninja'))
    return {'rc': rc, 'ok': ok, 'out': out, 'wall': round(time.time() - t0, 2), 'timeout': to}


def read_build(builddir: str) -> dict:
    def js(name):
        p = os.path.join(builddir, 'meson-info', name)
        try:
            with open(p, encoding='utf-8') as fh:
                return json.load(fh)
        except (OSError, ValueError):
            return None
    with open(os.path.join(builddir, 'build.ninja'), encoding='utf-8') as fh:
        text = fh.read()
    return {'ninja': text, 'targets': js('intro-targets.json'), 'tests': js('intro-tests.json'),
            'benchmarks': js('intro-benchmarks.json')}
