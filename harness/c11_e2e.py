"""C11, second stream: from the build definition to the installed tree.

Generated projects use only install_data / install_headers / install_man / install_subdir / install_emptydir /
install_symlink / configure_file(install: true) and a subproject, so `meson setup --backend=none` needs no
compiler.  The real `meson setup` is run (subprocess), then the real installer (`minstall.run`, `--no-rebuild`,
`--destdir`) once per selection {no tags, each tag, two tags, --skip-subprojects}.  The oracle derives the expected
tree, permissions and *tags* from the build definition and the documented rules of docs/markdown/Installing.md
(implicit tag by directory, explicit `install_tag` wins) -- never from install.dat -- so everything upstream of
install.dat (`Backend.generate_*_install`, `guess_install_tag`, destination computation, `install_mode` defaults)
is inside the check.
"""
from __future__ import annotations

import argparse
import contextlib
import io
import json
import os
import random
import stat
import subprocess
import sys
import typing as T
from pathlib import PurePosixPath as PP

from . import common

DIR_DEFAULTS = {'bindir': 'bin', 'sbindir': 'sbin', 'includedir': 'include', 'libdir': 'lib',
                'localedir': 'share/locale', 'mandir': 'share/man', 'datadir': 'share'}
DIR_ALTS = {'includedir': ['inc/dev', 'include/x'], 'localedir': ['loc'], 'bindir': ['tools/bin'], 'mandir': ['man'],
            'libdir': ['lib64']}
TAGS_EXPLICIT = [None, None, None, 'runtime', 'devel', 'custom tag', 'doc']
MODES = [None, None, None, 'rwxr-x---', 'rw-r--r--', 'rw-------', 'r-xr-xr-x']
NAMES = ['a', 'b c', 'ünï', 'x.y', 'dash-n', 'UP', 'f1', 'p q r']


def perms_bits(s: str) -> int:
    """rwxr-x--- -> 0o750 (no setuid/sticky letters are generated)"""
    bits = 0
    for i, ch in enumerate(s):
        if ch != '-':
            bits |= 1 << (8 - i)
    return bits


# ------------------------------------------------------------------ generation

def gen_project(rng: random.Random, idx: int) -> dict:
    opts = dict(DIR_DEFAULTS)
    for k, alts in DIR_ALTS.items():
        if rng.random() < 0.25:
            opts[k] = rng.choice(alts)
    umask = rng.choice(['022', '022', '027', '002'])
    proj = rng.choice(['proj', 'my-proj', 'p2'])
    files: T.Dict[str, T.List] = {}     # rel -> [content, mode]
    links: T.Dict[str, str] = {}
    n = [0]

    def new_file(rel: str, mode: T.Optional[int] = None) -> str:
        n[0] += 1
        files[rel] = [f'content {idx} {n[0]} {rel}\n', mode if mode is not None else rng.choice([0o644, 0o644, 0o755])]
        return rel

    def dest_dir() -> str:
        """install dir: exactly a tagged directory, below one, elsewhere, or absolute"""
        k = rng.random()
        tagged = rng.choice(['bindir', 'sbindir', 'includedir', 'localedir', 'libdir', 'mandir', 'datadir'])
        if k < 0.35:
            return opts[tagged]
        if k < 0.6:
            return opts[tagged] + '/' + rng.choice(['more', 'sub dir', 'x/y'])
        if k < 0.8:
            return rng.choice(['share/misc', 'opt/x y', 'libexec/installed-tests/t', 'share/systemtap/tapset', 'etc'])
        if k < 0.9:
            return '{A}/etc/' + rng.choice(['conf', 'c d'])
        return '{A}/' + opts['includedir']     # absolute, merely *looks* like includedir

    def common_kw() -> dict:
        return {'mode': rng.choice(MODES), 'tag': rng.choice(TAGS_EXPLICIT)}

    def gen_rules(prefix_dir: str, sub: str, count: int) -> T.List[dict]:
        rules: T.List[dict] = []
        for ri in range(count):
            kind = rng.choice(['data', 'data', 'headers', 'man', 'subdir', 'subdir', 'emptydir', 'symlink', 'configure', 'linkdata'])
            tagp = f'{prefix_dir}r{ri}'
            if kind == 'data':
                srcs = [new_file(f'{prefix_dir}data{ri}/{rng.choice(NAMES)}{j}.txt') for j in range(rng.randint(1, 2))]
                r = {'kind': 'data', 'srcs': srcs, 'install_dir': rng.choice([None, dest_dir(), dest_dir()]), **common_kw()}
                k = rng.random()
                if k < 0.3:
                    r['rename'] = [rng.choice(['ren', 'sub/ren', 'r n']) + str(j) + rng.choice(['', '.pc', '.so', '.a'])
                                   for j in range(len(srcs))]
                elif k < 0.5:
                    r['preserve_path'] = True
            elif kind == 'linkdata':
                # a symlink source installed as a link (follow_symlinks: false) next to the file it points to, or pointing
                # at an absolute file outside DESTDIR; the link's target must never be touched
                dd = dest_dir()
                sib = new_file(f'{prefix_dir}ld{ri}/sib.txt', rng.choice([0o644, 0o600, 0o640]))
                rules.append({'kind': 'data', 'srcs': [sib], 'install_dir': dd, 'mode': rng.choice([None, 'rw-r-----']),
                              'tag': 'lnk', 'sub': sub})
                lnk = f'{prefix_dir}ld{ri}/lnk'
                links[lnk] = rng.choice(['sib.txt', '{R}/outside/secret'])
                r = {'kind': 'data', 'srcs': [lnk], 'install_dir': dd, 'follow': False, 'link_target': links[lnk],
                     'mode': rng.choice([None, 'rwxr-x---', 'rwxrwxrwx']), 'tag': 'lnk'}
            elif kind == 'headers':
                srcs = [new_file(f'{prefix_dir}hdr{ri}/{rng.choice(["", "inner/"])}{rng.choice(NAMES)}{j}.h')
                        for j in range(rng.randint(1, 2))]
                r = {'kind': 'headers', 'srcs': srcs, **common_kw()}
                k = rng.random()
                if k < 0.3:
                    r['subdir'] = rng.choice(['myproj', 'a/b'])
                elif k < 0.5:
                    r['install_dir'] = dest_dir()
                if rng.random() < 0.3 and 'install_dir' not in r:
                    # (with a custom install_dir the child directories are not kept; the reference manual is silent)
                    r['preserve_path'] = True
            elif kind == 'man':
                locale = rng.choice([None, None, 'fr'])
                srcs = []
                for j in range(rng.randint(1, 2)):
                    num = rng.choice('1358')
                    base = f'{rng.choice(NAMES)}{j}'
                    srcs.append(new_file(f'{prefix_dir}man{ri}/{base}' + (f'.{locale}' if locale else '') + f'.{num}'))
                r = {'kind': 'man', 'srcs': srcs, 'locale': locale, **common_kw()}
                if rng.random() < 0.25:
                    r['install_dir'] = dest_dir()
            elif kind == 'subdir':
                top = f'{prefix_dir}trees/t{ri}'
                tfiles = [new_file(f'{top}/{rng.choice(NAMES)}.h')]
                tdirs = []
                for dn in rng.sample(['inner', 'deep dir', 'skip'], rng.randint(0, 3)):
                    tdirs.append(dn)
                    tfiles.append(new_file(f'{top}/{dn}/{rng.choice(NAMES)}.txt'))
                    if rng.random() < 0.4:
                        tdirs.append(f'{dn}/nest')
                        tfiles.append(new_file(f'{top}/{dn}/nest/{rng.choice(NAMES)}.dat'))
                rel = [os.path.relpath(f, top) for f in tfiles]
                r = {'kind': 'subdir', 'name': top, 'install_dir': dest_dir(), 'strip': rng.random() < 0.5,
                     'exclude_files': rng.sample(rel, min(len(rel), rng.randint(0, 1))) if rng.random() < 0.4 else [],
                     'exclude_dirs': rng.sample(tdirs, min(len(tdirs), 1)) if rng.random() < 0.4 else [],
                     **common_kw()}
                while r['install_dir'].endswith(opts['libdir']) or ('/' + opts['libdir'] + '/') in ('/' + r['install_dir'] + '/'):
                    r['install_dir'] = dest_dir()     # per-file suffix rules of libdir are not defined for a subdir
            elif kind == 'emptydir':
                r = {'kind': 'emptydir', 'path': dest_dir() + '/' + f'empty {tagp}'.replace('/', '_'), **common_kw()}
            elif kind == 'symlink':
                r = {'kind': 'symlink', 'name': f'lnk-{tagp}'.replace('/', '_') + rng.choice(['', '.so']),
                     'target': rng.choice(['target', '../lib/x', '/abs/t']), 'install_dir': dest_dir(), 'tag': rng.choice(TAGS_EXPLICIT)}
            else:
                src = new_file(f'{prefix_dir}cfg{ri}.in')
                r = {'kind': 'configure', 'input': src, 'output': f'gen-{tagp}'.replace('/', '_') + rng.choice(['.pc', '.conf', '.so', '.h']),
                     'install_dir': dest_dir(), **common_kw()}
            r['sub'] = sub
            rules.append(r)
        return rules

    rules = gen_rules('', '', rng.randint(3, 7))
    sub_rules = gen_rules('subprojects/sp/', 'sp', rng.randint(1, 3)) if rng.random() < 0.6 else []
    return {'name': f'e2e-{idx}', 'proj': proj, 'opts': opts, 'umask': umask, 'files': files, 'links': links,
            'rules': rules, 'sub_rules': sub_rules}


def mstr(s: str) -> str:
    return "'" + s.replace('\\', '\\\\').replace("'", "\\'") + "'"


def render_dir(d: str, opts: dict, flip: bool) -> str:
    """a directory either as a literal or through get_option() when it starts with an option's value"""
    if flip:
        for k, v in opts.items():
            if d == v:
                return f"get_option('{k}')"
            if d.startswith(v + '/'):
                return f"get_option('{k}') / {mstr(d[len(v) + 1:])}"
    return mstr(d)


def render(rules: T.List[dict], opts: dict, base: str, A: str) -> str:
    out = []
    for i, r in enumerate(rules):
        kw = []
        flip = i % 2 == 0
        if r.get('install_dir') is not None:
            kw.append('install_dir: ' + render_dir(r['install_dir'].replace('{A}', A), opts, flip))
        if r.get('mode'):
            kw.append('install_mode: ' + mstr(r['mode']))
        if r.get('tag') and r['kind'] != 'emptydir' or (r['kind'] == 'emptydir' and r.get('tag')):
            kw.append('install_tag: ' + mstr(r['tag']))
        rel = lambda p: os.path.relpath(p, base) if base else p   # noqa: E731
        if r['kind'] == 'data':
            if r.get('rename'):
                kw.append('rename: [' + ', '.join(mstr(x) for x in r['rename']) + ']')
            if r.get('preserve_path'):
                kw.append('preserve_path: true')
            if r.get('follow') is False:
                kw.append('follow_symlinks: false')
            out.append(f"install_data({', '.join(mstr(rel(s)) for s in r['srcs'])}, {', '.join(kw)})" if kw else
                       f"install_data({', '.join(mstr(rel(s)) for s in r['srcs'])})")
        elif r['kind'] == 'headers':
            if r.get('subdir'):
                kw.append('subdir: ' + mstr(r['subdir']))
            if r.get('preserve_path'):
                kw.append('preserve_path: true')
            out.append(f"install_headers({', '.join([mstr(rel(s)) for s in r['srcs']] + kw)})")
        elif r['kind'] == 'man':
            if r.get('locale'):
                kw.append('locale: ' + mstr(r['locale']))
            out.append(f"install_man({', '.join([mstr(rel(s)) for s in r['srcs']] + kw)})")
        elif r['kind'] == 'subdir':
            kw.append('strip_directory: ' + ('true' if r['strip'] else 'false'))
            if r['exclude_files']:
                kw.append('exclude_files: [' + ', '.join(mstr(x) for x in r['exclude_files']) + ']')
            if r['exclude_dirs']:
                kw.append('exclude_directories: [' + ', '.join(mstr(x) for x in r['exclude_dirs']) + ']')
            out.append(f"install_subdir({', '.join([mstr(rel(r['name']))] + kw)})")
        elif r['kind'] == 'emptydir':
            kw2 = [k for k in kw if not k.startswith('install_dir')]
            out.append(f"install_emptydir({', '.join([mstr(r['path'].replace('{A}', A))] + kw2)})")
        elif r['kind'] == 'symlink':
            kw.append('pointing_to: ' + mstr(r['target']))
            out.append(f"install_symlink({', '.join([mstr(r['name'])] + kw)})")
        else:
            out.append(f"configure_file(input: {mstr(rel(r['input']))}, output: {mstr(r['output'])}, copy: true, install: true, "
                       + ', '.join(kw) + ')')
    return '\n'.join(out) + '\n'


# ------------------------------------------------------------------ the documented expectation

def doc_tag(opts: dict, path: str) -> T.Optional[str]:
    """Installing.md, 'Installation tags': the implicit tag of something installed at `path` (relative to the prefix,
    or absolute).  'Installed into X' = strictly below X."""
    p = PP('/PREFIX') / path          # an absolute `path` replaces the prefix
    parents = list(p.parents)

    def under(opt: str) -> bool:
        return (PP('/PREFIX') / opts[opt]) in parents
    if under('bindir') or under('sbindir'):
        return 'runtime'
    if under('libdir'):
        if p.suffix in ('.a', '.pc'):
            return 'devel'
        if p.suffix in ('.so', '.dll'):
            return 'runtime'
        return None
    if under('includedir'):
        return 'devel'
    if under('localedir'):
        return 'i18n'
    if 'installed-tests' in p.parts:
        return 'tests'
    if 'systemtap' in p.parts:
        return 'systemtap'
    return None


def expected_entries(spec: dict, A: str, Rroot: str = '') -> T.List[dict]:
    """every installed object the build definition asks for: {'path' (relative to prefix or absolute), 'type', ...,
    'tag', 'sub'}"""
    opts = spec['opts']
    files = spec['files']
    out: T.List[dict] = []

    def fmode(r: dict, src: str) -> int:
        if r.get('mode'):
            return perms_bits(r['mode'])
        um = int(spec['umask'], 8)
        return (0o777 if files[src][1] & 0o111 else 0o666) & ~um

    for r in spec['rules'] + spec['sub_rules']:
        base = 'subprojects/sp' if r['sub'] else ''
        idir = r.get('install_dir')
        idir = idir.replace('{A}', A) if idir is not None else None
        ents: T.List[dict] = []
        if r['kind'] == 'data':
            d = idir if idir is not None else opts['datadir'] + '/' + (spec['proj'] if not r['sub'] else 'sp')
            for i, s in enumerate(r['srcs']):
                if r.get('rename'):
                    name = r['rename'][i]
                elif r.get('preserve_path'):
                    name = os.path.relpath(s, base) if base else s
                else:
                    name = os.path.basename(s)
                if r.get('link_target'):
                    ents.append({'path': d + '/' + name, 'type': 'l', 'target': r['link_target'].replace('{R}', Rroot)})
                else:
                    ents.append({'path': d + '/' + name, 'type': 'f', 'content': files[s][0], 'mode': fmode(r, s)})
            for e in ents:
                e['tag'] = r['tag'] or doc_tag(opts, e['path'])
        elif r['kind'] == 'headers':
            if idir is not None:
                d = idir
            else:
                d = opts['includedir'] + ('/' + r['subdir'] if r.get('subdir') else '')
            for s in r['srcs']:
                rel = os.path.relpath(s, base) if base else s
                name = rel if r.get('preserve_path') else os.path.basename(s)
                ents.append({'path': d + '/' + name, 'type': 'f', 'content': files[s][0], 'mode': fmode(r, s),
                             'tag': r['tag'] or 'devel'})
        elif r['kind'] == 'man':
            for s in r['srcs']:
                num = s.rsplit('.', 1)[1]
                fname = os.path.basename(s)
                if r.get('locale'):
                    fname = fname.replace('.' + r['locale'], '')
                if idir is not None:
                    d = idir
                else:
                    d = opts['mandir'] + ('/' + r['locale'] if r.get('locale') else '') + '/man' + num
                ents.append({'path': d + '/' + fname, 'type': 'f', 'content': files[s][0], 'mode': fmode(r, s),
                             'tag': r['tag'] or 'man'})
        elif r['kind'] == 'subdir':
            top = r['name']
            dst = idir if r['strip'] else idir + '/' + os.path.basename(top)
            tag = r['tag'] or doc_tag(opts, idir + '/dummy')
            exd = set(os.path.normpath(x) for x in r['exclude_dirs'])
            exf = set(os.path.normpath(x) for x in r['exclude_files'])
            ents.append({'path': dst, 'type': 'd', 'tag': tag})
            seen_dirs = set()
            for s in sorted(files):
                if not s.startswith(top + '/'):
                    continue
                rel = os.path.relpath(s, top)
                parts = rel.split('/')
                if any('/'.join(parts[:i]) in exd for i in range(1, len(parts))):
                    continue
                for i in range(1, len(parts)):
                    dd = '/'.join(parts[:i])
                    if dd not in seen_dirs:
                        seen_dirs.add(dd)
                        ents.append({'path': dst + '/' + dd, 'type': 'd', 'tag': tag})
                if rel in exf:
                    continue
                ents.append({'path': dst + '/' + rel, 'type': 'f', 'content': files[s][0], 'mode': fmode(r, s), 'tag': tag})
        elif r['kind'] == 'emptydir':
            p = r['path'].replace('{A}', A)
            um = int(spec['umask'], 8)
            ents.append({'path': p, 'type': 'd', 'mode': perms_bits(r['mode']) if r.get('mode') else 0o777 & ~um,
                         'tag': r['tag'] or doc_tag(opts, p)})
        elif r['kind'] == 'symlink':
            p = idir + '/' + r['name']
            ents.append({'path': p, 'type': 'l', 'target': r['target'], 'tag': r['tag'] or doc_tag(opts, p)})
        else:
            p = idir + '/' + r['output']
            ents.append({'path': p, 'type': 'f', 'content': files[r['input']][0], 'mode': fmode(r, r['input']),
                         'tag': r['tag'] or doc_tag(opts, p)})
        for e in ents:
            e['sub'] = r['sub']
            e['rule'] = r['kind']
        out += ents
    return out


def selected(sel: dict, e: dict) -> bool:
    skip = [s.strip() for s in sel.get('skip', '').split(',')]
    if e['sub'] and (e['sub'] in skip or '*' in skip):
        return False
    if sel.get('tags'):
        return e['tag'] in [t.strip() for t in sel['tags'].split(',')]
    return True


def selections(spec: dict, ents: T.List[dict], rng: random.Random, deep: bool) -> T.List[dict]:
    tags = sorted({e['tag'] for e in ents if e['tag']})
    sels: T.List[dict] = [{}]
    each = [{'tags': t} for t in tags]
    sels += each if deep else rng.sample(each, min(len(each), 3))
    if 'devel' in tags and {'tags': 'devel'} not in sels:
        sels.append({'tags': 'devel'})
    if len(tags) >= 2:
        a, b = rng.sample(tags, 2)
        sels.append({'tags': f'{a},{b}'})
    if spec['sub_rules']:
        sels.append({'skip': rng.choice(['*', 'sp'])})
        # a skip list that does NOT name the subproject `sp`, only names that contain it / are contained in it
        sels.append({'skip': rng.choice(['sp-extra', 'xsp', 'my sp', 'sp2, other', 's,p', 'spsp', 'sp*'])})
        if rng.random() < 0.5:
            sels.append({'skip': '*', 'bare': True})
        if tags:
            sels.append({'skip': 'sp', 'tags': rng.choice(tags)})
    return sels


# ------------------------------------------------------------------ running the real thing

def build_project(spec: dict, R: str) -> T.Tuple[str, str, str]:
    """write the sources, run the real `meson setup --backend=none`; returns (builddir, prefix, absolute root)"""
    src = os.path.join(R, 'src')
    bld = os.path.join(R, 'build')
    tagname = os.path.basename(os.path.dirname(R)) + '-' + os.path.basename(R)
    prefix = f'/mvc11e-{tagname}/usr'
    A = f'/mvc11e-{tagname}-abs'
    os.makedirs(src, exist_ok=True)
    for rel, (content, mode) in spec['files'].items():
        p = os.path.join(src, rel)
        os.makedirs(os.path.dirname(p), exist_ok=True)
        with open(p, 'w', encoding='utf-8') as f:
            f.write(content)
        os.chmod(p, mode)
    os.makedirs(os.path.join(R, 'outside'), exist_ok=True)
    with open(os.path.join(R, 'outside', 'secret'), 'w') as f:
        f.write('secret\n')
    os.chmod(os.path.join(R, 'outside', 'secret'), 0o640)
    for rel, tgt in spec.get('links', {}).items():
        p = os.path.join(src, rel)
        os.makedirs(os.path.dirname(p), exist_ok=True)
        os.symlink(tgt.replace('{R}', R), p)
    main = f"project({mstr(spec['proj'])}, version: '1')\n" + render(spec['rules'], spec['opts'], '', A)
    if spec['sub_rules']:
        main += "subproject('sp')\n"
        os.makedirs(os.path.join(src, 'subprojects/sp'), exist_ok=True)
        with open(os.path.join(src, 'subprojects/sp/meson.build'), 'w', encoding='utf-8') as f:
            f.write("project('sp', version: '1')\n" + render(spec['sub_rules'], spec['opts'], 'subprojects/sp', A))
    with open(os.path.join(src, 'meson.build'), 'w', encoding='utf-8') as f:
        f.write(main)
    cmd = [sys.executable, os.path.join(common.REPO, 'meson.py'), 'setup', '--backend=none', f'--prefix={prefix}',
           f'-Dinstall_umask={spec["umask"]}'] + [f'--{k}={v}' for k, v in spec['opts'].items()] + [bld, src]
    env = dict(os.environ, PYTHONPATH=common.REPO, PYTHONDONTWRITEBYTECODE='1')
    env.pop('DESTDIR', None)
    p = subprocess.run(cmd, stdout=subprocess.PIPE, stderr=subprocess.STDOUT, text=True, env=env, timeout=300)
    if p.returncode != 0:
        raise RuntimeError('meson setup failed:\n' + main + '\n' + p.stdout[-1500:])
    return bld, prefix, A


def real_install(bld: str, destdir: str, sel: dict, only_changed: bool = False) -> str:
    from mesonbuild import minstall
    # through the real command-line parser: meson install -C <bld> --no-rebuild --quiet --destdir <dd> [selection]
    argv = ['-C', bld, '--no-rebuild', '--quiet', '--destdir', destdir] + (['--only-changed'] if only_changed else [])
    if sel.get('bare'):
        argv += ['--skip-subprojects']
    elif sel.get('skip'):
        argv += ['--skip-subprojects', sel['skip']]
    if sel.get('tags') is not None:
        argv += ['--tags', sel['tags']]
    try:
        parser = argparse.ArgumentParser()
        minstall.add_arguments(parser)
        opts = parser.parse_args(argv)
    except BaseException as e:  # noqa: B036
        if isinstance(e, KeyboardInterrupt):
            raise
        return f'argparse {type(e).__name__}: {e}'
    cwd = os.getcwd()
    old = os.umask(0o022)
    os.environ.pop('DESTDIR', None)
    try:
        with contextlib.redirect_stdout(io.StringIO()), contextlib.redirect_stderr(io.StringIO()):
            minstall.run(opts)
        return 'ok'
    except BaseException as e:  # noqa: B036
        if isinstance(e, KeyboardInterrupt):
            raise
        return f'{type(e).__name__}: {e}'
    finally:
        os.umask(old)
        os.chdir(cwd)
        os.environ.pop('DESTDIR', None)
        del minstall.selinux_updates[:]


def listing(root: str) -> T.Dict[str, tuple]:
    out: T.Dict[str, tuple] = {}
    for r, ds, fs in os.walk(root):
        for nme in ds + fs:
            p = os.path.join(r, nme)
            st = os.lstat(p)
            rel = '/' + os.path.relpath(p, root)
            if stat.S_ISLNK(st.st_mode):
                out[rel] = ('l', os.readlink(p))
            elif stat.S_ISDIR(st.st_mode):
                out[rel] = ('d', stat.S_IMODE(st.st_mode))
            else:
                with open(p, encoding='utf-8', errors='replace') as f:
                    out[rel] = ('f', f.read(), stat.S_IMODE(st.st_mode))
    return out


def outside_snapshot(R: str, dd: str) -> T.Dict[str, tuple]:
    """everything in the scratch root that is NOT beneath DESTDIR -- its parent, its siblings, the sources, the build
    directory (minus the installer's own log)"""
    out: T.Dict[str, tuple] = {}
    logdir = os.path.join(R, 'build', 'meson-logs')
    for r, ds, fs in os.walk(R):
        if r == dd or r.startswith(dd + '/') or r == logdir:
            ds[:] = []
            continue
        ds[:] = [d for d in ds if os.path.join(r, d) not in (dd, logdir)]
        for nme in ds + fs:
            p = os.path.join(r, nme)
            st = os.lstat(p)
            if stat.S_ISLNK(st.st_mode):
                out[p] = ('l', os.readlink(p))
            elif stat.S_ISDIR(st.st_mode):
                out[p] = ('d', stat.S_IMODE(st.st_mode))
            else:
                out[p] = ('f', st.st_size, st.st_mtime_ns, stat.S_IMODE(st.st_mode))
    return out


NS = 10**9
# how much later a rewritten source is stamped than the copy installed from its previous version: 1 us, 1 ms, half a
# second inside the same clock second (the sources start at T + 0.2 s), five seconds; None = left alone
REWRITE_DELTAS = [None, 1_000, 1_000_000, 500_000_000, 5 * NS]


def rewrite_history(spec: dict, R: str, bld: str) -> dict:
    """`meson install`; some sources are rewritten (new content, time stamp set with os.utime in nanoseconds, close to
    the old one); `meson install --only-changed`.  Deterministic in the project (replayable from the spec alone)."""
    import zlib
    rng = random.Random(zlib.crc32(spec['name'].encode()))
    src = os.path.join(R, 'src')
    dd = os.path.join(R, 'hist', 'stage')
    cfg_inputs = {r['input'] for r in spec['rules'] + spec['sub_rules'] if r['kind'] == 'configure'}
    t0 = rng.randrange(1_400_000_000, 1_700_000_000) * NS + 200_000_000
    for rel in spec['files']:
        os.utime(os.path.join(src, rel), ns=(t0, t0))
    err = real_install(bld, dd, {})
    files2 = {k: list(v) for k, v in spec['files'].items()}
    deltas: T.Dict[str, int] = {}
    for rel in sorted(spec['files']):
        d = rng.choice(REWRITE_DELTAS)
        if d is None or rel in cfg_inputs:
            continue        # (a configure_file input is read at configure time, not at install time)
        p = os.path.join(src, rel)
        files2[rel][0] += 'v2\n'
        with open(p, 'w', encoding='utf-8') as f:
            f.write(files2[rel][0])
        os.utime(p, ns=(t0 + d, t0 + d))
        deltas[rel] = d
    before = outside_snapshot(R, dd)
    if err == 'ok':
        err = real_install(bld, dd, {}, only_changed=True)
    after = outside_snapshot(R, dd)
    changed = sorted(p for p in set(before) | set(after) if before.get(p) != after.get(p))
    return {'sel': {}, 'err': err, 'tree': listing(dd) if os.path.isdir(dd) else {}, 'hist': deltas, 'files': files2,
            'outside': [os.path.relpath(p, R) for p in changed[:5]]}


def work(arg: T.Tuple[dict, str, int, bool]) -> dict:
    spec, base, seed, deep = arg
    R = os.path.join(base, spec['name'])
    os.makedirs(R)
    res: dict = {'runs': []}
    try:
        bld, prefix, A = build_project(spec, R)
        res['prefix'] = prefix
        res['A'] = A
        ents = expected_entries(spec, A, R)
        res['R'] = R
        res['glue'] = glue_requests(spec, R, bld, prefix, A)
        rng = random.Random(seed)
        for i, sel in enumerate(spec.get('selections') or selections(spec, ents, rng, deep)):
            dd = os.path.join(R, f'sel{i}', 'stage')
            before = outside_snapshot(R, dd)
            err = real_install(bld, dd, sel)
            after = outside_snapshot(R, dd)
            changed = sorted(p for p in set(before) | set(after) if before.get(p) != after.get(p))
            # creating DESTDIR's missing parents is part of using it
            changed = [p for p in changed if not (p not in before and after[p][0] == 'd' and (dd + '/').startswith(p + '/'))]
            res['runs'].append({'sel': sel, 'err': err, 'tree': listing(dd) if os.path.isdir(dd) else {},
                                'outside': [os.path.relpath(p, R) for p in changed[:5]]})
        if not spec.get('escape'):
            res['runs'].append(rewrite_history(spec, R, bld))
    except Exception as e:
        res['crash'] = f'{type(e).__name__}: {e}'
    finally:
        common.rmtree(R)
        tagname = os.path.basename(base) + '-' + spec['name']
        for q in (f'/mvc11e-{tagname}', f'/mvc11e-{tagname}-abs'):
            if os.path.lexists(q):
                res['escaped'] = q
                common.rmtree(q)
    return res


# ------------------------------------------------------------------ the backend glue: model vs. the real install.dat

def glue_requests(spec: dict, R: str, bld: str, prefix: str, A: str) -> T.List[T.Tuple[str, str, str]]:
    """(what, driver request, value found in the real unpickled InstallData) for every rule's destination string"""
    from mesonbuild import minstall
    from .common import enc
    d = minstall.load_install_data(os.path.join(bld, 'meson-private', 'install.dat'))
    src = os.path.join(R, 'src')
    opts = spec['opts']
    out: T.List[T.Tuple[str, str, str]] = []

    def opt(v: T.Optional[str]) -> str:
        return ('1|' + enc(v)) if v is not None else '0|'

    def find(lst, path):
        hits = [e for e in lst if e.path == path]
        return hits[0] if len(hits) == 1 else None

    for r in spec['rules'] + spec['sub_rules']:
        base = 'subprojects/sp' if r['sub'] else ''
        idir = r.get('install_dir')
        idir = idir.replace('{A}', A) if idir is not None else None
        rel = lambda p: os.path.relpath(p, base) if base else p   # noqa: E731
        if r['kind'] == 'data':
            dd = idir if idir is not None else os.path.join(opts['datadir'], spec['proj'] if not r['sub'] else 'sp')
            for i, sfile in enumerate(r['srcs']):
                e = find(d.data, os.path.join(src, sfile))
                if e is None:
                    continue
                ren = r['rename'][i] if r.get('rename') else None
                out.append(('data', f'gdata {enc(dd)}|{opt(ren)}|{int(bool(r.get("preserve_path")))}|{enc(rel(sfile))}', e.install_path))
        elif r['kind'] == 'headers':
            for sfile in r['srcs']:
                e = find(d.headers, os.path.join(src, sfile))
                if e is None:
                    continue
                out.append(('headers', f'ghdr {enc(opts["includedir"])}|{opt(idir)}|{opt(r.get("subdir"))}|'
                            f'{int(bool(r.get("preserve_path")))}|{enc(rel(sfile))}', e.install_path))
        elif r['kind'] == 'man':
            for sfile in r['srcs']:
                e = find(d.man, os.path.join(src, sfile))
                if e is None:
                    continue
                out.append(('man', f'gman {enc(opts["mandir"])}|{opt(idir)}|{opt(r.get("locale"))}|{enc(rel(sfile))}', e.install_path))
        elif r['kind'] == 'subdir':
            e = find(d.install_subdirs, os.path.join(src, r['name']))
            if e is None:
                continue
            out.append(('subdir-src', f'gsubsrc {enc(src)}|{enc(base)}|{enc(rel(r["name"]))}', e.path))
            out.append(('subdir', f'gsub {enc(prefix)}|{enc(idir)}|{enc(e.path)}|{int(r["strip"])}', e.install_path))
        elif r['kind'] == 'symlink':
            name = os.path.join(idir, r['name'])
            hits = [e for e in d.symlinks if e.target == r['target'] and os.path.basename(e.name) == r['name']]
            if len(hits) == 1:
                out.append(('symlink', f'gsym {enc(idir)}|{enc(r["name"])}', hits[0].name))
        elif r['kind'] == 'configure':
            bdir = bld if not r['sub'] else os.path.join(bld, 'subprojects/sp')
            e = find(d.data, os.path.join(bdir, r['output']))
            if e is None:
                continue
            out.append(('configure', f'gdata {enc(idir)}|0||0|{enc(r["output"])}', e.install_path))
    return out


# ------------------------------------------------------------------ oracle

def judge_project(ctx, spec: dict, res: dict) -> None:
    case0 = {'e2e': spec}
    name = spec['name']
    if res.get('crash'):
        raise common.ToolFailure(f'e2e harness crashed on {name}: {res["crash"][:1500]}')
    if res.get('escaped'):
        ctx.violation(f'e2e-outside-destdir:{name}', f'installer wrote to {res["escaped"]}', case0)
    prefix, A = res['prefix'], res['A']
    ents = expected_entries(spec, A, res.get('R', ''))
    um = int(spec['umask'], 8)

    def full(p: str) -> str:
        return os.path.normpath(p if p.startswith('/') else prefix + '/' + p)

    for run in res['runs']:
        sel = run['sel']
        case = {'e2e': dict(spec, selections=[sel])}
        ctx.count()
        hist = run.get('hist')
        ents_r = ents
        if hist is not None:
            # install; rewrite; install --only-changed: the expectation is the build definition over the *current* sources
            ents_r = expected_entries(dict(spec, files=run['files']), A, res.get('R', ''))
            fpaths = [full(e['path']) for e in ents_r if e['type'] == 'f']
            if len(fpaths) != len(set(fpaths)):
                ctx.tag('e2e-hist:overlapping-destinations-unjudged')
                continue        # two rules, one destination: --only-changed is order dependent (recorded finding)
            ctx.tag('e2e-hist:judged')
            for rel, dlt in hist.items():
                ctx.tag('e2e-hist:rewritten:' + {1_000: '+1us', 1_000_000: '+1ms', 500_000_000: '+0.5s-same-second'}.get(dlt, '+5s'))
        ctx.tag('e2e:' + ('hist' if hist is not None else 'tags' if sel.get('tags') else 'all') + ('+skip' if sel.get('skip') else ''))
        if run.get('outside'):
            ctx.violation(f'e2e-outside-destdir:{name}', f'meson install {sel} changed paths outside DESTDIR '
                          f'(sel*/stage): {run["outside"]}', case)
            continue
        if spec.get('escape'):
            ctx.tag('e2e-escape:' + ('refused' if run['err'] != 'ok' else 'accepted-inside'))
            continue        # judged on confinement only: refusing the rule or staying inside DESTDIR are both fine
        if run['err'] != 'ok':
            ctx.violation(f'e2e-install-failed:{name}', f'meson install {sel} failed: {run["err"][:160]}', case)
            continue
        want: T.Dict[str, tuple] = {}
        for e in ents_r:
            if not selected(sel, e):
                continue
            ctx.tag('e2e-rule:' + e['rule'])
            p = full(e['path'])
            if e['type'] == 'f':
                want[p] = ('f', e['content'], e['mode'])
            elif e['type'] == 'l':
                want[p] = ('l', e['target'])
            else:
                want.setdefault(p, ('d', e.get('mode')))
                if e.get('mode') is not None:
                    want[p] = ('d', e['mode'])
        for p in list(want):
            q = os.path.dirname(p)
            while q != '/' and q not in want:
                want[q] = ('d', None)
                q = os.path.dirname(q)
        got = run['tree']
        missing = sorted(set(want) - set(got))
        extra = sorted(set(got) - set(want))
        if missing or extra:
            what = 'tags' if sel.get('tags') or sel.get('skip') else 'exact'
            ctx.violation(f'e2e-{what}:{name}', f'meson install {sel}: installed != what the build definition and '
                          f'Installing.md specify: missing={missing[:3]} extra={extra[:3]}', case)
            continue
        for p, w in want.items():
            g = got[p]
            if w[0] != g[0]:
                ctx.violation(f'e2e-kind:{name}', f'{p}: {g[0]} instead of {w[0]}', case)
                break
            if w[0] == 'f' and hist is not None and g[1] != w[1]:
                ctx.violation(f'e2e-only-changed-stale:{name}', f'install; sources rewritten {hist}; install --only-changed: '
                              f'{p} holds {g[1][:60]!r}, the build definition installs a source that now holds {w[1][:60]!r}', case)
                break
            if w[0] == 'f' and (g[1] != w[1] or g[2] != w[2]):
                ctx.violation(f'e2e-mode-or-content:{name}', f'{p}: mode {oct(g[2])} want {oct(w[2])}, content equal: {g[1] == w[1]}', case)
                break
            if w[0] == 'l' and g[1] != w[1]:
                ctx.violation(f'e2e-link:{name}', f'{p}: -> {g[1]!r} want {w[1]!r}', case)
                break
            if w[0] == 'd' and w[1] is not None and g[1] != w[1]:
                ctx.violation(f'e2e-dirmode:{name}', f'{p}: mode {oct(g[1])} want {oct(w[1])}', case)
                break
            if w[0] == 'd' and w[1] is None and g[1] != 0o777 & ~um:
                ctx.violation(f'e2e-dirmode:{name}', f'{p}: mode {oct(g[1])} want {oct(0o777 & ~um)}', case)
                break


def corpus() -> T.List[dict]:
    """hand-written shapes: a subdir stripped directly into a tagged directory, with and without an explicit tag"""
    opts = dict(DIR_DEFAULTS)
    files = {'trees/h/api.h': ['api\n', 0o644], 'trees/h/inner/more.h': ['more\n', 0o644],
             'trees/b/tool': ['tool\n', 0o755], 'trees/l/fr/x.mo': ['mo\n', 0o644], 'd.txt': ['d\n', 0o644]}
    rules = [
        {'kind': 'subdir', 'name': 'trees/h', 'install_dir': 'include', 'strip': True, 'exclude_files': [], 'exclude_dirs': [],
         'mode': None, 'tag': None, 'sub': ''},
        {'kind': 'subdir', 'name': 'trees/b', 'install_dir': 'bin', 'strip': True, 'exclude_files': [], 'exclude_dirs': [],
         'mode': None, 'tag': None, 'sub': ''},
        {'kind': 'subdir', 'name': 'trees/l', 'install_dir': 'share/locale', 'strip': True, 'exclude_files': [], 'exclude_dirs': [],
         'mode': None, 'tag': None, 'sub': ''},
        {'kind': 'subdir', 'name': 'trees/h', 'install_dir': 'include/keep', 'strip': False, 'exclude_files': [], 'exclude_dirs': [],
         'mode': None, 'tag': None, 'sub': ''},
        {'kind': 'data', 'srcs': ['d.txt'], 'install_dir': 'sbin', 'mode': None, 'tag': None, 'sub': ''},
        {'kind': 'data', 'srcs': ['d.txt'], 'install_dir': 'include', 'mode': None, 'tag': 'custom tag', 'sub': ''},
    ]
    return [{'name': 'e2e-corpus-strip', 'proj': 'proj', 'opts': opts, 'umask': '022', 'files': files, 'links': {},
             'rules': rules, 'sub_rules': [],
             'selections': [{}, {'tags': 'devel'}, {'tags': 'runtime'}, {'tags': 'i18n'}, {'tags': 'custom tag'}]}]


def escape_project(rng: random.Random, idx: int) -> dict:
    """one rule whose install dir climbs with `..` out of the prefix towards DESTDIR's parent and lands on a name derived
    from DESTDIR's own name (`stage`): siblings sharing it as a string prefix, a proper prefix, the name itself, ..."""
    base = 'stage'
    target = rng.choice([base + '-extra', base + 'x', base + '.d', base + '/', base[:3], base, '', '..', 'unrelated'])
    if rng.random() < 0.35:
        d = '/' + '../' * rng.choice([1, 2]) + target + '/etc'
    else:
        d = 'share/' + '../' * 4 + target + '/etc'          # prefix is <root>/usr: share -> usr -> <root> -> DESTDIR -> parent
    d = d.replace('//', '/')
    kind = rng.choice(['data', 'headers', 'man', 'subdir', 'emptydir', 'symlink', 'configure'])
    files = {'f.txt': ['f\n', 0o644], 'm.1': ['m\n', 0o644], 'h.h': ['h\n', 0o644], 'tree/in.txt': ['in\n', 0o644], 'c.in': ['c\n', 0o644]}
    cf = {'mode': None, 'tag': None, 'sub': ''}
    r = {'data': {'kind': 'data', 'srcs': ['f.txt'], 'install_dir': d, **cf},
         'headers': {'kind': 'headers', 'srcs': ['h.h'], 'install_dir': d, **cf},
         'man': {'kind': 'man', 'srcs': ['m.1'], 'locale': None, 'install_dir': d, **cf},
         'subdir': {'kind': 'subdir', 'name': 'tree', 'install_dir': d, 'strip': rng.random() < 0.5, 'exclude_files': [],
                    'exclude_dirs': [], **cf},
         'emptydir': {'kind': 'emptydir', 'path': d + '/empty', **cf},
         'symlink': {'kind': 'symlink', 'name': 'lnk', 'target': 't', 'install_dir': d, 'tag': None, 'sub': ''},
         'configure': {'kind': 'configure', 'input': 'c.in', 'output': 'gen.conf', 'install_dir': d, **cf}}[kind]
    return {'name': f'e2e-escape-{idx}', 'proj': 'proj', 'opts': dict(DIR_DEFAULTS), 'umask': '022', 'files': files, 'links': {},
            'rules': [r], 'sub_rules': [], 'selections': [{}], 'escape': {'kind': kind, 'dir': d}}


def run_stream(ctx, scratch_base: T.Callable[[], str], nproj: int) -> None:
    import multiprocessing
    rng = ctx.rng
    specs = corpus() + [gen_project(rng, i) for i in range(nproj)] + \
        [escape_project(rng, i) for i in range(max(8, nproj // 3))]
    base = scratch_base()
    try:
        with multiprocessing.get_context('fork').Pool(min(16, os.cpu_count() or 4)) as pool:
            results = pool.map(work, [(s, base, rng.randrange(1 << 30), ctx.deep) for s in specs], chunksize=1)
    finally:
        common.rmtree(base)
    for spec, res in zip(specs, results):
        judge_project(ctx, spec, res)
    ctx.tag('e2e-projects', len(specs))
    # the glue model against the real InstallData
    from .common import enc as _enc
    lines, wants, owners = [], [], []
    for spec, res in zip(specs, results):
        for what, line, val in res.get('glue', []):
            lines.append(line); wants.append(_enc(val)); owners.append((spec['name'], what))
    ctx.count(len(lines))
    if ctx.model_available and lines:
        got = ctx.driver('install', lines)
        for l, w, g, o in zip(lines, wants, got, owners):
            ctx.tag('glue:' + o[1])
            if w != g:
                ctx.disagreement({'kind': 'glue', 'project': o[0], 'rule': o[1], 'line': l,
                                  'impl': common.dec(w), 'model': common.dec(g) if g and g[0].isdigit() else g})


def replay_e2e(ctx, spec: dict, scratch_base: T.Callable[[], str]) -> None:
    base = scratch_base()
    try:
        res = work((spec, base, 0, True))
    finally:
        common.rmtree(base)
    for run in res.get('runs', []):
        print('e2e', run['sel'], run['err'], sorted(run['tree'])[:40])
    judge_project(ctx, spec, res)
