"""C01 — in-process adapter for the real interpreter: one `Interpreter` (project without languages),
each program evaluated on a fresh variable table; results canonicalised to the driver's answer syntax;
the tree of the REAL parser serialised into the driver's request syntax."""
from __future__ import annotations

import argparse
import copy
import os
import typing as T

from . import common


class ProgramTimeout(BaseException):
    """the implementation did not finish one small program within the time limit"""


def _on_alarm(signum: int, frame: T.Any) -> None:
    raise ProgramTimeout()


class Impl:
    TIME_LIMIT = 5.0

    def arm(self) -> None:
        # CPU time of this process, not wall time: on a loaded machine a worker can be descheduled for longer
        # than any sensible wall limit while a tiny program is being evaluated; a runaway evaluation burns CPU
        import signal
        signal.signal(signal.SIGPROF, _on_alarm)
        signal.setitimer(signal.ITIMER_PROF, self.TIME_LIMIT)

    def disarm(self) -> None:
        import signal
        signal.setitimer(signal.ITIMER_PROF, 0)

    def __init__(self, base: T.Optional[str] = None) -> None:
        from mesonbuild import mparser, mlog, environment, build, msetup
        from mesonbuild.interpreter import Interpreter
        from mesonbuild.interpreterbase._unholder import _unholder
        from mesonbuild.interpreter.primitives.range import RangeHolder
        from mesonbuild.interpreterbase.baseobjects import InterpreterObject
        self.mparser = mparser
        self.mlog = mlog
        self._unholder = _unholder
        self.RangeHolder = RangeHolder
        from mesonbuild.interpreter.interpreterobjects import SubprojectHolder
        from mesonbuild.mesonlib import PerMachine
        self.SubprojectHolder = SubprojectHolder
        self.PerMachine = PerMachine
        self.InterpreterObject = InterpreterObject
        import tempfile
        self.dir = tempfile.mkdtemp(prefix='w-', dir=base) if base else common.scratch_dir('mverif-c01-')
        src = self.src = os.path.join(self.dir, 'src')
        bld = os.path.join(self.dir, 'bld')
        os.makedirs(src)
        os.makedirs(bld)
        with open(os.path.join(src, 'meson.build'), 'w') as f:
            f.write("project('c01')\n")
        p = argparse.ArgumentParser()
        msetup.add_arguments(p)
        opts = p.parse_args(['--backend=none', src, bld])
        mlog._logger.log_disable_stdout = True
        env = environment.Environment(src, bld, opts)
        self.interp = Interpreter(build.Build(env), user_defined_options=opts)
        self.func_names = sorted(self.interp.funcs)
        self.builtin_names = sorted(self.interp.builtin)
        self.messages: T.List[str] = []
        self._orig_log = mlog.log
        # observe every method call on a primitive holder (receiver, arguments, result) from outside
        self.calls: T.List[T.Tuple[T.Any, str, T.Any, T.Any, T.Any]] = []
        self.record_calls = False
        from mesonbuild.interpreterbase.baseobjects import ObjectHolder
        self._IO = InterpreterObject
        self._orig_method_call = InterpreterObject.method_call
        outer = self
        orig = self._orig_method_call

        def method_call(obj: T.Any, method_name: str, args: T.Any, kwargs: T.Any) -> T.Any:
            if not outer.record_calls or not isinstance(obj, ObjectHolder) or len(outer.calls) > 400:
                return orig(obj, method_name, args, kwargs)
            try:
                snap = (outer.norm(obj.held_object), method_name, outer.norm(list(args)), outer.norm(dict(kwargs)))
            except Exception:
                return orig(obj, method_name, args, kwargs)
            try:
                res = orig(obj, method_name, args, kwargs)
            except Exception as e:
                outer.calls.append(snap + (('error', type(e).__name__),))
                raise
            try:
                outer.calls.append(snap + (('ok', outer.norm(res)),))
            except Exception:
                pass
            return res
        InterpreterObject.method_call = method_call

        def capture(*args: T.Any, **kw: T.Any) -> None:
            if args and isinstance(args[0], mlog.AnsiDecorator) and args[0].text == 'Message:':
                self.messages.append(' '.join(str(a) for a in args[1:]))
        mlog.log = capture

    def close(self) -> None:
        self._IO.method_call = self._orig_method_call
        self.mlog.log = self._orig_log
        self.mlog._logger.log_disable_stdout = False
        common.rmtree(self.dir)

    # ------------------------------------------------------------ running
    def parse(self, code: str):
        return self.mparser.Parser(code, 'meson.build').parse()

    def reset(self) -> None:
        it = self.interp
        it.variables = {}
        it.argument_depth = 0
        it.tmp_meson_version = None
        it.current_node = self.mparser.BaseNode(-1, -1, 'sentinel')
        self.messages = []
        self.calls = []
        self.saw_live_alias = False

    def reset_tree(self, files: T.Dict[str, str]) -> None:
        """a fresh source tree: the other build files (directory relative to the source root -> text) are
        written next to the top-level meson.build, and everything a previous configuration left in the
        interpreter about directories and subprojects is forgotten (as a new `meson setup` would)"""
        import shutil
        for n in os.listdir(self.src):
            if n != 'meson.build':
                shutil.rmtree(os.path.join(self.src, n), ignore_errors=True)
        for rel, txt in files.items():
            p = os.path.join(self.src, rel, 'meson.build')
            os.makedirs(os.path.dirname(p), exist_ok=True)
            with open(p, 'w', encoding='utf-8') as f:
                f.write(txt)
        it = self.interp
        it.processed_buildfiles = set()
        it.subdir = ''
        it.subproject_stack = []
        it.subprojects = self.PerMachine({}, {})
        for pm in (it.build.projects.host, it.build.projects.build):
            for k in list(pm):
                if k != '':
                    del pm[k]
        r = it.environment.wrap_resolver
        r.wraps = {}
        r.provided_deps = {}
        r.provided_programs = {}
        r.loaded_dirs = set()
        r.load_wraps()

    def run_ast(self, ast) -> T.Tuple[str, T.Optional[dict]]:
        """-> (canonical answer, final variables or None)"""
        self.reset()
        try:
            self.arm()
            try:
                self.interp.evaluate_codeblock(ast)
            finally:
                self.disarm()
        except BaseException as e:  # Break/ContinueRequest derive from BaseException
            if isinstance(e, (KeyboardInterrupt, SystemExit)):
                raise
            ln = getattr(e, 'lineno', None)
            return f'ERR:{err_class(e)}:{ln if isinstance(ln, int) else 0}|{self.canon_msgs()}', None
        vs = {k: self.unhold(v) for k, v in self.interp.variables.items()}
        return 'OK|' + ';'.join(f'{k}={self.canon(vs[k])}' for k in sorted(vs)) + '|' + self.canon_msgs(), vs

    def run(self, code: str) -> T.Tuple[str, T.Optional[dict]]:
        return self.run_ast(self.parse(code))

    def unhold(self, v: T.Any) -> T.Any:
        if isinstance(v, self.RangeHolder):
            return v
        return self._unholder(v)

    def canon_msgs(self) -> str:
        return ','.join(canon_str(m) for m in self.messages)

    def canon(self, v: T.Any) -> str:
        if isinstance(v, bool):
            return 't' if v else 'f'
        if isinstance(v, int):
            return f'i{v}'
        if isinstance(v, str):
            return canon_str(v)
        if isinstance(v, list):
            return '[' + ','.join(self.canon(x) for x in v) + ']'
        if isinstance(v, dict):
            return '{' + ','.join(f'{self.canon(k)}:{self.canon(x)}' for k, x in v.items()) + '}'
        if isinstance(v, self.RangeHolder):
            return f'r{v.range.start}.{v.range.stop}.{v.range.step}'
        if isinstance(v, self.SubprojectHolder):
            return 'p' + canon_str(os.path.basename(v.subdir))
        return f'?{type(v).__name__}'

    def norm(self, v: T.Any) -> T.Any:
        """a fresh structural copy of an unheld value (RangeHolder objects become tuples)"""
        if isinstance(v, list):
            return [self.norm(x) for x in v]
        if isinstance(v, dict):
            return {k: self.norm(x) for k, x in v.items()}
        if isinstance(v, self.RangeHolder):
            return ('range', v.range.start, v.range.stop, v.range.step)
        if isinstance(v, (bool, int, str)):
            return v
        return ('object', type(v).__name__, id(v))

    def live_alias(self) -> bool:
        """do two variables (or a variable and an element of another) currently refer to the SAME Python list/dict
        object?  Only then can an in-place update of one become visible through the other"""
        seen: T.Dict[int, str] = {}

        def walk(v: T.Any, owner: str, depth: int) -> bool:
            if isinstance(v, (list, dict)):
                if id(v) in seen and seen[id(v)] != owner:
                    return True
                seen[id(v)] = owner
                if depth < 3:
                    for x in (v.values() if isinstance(v, dict) else v):
                        if walk(x, owner, depth + 1):
                            return True
            return False
        for k, h in self.interp.variables.items():
            if walk(self.unhold(h), k, 0):
                return True
        return False

    def snapshot(self) -> dict:
        """structural copy of the unheld variable table (for the immutability oracle)"""
        return {k: self.norm(self.unhold(v)) for k, v in self.interp.variables.items()}


MODEL_CLASSES = ('InvalidArguments', 'InvalidCode', 'InterpreterException', 'MesonException')


def err_class(e: BaseException) -> str:
    """the nearest class the model distinguishes (e.g. InvalidCodeOnVoid -> InvalidCode)"""
    for c in type(e).__mro__:
        if c.__name__ in MODEL_CLASSES:
            return c.__name__
    return type(e).__name__


def canon_str(s: str) -> str:
    return 's' + '.'.join(str(ord(c)) for c in s)


# ---------------------------------------------------------------- serialising the real parser's tree

ARITH = {'+': 'add', '-': 'sub', '*': 'mul', '/': 'div', '%': 'mod'}
CMP = {'==': 'eq', '!=': 'ne', '<': 'lt', '<=': 'le', '>': 'gt', '>=': 'ge', 'in': 'in', 'not in': 'notin'}


class Unserialisable(Exception):
    pass


def ser_str(s: str, out: T.List[str]) -> None:
    out.append(str(len(s)))
    out.extend(str(ord(c)) for c in s)


def ser_nodes(mp, nodes, out) -> None:
    out.append(str(len(nodes)))
    for n in nodes:
        ser(mp, n, out)


def ser_args(mp, args, out) -> None:
    out.append('1' if args.order_error else '0')
    ser_nodes(mp, args.arguments, out)
    out.append(str(len(args.kwargs)))
    for k, v in args.kwargs.items():
        ser(mp, k, out)
        ser(mp, v, out)


def ser(mp, n, out: T.List[str]) -> None:
    """prefix encoding of one node: tag, lineno, fields (see Driver/Eval.lean)"""
    t = type(n)
    ln = str(n.lineno)
    if t is mp.StringNode:
        out += ['F' if n.is_fstring else 'S', ln]
        ser_str(n.value, out)
    elif t is mp.BooleanNode:
        out += ['B', ln, '1' if n.value else '0']
    elif t is mp.NumberNode:
        out += ['N', ln, str(n.value)]
    elif t is mp.IdNode:
        out += ['I', ln]
        ser_str(n.value, out)
    elif t is mp.ArrayNode:
        out += ['A', ln]
        ser_args(mp, n.args, out)
    elif t is mp.DictNode:
        if n.args.arguments or n.args.order_error:
            raise Unserialisable('dict with positional arguments')
        out += ['D', ln, str(len(n.args.kwargs))]
        for k, v in n.args.kwargs.items():
            ser(mp, k, out)
            ser(mp, v, out)
    elif t is mp.AndNode:
        out += ['and', ln]
        ser(mp, n.left, out)
        ser(mp, n.right, out)
    elif t is mp.OrNode:
        out += ['or', ln]
        ser(mp, n.left, out)
        ser(mp, n.right, out)
    elif t is mp.NotNode:
        out += ['not', ln]
        ser(mp, n.value, out)
    elif t is mp.UMinusNode:
        out += ['neg', ln]
        ser(mp, n.value, out)
    elif t is mp.ArithmeticNode:
        out += ['ar', ln, ARITH[n.operation]]
        ser(mp, n.left, out)
        ser(mp, n.right, out)
    elif t is mp.ComparisonNode:
        out += ['cmp', ln, CMP[n.ctype]]
        ser(mp, n.left, out)
        ser(mp, n.right, out)
    elif t is mp.IndexNode:
        out += ['idx', ln]
        ser(mp, n.iobject, out)
        ser(mp, n.index, out)
    elif t is mp.TernaryNode:
        out += ['tern', ln]
        ser(mp, n.condition, out)
        ser(mp, n.trueblock, out)
        ser(mp, n.falseblock, out)
    elif t is mp.ParenthesizedNode:
        out += ['par', ln]
        ser(mp, n.inner, out)
    elif t is mp.AssignmentNode or t is mp.PlusAssignmentNode:
        out += ['asg' if t is mp.AssignmentNode else 'pasg', ln]
        ser_str(n.var_name.value, out)
        ser(mp, n.value, out)
    elif t is mp.FunctionNode:
        out += ['call', ln]
        ser_str(n.func_name.value, out)
        ser_args(mp, n.args, out)
    elif t is mp.MethodNode:
        out += ['meth', ln]
        ser(mp, n.source_object, out)
        ser_str(n.name.value, out)
        ser_args(mp, n.args, out)
    elif t is mp.IfClauseNode:
        out += ['if', ln, str(len(n.ifs))]
        for i in n.ifs:
            ser(mp, i.condition, out)
            ser_nodes(mp, i.block.lines, out)
        if isinstance(n.elseblock, mp.EmptyNode):
            out += ['0', '0']
        else:
            out.append('1')
            ser_nodes(mp, n.elseblock.block.lines, out)
    elif t is mp.ForeachClauseNode:
        out += ['for', ln, str(len(n.varnames))]
        for v in n.varnames:
            ser_str(v.value, out)
        ser(mp, n.items, out)
        ser_nodes(mp, n.block.lines, out)
    elif t is mp.ContinueNode:
        out += ['cont', ln]
    elif t is mp.BreakNode:
        out += ['brk', ln]
    elif t is mp.EmptyNode:
        out += ['unk', ln]
    else:
        raise Unserialisable(t.__name__)


def serialise(mp, block, skip: int = 0) -> str:
    """the top-level CodeBlockNode as one protocol field (`skip` leading statements left out)"""
    out: T.List[str] = []
    ser_nodes(mp, block.lines[skip:], out)
    return ' '.join(out)


def serialise_tree(mp, main, files: T.Dict[str, T.Any]) -> str:
    """`runfs` request: the main block and, per directory, the parsed block of its meson.build
    (a subproject's root file without its leading project() call)"""
    fields = [serialise(mp, main)]
    for rel, ast in files.items():
        skip = 0
        first = ast.lines[0] if ast.lines else None
        if isinstance(first, mp.FunctionNode) and first.func_name.value == 'project':
            skip = 1
        fields.append(common.enc(rel))
        fields.append(serialise(mp, ast, skip))
    return 'runfs ' + '|'.join(fields)
