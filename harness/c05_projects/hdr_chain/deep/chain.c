#include "h3.h"
int chain(void) { return ONE + TWO + THREE; }
