#include "h2.h"
int chain(void);
int main(void) { return chain() + ONE + TWO == -1; }
