#include "gen.h"
int main(void) { return GEN == -1; }
