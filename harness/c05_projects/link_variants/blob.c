#include "gh.h"
int blob(void) { return GH + 2; }
