int sh(void); int inner(void); int vfn(void);
int main(void) { return sh() + inner() + vfn() == -1; }
