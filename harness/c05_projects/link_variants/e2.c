int inner(void); int blob(void);
int main(void) { return inner() + blob() == -1; }
