int outer(void); int bothfn(void);
int main(void) { return outer() + bothfn() == -1; }
