#include "gh.h"
int bothfn(void) { return GH + 3; }
