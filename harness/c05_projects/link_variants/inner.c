#include "gh.h"
int inner(void) { return GH; }
