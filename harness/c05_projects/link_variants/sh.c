int outer(void);
int sh(void) { return outer() + 1; }
