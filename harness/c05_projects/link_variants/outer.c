int inner(void);
int outer(void) { return inner() + 1; }
