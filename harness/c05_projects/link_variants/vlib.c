int vfn(void) { return 5; }
int hidden(void) { return 6; }
