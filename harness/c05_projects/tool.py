#!/usr/bin/env python3
"""Generator script of the C05 projects.  Every file it reads is named on its command line, and its outputs are a
function of the *contents* of the files it reads (so that a stale or missing input is visible in the bytes).

  tool.py hdr  OUT.h NAME [--inc HDR]... [--from FILE]... [--depfile D]
  tool.py src  OUT.c FUNC [--inc HDR]... [--use MACRO]... [--from FILE]...
  tool.py pair OUT.c OUT.h NAME ...      (both of the above: NAME() returns the macro NAME of OUT.h)
  tool.py cat  OUT FILE...               (or `cat - FILE...` to stdout)
  tool.py gen  IN OUT.c [OUT.h] [--from FILE]...     generator form: IN holds one identifier
  tool.py vers OUT.map SYMBOL...         linker version script
  tool.py multi OUT... [--from FILE]...  any number of outputs in any order: each OUT.h defines the macro <STEM>, each OUT.c
                                         includes every OUT.h of the same call and defines <stem>() returning their sum
"""
import os
import sys
import zlib


def value(files):
    v = 7
    for f in files:
        with open(f, 'rb') as fh:
            v = (v * 31 + zlib.crc32(fh.read())) % 9973
    return v


def opts(args):
    pos, o = [], {'--inc': [], '--from': [], '--use': [], '--depfile': []}
    i = 0
    while i < len(args):
        if args[i] in o:
            o[args[i]].append(args[i + 1])
            i += 2
        else:
            pos.append(args[i])
            i += 1
    return pos, o


def write(path, text):
    if path == '-':
        sys.stdout.write(text)
    else:
        with open(path, 'w') as f:
            f.write(text)


def hdr_text(name, o, v):
    guard = 'G_' + name.upper()
    t = f'#ifndef {guard}\n#define {guard}\n'
    for h in o['--inc']:
        t += f'#include "{h}"\n'
    t += f'#define {name} {v}\n#endif\n'
    return t


def src_text(func, o, v, own=None):
    t = ''
    for h in o['--inc'] + ([own] if own else []):
        t += f'#include "{h}"\n'
    expr = ' + '.join([str(v)] + o['--use'] + ([func.upper()] if own else []))
    t += f'int {func}(void) {{ return {expr}; }}\n'
    return t


def c_ident(stem):
    return ''.join(c if c.isalnum() else '_' for c in stem)


def main():
    cmd, args = sys.argv[1], sys.argv[2:]
    pos, o = opts(args)
    v = value(o['--from'])
    if cmd == 'hdr':
        write(pos[0], hdr_text(pos[1], o, v))
    elif cmd == 'src':
        write(pos[0], src_text(pos[1], o, v))
    elif cmd == 'pair':
        write(pos[1], hdr_text(pos[2].upper(), {'--inc': []}, v))
        write(pos[0], src_text(pos[2], o, v, os.path.basename(pos[1])))
    elif cmd == 'cat':
        data = ''
        for f in pos[1:] + o['--from']:
            with open(f, 'rb') as fh:
                data += '%s %d\n' % (os.path.basename(f), zlib.crc32(fh.read()))
        write(pos[0], data)
    elif cmd == 'gen':
        with open(pos[0]) as fh:
            ident = fh.read().split()[0]
        v = value([pos[0]] + o['--from'])
        if len(pos) > 2:
            write(pos[2], hdr_text(ident.upper(), o, v))
            write(pos[1], src_text(ident, {'--inc': [], '--use': o['--use']}, v, os.path.basename(pos[2])))
        else:
            write(pos[1], src_text(ident, o, v))
    elif cmd == 'multi':
        hs = [p for p in pos if p.endswith('.h')]
        for k, p in enumerate(pos):
            stem = os.path.basename(p).rsplit('.', 1)[0]
            if p.endswith('.h'):
                write(p, hdr_text(c_ident(stem).upper(), {'--inc': []}, v + k))
            else:
                t = ''.join(f'#include "{os.path.basename(h)}"\n' for h in hs)
                expr = ' + '.join([str(v + k)] + [c_ident(os.path.basename(h)[:-2]).upper() for h in hs])
                write(p, t + f'int {c_ident(stem)}(void) {{ return {expr}; }}\n')
    elif cmd == 'vers':
        write(pos[0], '{ global: %s local: *; };\n' % ''.join(s + '; ' for s in pos[1:]))
    else:
        sys.exit('bad command')
    for d in o['--depfile']:
        with open(d, 'w') as f:
            f.write('%s: %s\n' % (pos[0].replace(' ', '\\ '), ' '.join(x.replace(' ', '\\ ') for x in o['--from'])))


if __name__ == '__main__':
    main()
