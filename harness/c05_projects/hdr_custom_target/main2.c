#include "pair.h"
int main(void) { return PAIRFN == -1; }
