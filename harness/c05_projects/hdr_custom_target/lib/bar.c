#include <gen_config.h>
int bar(void) { return GEN_VALUE + 1; }
