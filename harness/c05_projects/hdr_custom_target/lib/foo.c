#include "gen_config.h"
int foo(void) { return GEN_VALUE; }
