#include "gen_config.h"
int foo(void); int bar(void); int version(void); int version2(void);
int main(void) { return foo() + bar() + version() + version2() + GEN_VALUE == -1; }
