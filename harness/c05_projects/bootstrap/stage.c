#include <stdio.h>
#ifdef NEXT
#include "stage1.h"
#else
#include "stage0.h"
#endif
int main(int argc, char **argv) {
  FILE *f = argc == 2 ? fopen(argv[1], "w") : 0;
  if (!f) return 1;
  fprintf(f, "#undef STAGE\n#define STAGE %d\n", STAGE + 1);
  return 0;
}
