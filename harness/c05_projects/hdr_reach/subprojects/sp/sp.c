#include "spver.h"
int spver(void);
int sp(void) { return SPVER + spver(); }
