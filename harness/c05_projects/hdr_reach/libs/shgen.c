#include "ver5.h"
int ver5(void);
int shgen(void) { return VER5 + ver5(); }
