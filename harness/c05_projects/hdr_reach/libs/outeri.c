int inner2(void);
int outeri(void) { return inner2() + 1; }
