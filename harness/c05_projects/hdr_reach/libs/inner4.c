#include "ver4.h"
int ver4(void);
int inner4(void) { return VER4 + ver4(); }
