#include "ver2.h"
int ver2(void);
int inner2(void) { return VER2 + ver2(); }
