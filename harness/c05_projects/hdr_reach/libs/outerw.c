int inner(void);
int outerw(void) { return inner() + 1; }
