#include "ver3.h"
int ver3(void);
int inner3(void) { return VER3 + ver3(); }
