#include "ver.h"
int ver(void);
int inner(void) { return VER + ver(); }
