#include "ver6.h"
int ver6(void);
int inner6(void) { return VER6 + ver6(); }
