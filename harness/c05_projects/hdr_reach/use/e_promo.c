#include "libs/libinner2.a.p/ver2.h"
int outeri(void); int inner2(void);
int main(void) { return outeri() + inner2() + VER2 == -1; }
