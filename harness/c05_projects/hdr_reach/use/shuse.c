#include "libs/libinner4.a.p/ver4.h"
int inner4(void);
int shuse(void) { return inner4() + VER4; }
