#include "libs/libinner3.a.p/ver3.h"
int inner3(void);
int mid(void) { return inner3() + VER3; }
