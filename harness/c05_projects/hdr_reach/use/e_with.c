#include "libs/libinner.a.p/ver.h"
int inner(void);
int main(void) { return inner() + VER == -1; }
