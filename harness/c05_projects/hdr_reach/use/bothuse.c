#include "libs/libshgen.so.p/ver5.h"
int shgen(void);
int bothuse(void) { return shgen() + VER5; }
