#include "libs/libinner.a.p/ver.h"
int outerw(void); int inner(void);
int main(void) { return outerw() + inner() + VER == -1; }
