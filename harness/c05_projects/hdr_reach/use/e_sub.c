#include <stdio.h>
#include "subprojects/sp/libsp.a.p/spver.h"
#include "libs/libinner6.a.p/ver6.h"
int sp(void); int inner6(void); int mid(void);
int main(void) { printf("%d\n", sp() + inner6() + mid() + SPVER + VER6); return 0; }
