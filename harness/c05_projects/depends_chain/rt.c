int rt_value(void) { return 11; }
