#include <stdio.h>
int rt_value(void);
int main(int argc, char **argv) {
  unsigned v = (unsigned)rt_value(); int c; FILE *f;
  if (argc != 2 || !(f = fopen(argv[1], "rb"))) return 2;
  while ((c = fgetc(f)) != EOF) v = (v * 31 + (unsigned)c) % 9973;
  printf("#define THIRD %u\n", v);
  return 0;
}
