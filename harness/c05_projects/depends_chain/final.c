#include "third.h"
#include "m.h"
int mfn(void);
int main(void) { return THIRD + MFN + mfn() == -1; }
