#include "core_gen.h"
int core(void) { return CORE_GEN; }
