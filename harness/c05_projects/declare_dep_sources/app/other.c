#include "helper2_gen.h"
int other(void) { return HELPER2_GEN; }
