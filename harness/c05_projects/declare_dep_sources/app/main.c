#include "core_gen.h"
#include "helper_gen.h"
int mid(void); int helper(void); int other(void);
int main(void) { return mid() + helper() + other() + CORE_GEN + HELPER_GEN == -1; }
