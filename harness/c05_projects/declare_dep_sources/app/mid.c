#include "core_gen.h"
#include "only.h"
int core(void);
int mid(void) { return core() + CORE_GEN + ONLY; }
