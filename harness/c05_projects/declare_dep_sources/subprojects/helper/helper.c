#include "helper_gen.h"
int helper(void) { return HELPER_GEN; }
