#include <stdio.h>
#include "pre.h"
#include "cfg.h"
int main(int argc, char **argv) {
  char name[64];
  FILE *in, *c, *h;
  if (argc != 4) return 1;
  in = fopen(argv[1], "r"); if (!in || fscanf(in, "%63s", name) != 1) return 2;
  c = fopen(argv[2], "w"); h = fopen(argv[3], "w"); if (!c || !h) return 3;
  fprintf(h, "#ifndef H_%s\n#define H_%s\n#define V_%s %d\nint %s(void);\n#endif\n", name, name, name, PRE_VALUE + CFG_BASE, name);
  fprintf(c, "#include \"%s.h\"\nint %s(void) { return V_%s; }\n", name, name, name);
  return 0;
}
