#include "gamma.h"
int use(void); int delta(void);
int main(void) { return use() + gamma() + V_gamma + delta() == -1; }
