#include "alpha.h"
#include "beta.h"
int use(void) { return alpha() + V_beta; }
