#include "uh.h"
int u1(void) { return UH; }
