#include "uh.h"
int u1(void); int u2(void); int u3(void); int u4(void); int usfn(void);
int main(void) { return u1() + u2() + u3() + u4() + usfn() + UH == -1; }
