#include "uh.h"
int u4(void) { return UH + 4; }
