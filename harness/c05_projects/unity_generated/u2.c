#include "us.h"
int u2(void) { return USFN; }
