#include "ugen.h"
int ugen(void);
int u3(void) { return UGEN + ugen(); }
