#include "use.h"
int main(void) { return USE == -1; }
