int p1(void) { return GH; }
