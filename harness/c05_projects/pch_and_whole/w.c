#include "idx.h"
int b(void); int blob(void); int p1(void); int p2(void);
int main(void) { return b() + blob() + p1() + p2() + IDX == -1; }
