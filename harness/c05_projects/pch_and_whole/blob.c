int blob(void) { return 3; }
