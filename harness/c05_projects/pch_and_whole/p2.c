int p2(void) { return GH + (int)sizeof(size_t); }
