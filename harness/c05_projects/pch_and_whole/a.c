int blob(void);
int a(void) { return blob(); }
