int a(void);
int b(void) { return a(); }
