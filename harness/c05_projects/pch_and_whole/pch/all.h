#include "gh.h"
#include <stddef.h>
