#define XVAL 1
