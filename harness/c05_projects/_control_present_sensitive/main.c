#include <x.h>
int v = XVAL;
int main(void) { return v == -1; }
