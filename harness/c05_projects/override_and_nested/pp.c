#include "o1.h"
int pp = O1;
