#include <stdio.h>
#include "th.h"
int main(int argc, char **argv) {
  FILE *f = argc >= 3 ? fopen(argv[1], "w") : 0;
  if (!f) return 1;
  fprintf(f, "#define %s %d\n", argv[2], TH);
  return 0;
}
