int arch(void) { return 3; }
