#include "o1.h"
#include "x.h"
int arch(void);
int main(void) { return O1 + GENNED + arch() == -1; }
