"""C02 — parsing is total, lossless and position-accurate.

Correspondence: mparser.Parser / RawPrinter / (a full walk of the real node objects) against the Lean
model `MesonModel.Lang` (driver `mvdriver-lang`) on accept/reject, exception class, error line/column,
printed text, tree shape (every node, symbol and whitespace child) and every position field.

Independent oracle (no model in the loop), from the property statement:
  * every exception is a MesonException carrying lineno/colno that address a point inside the text,
  * RawPrinter(parse(s)) == s,
  * for every FunctionNode / ArrayNode the text cut by (lineno, colno, end_lineno, end_colno) is exactly
    the printed construct (name/bracket … closing bracket).
"""
from __future__ import annotations

import itertools
import multiprocessing as mp
import os
import re
import sys
import typing as T
import unicodedata

from . import common
from .common import Ctx, enc

ID = 'C02'
LEVEL = 'proof'
LEAN_TARGETS = ['MesonModel.Props.C02']
AREAS = ['lang']
PINS = [
    'mesonbuild.mparser:Lexer', 'mesonbuild.mparser:Parser', 'mesonbuild.mparser:Token',
    'mesonbuild.mparser:decode_match', 'mesonbuild.mparser:BaseNode', 'mesonbuild.mparser:WhitespaceNode',
    'mesonbuild.mparser:ElementaryNode', 'mesonbuild.mparser:NumberNode', 'mesonbuild.mparser:StringNode',
    'mesonbuild.mparser:ArgumentNode', 'mesonbuild.mparser:ArrayNode', 'mesonbuild.mparser:DictNode',
    'mesonbuild.mparser:EmptyNode', 'mesonbuild.mparser:BinaryOperatorNode', 'mesonbuild.mparser:ComparisonNode',
    'mesonbuild.mparser:ArithmeticNode', 'mesonbuild.mparser:UnaryOperatorNode', 'mesonbuild.mparser:CodeBlockNode',
    'mesonbuild.mparser:IndexNode', 'mesonbuild.mparser:MethodNode', 'mesonbuild.mparser:FunctionNode',
    'mesonbuild.mparser:AssignmentNode', 'mesonbuild.mparser:ForeachClauseNode', 'mesonbuild.mparser:IfNode',
    'mesonbuild.mparser:ElseNode', 'mesonbuild.mparser:IfClauseNode', 'mesonbuild.mparser:TernaryNode',
    'mesonbuild.mparser:ParenthesizedNode',
    'mesonbuild.ast.visitor:FullAstVisitor', 'mesonbuild.ast.printer:RawPrinter',
]
TRUSTED = [
    'domain: ASCII plus non-ASCII code points that CPython classes as neither digit, letter nor space; '
    'no \\uD800-\\uDFFF escapes; number literals shorter than 4300 digits; nesting depth <= 40 '
    '(RecursionError is a CPython resource limit); MESON_RUNNING_IN_PROJECT_TESTS unset (no testcase blocks)',
    'the Unicode name table behind \\N{...} is a parameter of the model (resolved by Python unicodedata)',
    'line/column "inside the text" is read as: line exists and line offset + column <= len(text) '
    '(columns past the end of their own line are counted in the distribution, not reported)',
    'a leading BOM is rejected with lineno=0/colno=0 by Lexer.__init__; position check skipped for it',
]

os.environ.pop('MESON_RUNNING_IN_PROJECT_TESTS', None)

# ------------------------------------------------------------------ implementation adapters


def impl():
    from mesonbuild import mparser, mlog
    from mesonbuild.ast.printer import RawPrinter
    from mesonbuild.mesonlib import MesonException
    mlog._logger.log_disable_stdout = True
    return mparser, RawPrinter, MesonException


def json_spans(tree) -> T.List[T.Tuple[str, int, int, int, int]]:
    """(node, lineno, colno, end_lineno, end_colno) of every call/array entry of AstJSONPrinter's output"""
    from mesonbuild.ast.printer import AstJSONPrinter
    p = AstJSONPrinter()
    tree.accept(p)
    out = []
    stack: T.List[T.Any] = [p.result]
    while stack:
        x = stack.pop()
        if isinstance(x, dict):
            if x.get('node') in ('FunctionNode', 'ArrayNode'):
                out.append((x['node'], x['lineno'], x['colno'], x['end_lineno'], x['end_colno']))
            stack.extend(x.values())
        elif isinstance(x, list):
            stack.extend(x)
    return sorted(out)


def S(s: str) -> str:
    return 's' + '.'.join(str(ord(c)) for c in s)


def _base(n) -> str:
    return f'{n.lineno}:{n.colno}:{n.end_lineno}:{n.end_colno}'


def _ws(w) -> str:
    return 'w-' if w is None else f'w{w.lineno}:{w.colno}:{S(w.value)}'


def _span(n) -> str:
    return f'{n.bytespan[0]}:{n.bytespan[1]}'


def sexp(n) -> str:
    """canonical rendering of a real node object; same format as MesonModel/Lang/Sexp.lean"""
    k = type(n).__name__
    w = _ws(n.whitespaces)
    b = _base(n)
    L = lambda xs: ' '.join(sexp(x) for x in xs)
    if k == 'BooleanNode':
        return f'(Bool {b} {_span(n)} {int(bool(n.value))} {w})'
    if k == 'IdNode':
        return f'(Id {b} {_span(n)} {S(n.value)} {w})'
    if k == 'NumberNode':
        return f'(Num {b} {_span(n)} {S(n.raw_value)} {n.value} {w})'
    if k == 'StringNode':
        return f'(Str {b} {_span(n)} {S(n.raw_value)} {S(n.value)} {int(n.is_multiline)} {int(n.is_fstring)} {w})'
    if k == 'ContinueNode':
        return f'(Continue {b} {_span(n)} {w})'
    if k == 'BreakNode':
        return f'(Break {b} {_span(n)} {w})'
    if k == 'SymbolNode':
        return f'(Sym {b} {_span(n)} {S(n.value)} {w})'
    if k == 'EmptyNode':
        return f'(Empty {b} {w})'
    if k == 'ArgumentNode':
        return (f'(Args {b} [{L(n.arguments)}] [{L(n.commas)}] [{L(n.colons)}] [{L(n.kwargs.keys())}] '
                f'[{L(n.kwargs.values())}] {int(n.order_error)} {w})')
    if k == 'ArrayNode':
        return f'(Array {b} {sexp(n.lbracket)} {sexp(n.args)} {sexp(n.rbracket)} {w})'
    if k == 'DictNode':
        return f'(Dict {b} {sexp(n.lcurl)} {sexp(n.args)} {sexp(n.rcurl)} {w})'
    if k in ('OrNode', 'AndNode'):
        return f'({k[:-4]} {b} {sexp(n.left)} {sexp(n.operator)} {sexp(n.right)} {w})'
    if k == 'ComparisonNode':
        return f'(Cmp {b} {S(n.ctype)} {sexp(n.left)} {sexp(n.operator)} {sexp(n.right)} {w})'
    if k == 'ArithmeticNode':
        return f'(Arith {b} {S(n.operation)} {sexp(n.left)} {sexp(n.operator)} {sexp(n.right)} {w})'
    if k == 'NotNode':
        return f'(Not {b} {sexp(n.operator)} {sexp(n.value)} {w})'
    if k == 'UMinusNode':
        return f'(UMinus {b} {sexp(n.operator)} {sexp(n.value)} {w})'
    if k == 'CodeBlockNode':
        return f'(Block {b} {_ws(n.pre_whitespaces)} [{L(n.lines)}] {w})'
    if k == 'IndexNode':
        return f'(Index {b} {sexp(n.iobject)} {sexp(n.lbracket)} {sexp(n.index)} {sexp(n.rbracket)} {w})'
    if k == 'MethodNode':
        return (f'(Method {b} {sexp(n.source_object)} {sexp(n.dot)} {sexp(n.name)} {sexp(n.lpar)} '
                f'{sexp(n.args)} {sexp(n.rpar)} {w})')
    if k == 'FunctionNode':
        return f'(Func {b} {sexp(n.func_name)} {sexp(n.lpar)} {sexp(n.args)} {sexp(n.rpar)} {w})'
    if k in ('AssignmentNode', 'PlusAssignmentNode'):
        return f'({k[:-8]} {b} {sexp(n.var_name)} {sexp(n.operator)} {sexp(n.value)} {w})'
    if k == 'ForeachClauseNode':
        return (f'(Foreach {b} {sexp(n.foreach_)} [{L(n.varnames)}] [{L(n.commas)}] {sexp(n.colon)} '
                f'{sexp(n.items)} {sexp(n.block)} {sexp(n.endforeach)} {w})')
    if k == 'IfNode':
        return f'(If {b} {sexp(n.if_)} {sexp(n.condition)} {sexp(n.block)} {w})'
    if k == 'ElseNode':
        return f'(Else {b} {sexp(n.else_)} {sexp(n.block)} {w})'
    if k == 'IfClauseNode':
        return f'(IfClause {b} [{L(n.ifs)}] {sexp(n.elseblock)} {sexp(n.endif)} {w})'
    if k == 'TernaryNode':
        return (f'(Ternary {b} {sexp(n.condition)} {sexp(n.questionmark)} {sexp(n.trueblock)} '
                f'{sexp(n.colon)} {sexp(n.falseblock)} {w})')
    if k == 'ParenthesizedNode':
        return f'(Paren {b} {sexp(n.lpar)} {sexp(n.inner)} {sexp(n.rpar)} {w})'
    return f'(?{k})'


def children(n) -> T.List[T.Any]:
    k = type(n).__name__
    if k == 'ArgumentNode':
        return list(n.arguments) + list(n.kwargs.keys()) + list(n.kwargs.values())
    if k in ('ArrayNode', 'DictNode', 'FunctionNode'):
        return [n.args]
    if k in ('OrNode', 'AndNode', 'ComparisonNode', 'ArithmeticNode'):
        return [n.left, n.right]
    if k in ('NotNode', 'UMinusNode'):
        return [n.value]
    if k == 'CodeBlockNode':
        return list(n.lines)
    if k == 'IndexNode':
        return [n.iobject, n.index]
    if k == 'MethodNode':
        return [n.source_object, n.args]
    if k in ('AssignmentNode', 'PlusAssignmentNode'):
        return [n.value]
    if k == 'ForeachClauseNode':
        return [n.items, n.block]
    if k == 'IfNode':
        return [n.condition, n.block]
    if k == 'ElseNode':
        return [n.block]
    if k == 'IfClauseNode':
        return list(n.ifs) + [n.elseblock]
    if k == 'TernaryNode':
        return [n.condition, n.trueblock, n.falseblock]
    if k == 'ParenthesizedNode':
        return [n.inner]
    return []


def walk(n):
    stack = [n]
    while stack:
        x = stack.pop()
        yield x
        stack.extend(children(x))


def walk_all(n):
    """every node object reachable from `n`: symbols, whitespace nodes, keys and values included"""
    from mesonbuild.mparser import BaseNode
    stack = [n]
    seen = set()
    while stack:
        x = stack.pop()
        if id(x) in seen:
            continue
        seen.add(id(x))
        yield x
        for v in vars(x).values():
            if isinstance(v, BaseNode):
                stack.append(v)
            elif isinstance(v, (list, tuple)):
                stack.extend(y for y in v if isinstance(y, BaseNode))
            elif isinstance(v, dict):
                for kk, vv in v.items():
                    if isinstance(kk, BaseNode):
                        stack.append(kk)
                    if isinstance(vv, BaseNode):
                        stack.append(vv)


_NAME_RE = re.compile(r'\\N\{([^}]+)\}')


def names_field(code: str) -> str:
    """resolve the \\N{name} escapes that occur in `code` with the Unicode database (model parameter)"""
    if '\\N{' not in code:
        return ''
    items = []
    for nm in sorted(set(_NAME_RE.findall(code))):
        try:
            ch = ('\\N{' + nm + '}').encode().decode('unicode_escape')
        except Exception:
            continue
        if len(ch) == 1:
            items.append(f'{enc(nm)}={ord(ch)}')
    return ','.join(items)


TRIVIA = ('eol', 'comment', 'whitespace')
EXPR_END = ('id', 'number', 'string', 'fstring', 'multiline_string', 'multiline_fstring', 'rparen', 'rbracket',
            'rcurl', 'true', 'false')


def _sig_tokens(mparser, text: str):
    return [(t.tid, t.value) for t in mparser.Lexer(text).lex('f') if t.tid not in TRIVIA]


def classify_roundtrip(mparser, code: str, printed: str, tree) -> str:
    """name the way in which print(parse(code)) differs from code (oracle side, implementation only)"""
    if any(type(n).__name__ == 'ArgumentNode' and n.order_error for n in walk(tree)):
        return 'roundtrip:kwarg-before-positional'
    try:
        full = [(t.tid, t.value) for t in mparser.Lexer(code).lex('f') if t.tid not in ('comment', 'whitespace')]
        out = _sig_tokens(mparser, printed)
    except Exception:
        return 'roundtrip:other'
    # a `not` that e4 can consume and lose: it follows something that ends an operand (or a unary operator,
    # whose operand is parsed one level below `not`), and the very next token (newlines count) is not `in`
    src = []
    can_drop = []
    for i, t in enumerate(full):
        if t[0] == 'eol':
            continue
        src.append(t)
        can_drop.append(t[0] == 'not' and i > 0 and full[i - 1][0] in EXPR_END + ('dash', 'not') and
                        (i + 1 == len(full) or full[i + 1][0] != 'in'))

    def droppable(i: int) -> bool:
        return can_drop[i]
    reach = {0}           # possible numbers of dropped tokens after aligning src[:i]
    for i in range(len(src)):
        nxt = set()
        for d in reach:
            j = i - d
            if j < len(out) and src[i] == out[j]:
                nxt.add(d)
            if droppable(i):
                nxt.add(d + 1)
        reach = nxt
        if not reach:
            return 'roundtrip:other'
    d = len(src) - len(out)
    if d in reach:
        return 'roundtrip:dangling-not-dropped' if d > 0 else 'roundtrip:trivia-only'
    return 'roundtrip:other'


def line_offsets(code: str) -> T.List[int]:
    offs = [0]
    for i, ch in enumerate(code):
        if ch == '\n':
            offs.append(i + 1)
    return offs


def addr_of(code: str, off: int) -> T.Tuple[int, int]:
    """the line/column of offset `off`, from the text alone: 1 + number of newline characters before it, and
    the distance back to the previous newline character (written from the property statement; shares nothing
    with the lexer's bookkeeping or the line table)"""
    return 1 + code.count('\n', 0, off), off - (code.rfind('\n', 0, off) + 1)


def lex_stream(mparser, MesonException, code: str) -> T.Tuple[str, T.List[T.Tuple[str, str]]]:
    """token stream of the real `Lexer.lex` in the format of the driver command `lex` (every token, trivia
    included, with line_start, lineno, colno, bytespan start AND end), and the position oracle on it"""
    toks: T.List[str] = []
    viol: T.List[T.Tuple[str, str]] = []
    tail = ''
    prev_end = 0
    try:
        for t in mparser.Lexer(code).lex('f'):
            toks.append(f'{t.tid}:{t.line_start}:{t.lineno}:{t.colno}:{t.bytespan[0]}:{t.bytespan[1]}:{S(t.value)}')
            if not viol:
                a, b = t.bytespan
                if a != prev_end or b <= a or b > len(code):
                    viol.append(('position:token-span', f'token {t.tid} has bytespan {t.bytespan} after a token ending at {prev_end}'))
                elif (t.lineno, t.colno) != addr_of(code, a):
                    viol.append(('position:token-line-column',
                                 f'token {t.tid} {code[a:b]!r} at offset {a} is recorded at {t.lineno}:{t.colno}; '
                                 f'the text puts that offset at {addr_of(code, a)[0]}:{addr_of(code, a)[1]}'))
                prev_end = b
    except mparser.ParseException as e:
        tail = f' !{e.lineno}:{e.colno}'
    except RecursionError:
        return '', []
    except Exception as e:
        tail = f' !internal:{type(e).__name__}'
    return ' '.join(toks) + tail, viol


def multiline_token_text(code: str) -> bool:
    """texts in which a token can span lines or a '\\r' occurs (always included in the lexer stream comparison)"""
    return '\\' in code or "'''" in code or '\r' in code or ("'" in code and '\n' in code)


def raw_print(RawPrinter, node) -> str:
    p = RawPrinter()
    node.accept(p)
    return p.result


class Outcome(T.NamedTuple):
    canon: str            # canonical answer to compare with the model ('' = skip comparison)
    violations: T.List[T.Tuple[str, str]]
    tags: T.List[str]
    accepted: bool


def run_one(mods, code: str) -> Outcome:
    """run the real parser/printer on `code`; canonical outcome + property oracle"""
    mparser, RawPrinter, MesonException = mods
    viol: T.List[T.Tuple[str, str]] = []
    tags: T.List[str] = []
    try:
        tree = mparser.Parser(code, 'f').parse()
    except RecursionError:
        return Outcome('', [], ['skip:RecursionError'], False)
    except mparser.ParseException as e:
        cls = type(e).__name__
        tags.append('impl:' + cls)
        canon = f'ERR:{cls}:{e.lineno}:{e.colno}'
        if not isinstance(e, MesonException):
            viol.append(('exception-class:' + cls, 'ParseException is not a MesonException'))
        if code.startswith('\ufeff'):
            tags.append('bom')
        else:
            offs = line_offsets(code)
            ln, col = e.lineno, e.colno
            if not (isinstance(ln, int) and isinstance(col, int) and 1 <= ln <= len(offs) and
                    0 <= col and offs[ln - 1] + col <= len(code)):
                viol.append(('error-position-outside-text', f'ParseException at {ln}:{col} is outside the text'))
            else:
                end = offs[ln] - 1 if ln < len(offs) else len(code)
                if offs[ln - 1] + col > end:
                    tags.append('note:error-column-past-end-of-its-line')
        return Outcome(canon, viol, tags, False)
    except MesonException as e:
        tags.append('impl:MesonException')
        viol.append(('unlocated-meson-exception', f'{type(e).__name__} without ParseException position'))
        return Outcome('ERR:MesonException', viol, tags, False)
    except Exception as e:  # a Python-internal error escaped the parser
        cls = type(e).__name__
        msg = str(e)
        if cls == 'TypeError' and 'unhashable' in msg:
            sub = 'unhashable'
        elif cls == 'UnicodeDecodeError' and 'illegal Unicode character' in msg:
            sub = 'illegal'
        elif cls == 'UnicodeDecodeError' and 'unknown Unicode character name' in msg:
            sub = 'unknown'
        else:
            sub = 'other'
        tags.append(f'impl:internal:{cls}')
        viol.append((f'internal-error:{cls}:{sub}', f'{cls} escaped the parser: {msg[:80]}'))
        return Outcome(f'ERR:{cls}:{sub}', viol, tags, False)
    # accepted
    tags.append('impl:accepted')
    try:
        printed = raw_print(RawPrinter, tree)
    except Exception as e:
        viol.append((f'printer-error:{type(e).__name__}', f'RawPrinter raised {type(e).__name__}: {e}'))
        return Outcome('', viol, tags, True)
    rt_ok = printed == code
    if any(type(n).__name__ == 'ArgumentNode' and n.order_error for n in walk(tree)):
        # "the side condition is exactly what the printer reorders": evidence only, no verdict
        tags.append('impl:order-error:' + ('printed-faithfully' if rt_ok else 'printed-reordered'))
    if not rt_ok:
        key = classify_roundtrip(mparser, code, printed, tree)
        viol.append((key, 'RawPrinter(parse(s)) != s'))
        tags.append(key)
    else:
        # positions (only meaningful when the print is faithful). Everything is recomputed from the input text
        # with an independent '\n'-only line table; the reference text of a construct is taken twice, again
        # independently: printed by RawPrinter from its parts, and cut by the lexer's own offsets (bytespan),
        # which do not depend on the line bookkeeping.
        offs = line_offsets(code)

        def at(ln: int, col: int) -> T.Optional[int]:
            if isinstance(ln, int) and isinstance(col, int) and 1 <= ln <= len(offs) and col >= 0:
                return offs[ln - 1] + col
            return None

        for n in walk_all(tree):
            k = type(n).__name__
            bad: T.Optional[str] = None
            key = 'span:other'
            if k in ('FunctionNode', 'MethodNode', 'ArrayNode'):
                if k == 'FunctionNode':
                    first, last = n.func_name, n.rpar
                    core = raw_print(RawPrinter, n.func_name) + raw_print(RawPrinter, n.lpar) + \
                        raw_print(RawPrinter, n.args) + n.rpar.value
                elif k == 'MethodNode':      # the recorded extent of a method call starts at the method name
                    first, last = n.name, n.rpar
                    core = raw_print(RawPrinter, n.name) + raw_print(RawPrinter, n.lpar) + \
                        raw_print(RawPrinter, n.args) + n.rpar.value
                else:
                    first, last = n.lbracket, n.rbracket
                    core = raw_print(RawPrinter, n.lbracket) + raw_print(RawPrinter, n.args) + n.rbracket.value
                tags.append('span:' + k)
                a, b = at(n.lineno, n.colno), at(n.end_lineno, n.end_colno)
                cut = code[a:b] if a is not None and b is not None else None
                by_offsets = code[first.bytespan[0]:last.bytespan[1]]
                if cut != core or cut != by_offsets:
                    bad = (f'text[span] of {k} at {n.lineno}:{n.colno}-{n.end_lineno}:{n.end_colno} is {cut!r}, '
                           f'construct is {core!r}')
                elif (n.lineno, n.colno) != addr_of(code, first.bytespan[0]) or \
                        (n.end_lineno, n.end_colno) != addr_of(code, last.bytespan[1]):
                    # the same text can be cut by a wrong line number with a compensating column: the extent
                    # must be the line/column of its two ends
                    key = 'position:extent-line-column'
                    bad = (f'{k} {core!r} is recorded at {n.lineno}:{n.colno}-{n.end_lineno}:{n.end_colno}; its ends are '
                           f'at {addr_of(code, first.bytespan[0])} and {addr_of(code, last.bytespan[1])}')
            elif k in ('IdNode', 'NumberNode', 'StringNode', 'BooleanNode', 'SymbolNode') and \
                    getattr(n, 'bytespan', (0, 0)) != (0, 0):
                # a token's line/column must address the character at which the lexer found it
                a = at(n.lineno, n.colno)
                if a != n.bytespan[0] or (n.lineno, n.colno) != addr_of(code, n.bytespan[0]):
                    key = 'position:token-line-column'
                    bad = (f'{k} {code[n.bytespan[0]:n.bytespan[1]]!r} found at offset {n.bytespan[0]} is recorded at '
                           f'{n.lineno}:{n.colno}, which is offset {a}')
            elif k == 'WhitespaceNode':
                a = at(n.lineno, n.colno)
                if a is None or code[a:a + len(n.value)] != n.value:
                    key = 'position:token-line-column'
                    bad = f'whitespace/comment {n.value!r} is recorded at {n.lineno}:{n.colno}, where the text differs'
            if bad:
                viol.append((key, bad))
                tags.append(key)
                break
    # second observation route: the spans AstJSONPrinter reports are the ones on the node objects
    try:
        direct = sorted((type(n).__name__, n.lineno, n.colno, n.end_lineno, n.end_colno)
                        for n in walk(tree) if type(n).__name__ in ('FunctionNode', 'ArrayNode'))
        if json_spans(tree) != direct:
            tags.append('json-printer-spans-differ')
    except Exception as e:
        tags.append('json-printer-error:' + type(e).__name__)
    e = '=' if rt_ok else S(printed)
    return Outcome(f'OK|{e}|{sexp(tree)}', viol, tags, True)


def model_canon(ans: str) -> str:
    """drop the model-only ghost field (dropped-not counter) from a `parse` answer"""
    if ans.startswith('OK|'):
        _ok, _dropped, rest = ans.split('|', 2)
        return 'OK|' + rest
    return ans


# ------------------------------------------------------------------ generators

ALPHA26 = ['a', '1', "'s'", '(', ')', '[', ']', '{', '}', ',', ':', '.', '=', '+=', '+', '-', '*', '==', '?',
           'not', 'in', 'and', 'or', '\n', 'if', 'endif']
EXTRA = ['else', 'elif', 'foreach', 'endforeach', 'true', 'false', 'continue', 'break', '<', '!=', '%', '/',
         "f's'", "'''m\nn'''", '#c', '\\\n', '0x1F', '>=', 'b', '2', "'\\n'", '"', '0b2', "f'''x'''"]
SMALL12 = ['a', '1', '(', ')', '[', ']', ',', ':', '=', 'not', 'in', '\n']
SOUP_TRIVIA = [' ', ' ', ' ', '', '', '  ', '\t', ' #x\n', '\\\n', '\n', ' \\ #c\n', '\n\n', ' \\\n ']
INERT = ['é', '€', '中', '\x7f', '\x00', '\x0c', '\r', '\x1f', '`', '!', '@', '$', '&', ';', '|', '~', '^', '\\']


def render(tokens: T.Sequence[str]) -> str:
    return ' '.join(tokens)


def gen_exhaustive(alpha: T.List[str], length: int, prefix: T.Tuple[str, ...]) -> T.Iterator[str]:
    for rest in itertools.product(alpha, repeat=length - len(prefix)):
        yield render(prefix + rest)


class Gen:
    """structured, mostly valid programs with trivia; a malformed stream on top"""

    IDS = ['a', 'b', 'foo', 'x_1', '_y', 'sources', 'dep', 'f', 'notx', 'inx', 'iff', 'true_', 'e1', 'returnx']
    STRS = ["'s'", "''", "'a b'", "'\\n'", "'\\\\'", "'\\''", "'\\x41\\101\\u00e9'", "'a\\qb'", "'@0@'",
            "'é€'", "'#no comment'", "'\\U0001F600'", "'\\7\\78\\777'", "'\\xg'", "'a\\\\'", "'\\N{DIGIT ONE}'",
            "f's @x@'", "f''", "'''m'''", "'''a\nb'''", "''''''", "'''it's'''", "f'''x\n\ny'''", "'''\\'''",
            "'''a''b'''", "'''\n'''", "'a\nb'", "f'\n'", "f'p\n\nq'"]
    NUMS = ['0', '1', '42', '0x1F', '0XaB', '0b101', '0B1', '0o17', '0O7', '007', '0b', '0x', '1_0', '10a', '0b12',
            '123456789012345678901234567890']
    BIN = ['+', '-', '*', '/', '%', '==', '!=', '<', '<=', '>', '>=', 'and', 'or', 'in', 'not in', 'not  in',
           'not\\\nin']

    def __init__(self, rng, hostile: float):
        self.rng = rng
        self.hostile = hostile
        self.in_br = 0

    def sp(self) -> str:
        r = self.rng.random()
        if r < 0.55:
            return ' '
        if r < 0.8:
            return ''
        if r < 0.86:
            return '  '
        if r < 0.9:
            return '\t'
        if r < 0.94:
            return ' \\\n  '
        if self.in_br > 0:
            return self.rng.choice(['\n', '\n    ', ' # c\n  ', '\n\n'])
        return self.rng.choice([' ', ' \\ # cc\n'])

    def nl(self) -> str:
        r = self.rng.random()
        if r < 0.7:
            return '\n'
        if r < 0.8:
            return ' # comment\n'
        if r < 0.9:
            return '\n\n'
        return '  \n# full line comment é\n'

    def ident(self) -> str:
        return self.rng.choice(self.IDS)

    def args(self, d: int) -> str:
        rng = self.rng
        n = rng.choice([0, 0, 1, 1, 2, 3])
        items = []
        for _ in range(n):
            items.append(self.expr(d - 1))
        nk = rng.choice([0, 0, 0, 1, 2])
        kws = [self.ident() + self.sp() + ':' + self.sp() + self.expr(d - 1) for _ in range(nk)]
        if kws and items and rng.random() < self.hostile:
            items, kws = kws, items  # keyword before positional
        alli = items + kws
        s = ''
        for i, it in enumerate(alli):
            s += it
            if i + 1 < len(alli) or rng.random() < 0.2:
                s += self.sp() + ',' + self.sp()
        return s

    def kvs(self, d: int) -> str:
        rng = self.rng
        n = rng.choice([0, 1, 1, 2, 3])
        s = ''
        for i in range(n):
            key = self.expr(d - 1) if rng.random() < 0.3 else rng.choice(self.STRS[:8])
            if rng.random() < self.hostile * 0.5:
                key = rng.choice(['-', 'not', '1 +', '()', 'a[]', '- -1', 'not not a'])
            s += key + self.sp() + ':' + self.sp() + self.expr(d - 1)
            if i + 1 < n or rng.random() < 0.2:
                s += self.sp() + ',' + self.sp()
        return s

    def expr(self, d: int) -> str:
        rng = self.rng
        if d <= 0 or rng.random() < 0.25:
            r = rng.random()
            if r < 0.35:
                return self.ident()
            if r < 0.5:
                return rng.choice(self.NUMS)
            if r < 0.85:
                return rng.choice(self.STRS)
            return rng.choice(['true', 'false'])
        k = rng.randrange(16)
        sp = self.sp
        if k == 0:
            self.in_br += 1
            s = '(' + sp() + self.expr(d - 1) + sp() + ')'
            self.in_br -= 1
            return s
        if k in (1, 2):
            self.in_br += 1
            s = '[' + sp() + self.args(d) + sp() + ']'
            self.in_br -= 1
            return s
        if k == 3:
            self.in_br += 1
            s = '{' + sp() + self.kvs(d) + sp() + '}'
            self.in_br -= 1
            return s
        if k in (4, 5):
            self.in_br += 1
            s = self.ident() + sp() + '(' + sp() + self.args(d) + sp() + ')'
            self.in_br -= 1
            return s
        if k in (6, 7):
            self.in_br += 1
            s = self.expr(d - 1) + sp() + '.' + sp() + self.ident() + sp() + '(' + sp() + self.args(d) + sp() + ')'
            self.in_br -= 1
            return s
        if k == 8:
            self.in_br += 1
            s = self.expr(d - 1) + sp() + '[' + sp() + self.expr(d - 1) + sp() + ']'
            self.in_br -= 1
            return s
        if k == 9:
            return rng.choice(['not ', '-', '- ', 'not\t']) + self.expr(d - 1)
        if k in (10, 11, 12):
            op = rng.choice(self.BIN)
            return self.expr(d - 1) + ' ' + sp() + op + sp() + ' ' + self.expr(d - 1)
        if k == 13:
            return self.expr(d - 1) + sp() + '?' + sp() + self.expr(d - 1) + sp() + ':' + sp() + self.expr(d - 1)
        if k == 14 and rng.random() < self.hostile:
            return self.expr(d - 1) + ' not'   # dangling not
        return self.ident()

    def stmt(self, d: int, indent: str) -> str:
        rng = self.rng
        k = rng.randrange(12)
        sp = self.sp
        if k in (0, 1, 2):
            return indent + self.ident() + sp() + rng.choice(['=', '=', '+=']) + sp() + self.expr(d)
        if k in (3, 4):
            return indent + self.expr(d)
        if k == 5 and d > 0:
            s = indent + 'if' + ' ' + self.expr(d - 1) + self.nl() + self.block(d - 1, indent + '  ')
            for _ in range(rng.choice([0, 0, 1, 2])):
                s += indent + 'elif ' + self.expr(d - 1) + self.nl() + self.block(d - 1, indent + '  ')
            if rng.random() < 0.4:
                s += indent + 'else' + self.nl() + self.block(d - 1, indent + '  ')
            return s + indent + 'endif'
        if k == 6 and d > 0:
            v = self.ident() + (sp() + ',' + sp() + self.ident() if rng.random() < 0.3 else '')
            return (indent + 'foreach ' + v + sp() + ':' + sp() + self.expr(d - 1) + self.nl() +
                    self.block(d - 1, indent + '  ') + indent + 'endforeach')
        if k == 7:
            return indent + rng.choice(['continue', 'break'])
        if k == 8:
            return indent
        return indent + self.ident() + sp() + '(' + self.args_br(d) + ')'

    def args_br(self, d: int) -> str:
        self.in_br += 1
        s = self.sp() + self.args(d) + self.sp()
        self.in_br -= 1
        return s

    def block(self, d: int, indent: str) -> str:
        return ''.join(self.stmt(d, indent) + self.nl() for _ in range(self.rng.choice([0, 1, 1, 2, 3])))

    def program(self) -> str:
        rng = self.rng
        d = rng.choice([1, 2, 2, 3, 4])
        s = self.block(d, '') + (self.stmt(d, '') if rng.random() < 0.5 else '')
        if rng.random() < self.hostile:
            s = mutate(rng, s, rng.choice([1, 1, 2]))
        return s


MUT_CHARS = list("'\"()[]{},:.=+-*/%<>?!#\\\n \t") + ['a', '0', '9', 'f', 'x', '_'] + INERT
MUT_WORDS = [' not ', ' in ', ' and ', ' or ', 'if ', '\nendif\n', '\nelse\n', 'elif ', 'foreach ', '\nendforeach\n',
             "'''", "f'", '\\\n', '\\N{foo}', '\\UFFFFFFFF', '\\U0010FFFF', '+=', '==', '!=', ' : ', 'true', '0x', '\ufeff']


def mutate(rng, s: str, n: int) -> str:
    for _ in range(n):
        if not s:
            s = rng.choice(MUT_CHARS)
            continue
        i = rng.randrange(len(s) + 1)
        k = rng.randrange(7)
        if k == 0 and i < len(s):
            s = s[:i] + s[i + 1:]
        elif k == 1:
            s = s[:i] + rng.choice(MUT_CHARS) + s[i:]
        elif k == 2 and i < len(s):
            s = s[:i] + rng.choice(MUT_CHARS) + s[i + 1:]
        elif k == 3:
            s = s[:i] + rng.choice(MUT_WORDS) + s[i:]
        elif k == 4:
            j = min(len(s), i + rng.randrange(1, 12))
            s = s[:i] + s[j:]
        elif k == 5 and i + 1 < len(s):
            s = s[:i] + s[i + 1] + s[i] + s[i + 2:]
        else:
            s = s[:i]
    return s


def soup(rng, maxlen: int) -> str:
    alpha = ALPHA26 + EXTRA
    n = rng.randint(1, maxlen)
    out = []
    for _ in range(n):
        out.append(rng.choice(alpha))
        out.append(rng.choice(SOUP_TRIVIA))
    return ''.join(out)


# families that aim at one mechanism each (strings/escapes, `not in` trivia, newline bookkeeping, nesting)
def targeted(rng) -> str:
    k = rng.randrange(10)
    if k == 0:   # escapes
        body = ''.join(rng.choice(['\\n', '\\\\', "\\'", '\\x4', '\\x41', '\\u00e9', '\\U0001F600', '\\UFFFFFFFF',
                                   '\\U00110000', '\\777', '\\8', '\\N{foo}', '\\N{DIGIT ONE}', '\\N{}', '\\N{a',
                                   'a', ' ', '#', 'é', '\\q', '\\U1234', '\\u12', '\\0', '@0@'])
                       for _ in range(rng.randint(0, 6)))
        return rng.choice(['x = ', '', 'f(', '[']) + rng.choice(["'", "f'", "'''", "f'''"]).replace("'''", "'''") + body + \
            rng.choice(["'", "'''", "'\n", "')\n", "']\n"])
    if k == 1:   # not in with trivia
        tr = rng.choice([' ', '  ', '\t', ' \\\n', '\\\n ', ' #c\n', '\n', ' \\ #x\n\t'])
        par = rng.random() < 0.5
        s = 'a not' + tr + 'in b'
        return ('(' + s + ')\n') if par else ('x = ' + s + '\n')
    if k == 2:   # newline inside single-quoted string, then positions
        return rng.choice(["x = 'a\nb'\n", "f('a\n\nb', [1])\n", "y = f'\n'\nz = [1, 2]\n", "f(f'a\nb', [1])\n",
                           "x = [f'\n', [1, 2], g(3)]\n", "g('a\nb').h([1]) # c\n",
                           "[f'\n\n'] + k(f'q\n', 'r\ns')\n"]) + \
            rng.choice(['', 'g(1)\n', 'a = [\n 1]\n', '"', ')', 'if\n'])
    if k == 3:   # multi-line strings and eof / error positions
        return rng.choice(["x = '''a\nb'''", "f('''a\nb'''", "'''\n\n''' )", "a = [f'''x\ny''', '''\n''']\nb = c(\n'''q\n''', d)\n",
                           "'''a\nb''' '''c\nd''' \"", "x = '''abc"])
    if k == 4:   # nesting up to 40
        n = rng.randint(1, 40)
        o, c = rng.choice([('(', ')'), ('[', ']'), ('f(', ')'), ('[(', ')]'), ('{1:', '}'), ('a[', ']'), ('-', ''), ('a.b(', ')')])
        return o * n + rng.choice(['1', '', 'a', "'s'"]) + c * rng.choice([n, n, n - 1, n + 1]) + rng.choice(['', '\n'])
    if k == 5:   # brackets and newlines (eol -> whitespace), unbalanced counters
        toks = [rng.choice(['(', ')', '[', ']', '{', '}', '\n', 'a', ',', ':', '1', '\n']) for _ in range(rng.randint(1, 12))]
        return ' '.join(toks)
    if k == 6:   # unary/ternary/comparison chains
        return rng.choice(['a == b == c', 'not not a', '- - a', 'a ? b : c ? d : e', 'a ? (b ? c : d) : e', 'a ? b ? c : d : e',
                           '-not a', 'not -a', 'a < b in c', 'a not in b not in c', 'x = a ? b : c\n', 'a.b.c()', '1.2', '1.e',
                           'a = b = c', 'a += b += c', '1 = 2', 'f() = 3', 'a.b() += 1', 'f(a: 1, a: 2)', 'f(1: 2)',
                           '{a: 1, a: 2}', '{1}', '{a = 1: 2}', 'f(a = 1)', 'a or', 'or a', 'and', 'a and and b',
                           'foreach a, b, c : d\nendforeach', 'foreach : x\nendforeach', 'foreach a : b endforeach',
                           'if a\nelse\nelse\nendif', 'if a\nelif\nendif', 'if a endif', 'if\nendif', 'endif', 'else',
                           'foreach a : b\ncontinue\nbreak\nendforeach', 'continue 1', 'break\n', 'continue', 'a = continue'])
    if k == 7:   # BOM and odd characters
        return rng.choice(['\ufeff', '\ufeffa = 1\n', 'a\ufeff', '\x00', 'a = 1\r\n', 'a\x0c= 1', "x = '\x00'", '# é\n', 'é', "'é'", '\\', '\\ ',
                           '\\#\n', '\\ # c', 'a \\\n\\\n= 1', '!', '!=', '! =', 'a ! b', '`', ';', "'", "''", "'''", "f'", 'f', "f'''",
                           "'a", "'a\\", "'a\\\n'", "'''a''", '0b', '0x', '0o8', '00', '0_1', '1__2', '9' * 50])
    if k == 8:   # dict keys that do not hash
        key = rng.choice(['-', 'not', '1 +', '()', 'a[]', '? 1 : 2', 'a ?', '(-)', '[-]', 'f(-)', 'a.b(-)', '-1', 'not a', '- a[]', 'x.y(1)[]'])
        return rng.choice(['a = ', '', 'f(']) + '{' + key + ' : 1' + rng.choice(['}', ', b : 2}', '', '}\n'])
    return rng.choice(['f(a: 1, b)\n', 'f(a : 1, b, c : 2)\n', '[a: 1, b]\n', 'a = b not\n', 'if a not\nendif\n', '(a not)\n',
                       'f(a not, b)\n', 'x = [a not]\n', 'a not\nin b\n', 'a = b not # c\n', 'if a not\n  b = 1\nendif\n'])


# ------------------------------------------------------------------ slot-based grammar generator
#
# The grammar is a table mirroring the production list of the parser (one entry per `Parser` method that is
# a production; `grammar_table_check` fails the run when the parser grows a production the table lacks).
# A derivation yields a flat token list with boundary markers; EVERY boundary between two tokens is a trivia
# slot filled from the full trivia alphabet by one generic renderer, so a new production gets its slots for
# free.  Markers: NL = the grammar needs an end of line here; BT = boundary in front of a block terminator /
# `else` / `elif` (newline conventional, not required); any other boundary = plain slot.

NL, BT = '<NL>', '<BT>'
TRIVIA_INLINE = ['', '', ' ', ' ', ' ', '  ', '\t', ' \\\n', '\\\n  ', ' \\ # c\n ', ' \\\n\t', '   ']
TRIVIA_NL = ['\n', '\n', '\n', ' \n', '\n\n', ' # c\n', '\n  ', '  # é\n\n', '\t\n    ', ' \\\n\n']
SLOT_IDS = ['a', 'b', 'x_1', 'foo', 'notx', 'inx', 'iff', 'endifx', 'f']
SLOT_NUMS = ['0', '1', '42', '0x1F', '0b1', '0o7']
SLOT_STRS = ["'s'", "''", "'a b'", "'\\n'", "f'@x@'", "'a\nb'", "f'\nq'", "f'x\n\ny'", "'\n'", "'" * 3 + 'm' + "'" * 3, "'" * 3 + 'a\nb' + "'" * 3,
             "f" + "'" * 3 + '\n' + "'" * 3, "'#'", "'\\''"]

GRAMMAR: T.Dict[str, T.List[T.List[str]]] = {
    # blocks
    'codeblock': [['line'], ['line', NL, 'codeblock'], ['line', NL, 'codeblock']],
    'line': [[], ['statement'], ['statement'], ['statement'], ['ifblock'], ['foreachblock'], ['ifblock'],
             ['foreachblock'], ['`continue'], ['`break']],
    'ifblock': [['`if', 'statement', NL, 'codeblock', BT, 'elseifblock', 'elseblock', '`endif']],
    'elseifblock': [[], [], ['`elif', 'statement', NL, 'codeblock', BT, 'elseifblock']],
    'elseblock': [[], ['`else', NL, 'codeblock', BT]],
    'foreachblock': [['`foreach', 'ID', '`:', 'statement', NL, 'codeblock', BT, '`endforeach'],
                     ['`foreach', 'ID', '`,', 'ID', '`:', 'statement', NL, 'codeblock', BT, '`endforeach']],
    # expressions
    'statement': [['e1']],
    'e1': [['e2'], ['e2'], ['e2', '`=', 'e1'], ['e2', '`+=', 'e1'], ['e2', '`?', 'e1', '`:', 'e1']],
    'e2': [['e3'], ['e3'], ['e3', '`or', 'e2']],
    'e3': [['e4'], ['e4'], ['e4', '`and', 'e3']],
    'e4': [['e5'], ['e5'], ['e5', 'CMP', 'e5'], ['e5', '`not', '`in', 'e5']],
    'e5': [['e6'], ['e6'], ['e6', 'ADD', 'e5']],
    'e6': [['e7'], ['e7'], ['e7', 'MUL', 'e6']],
    'e7': [['e8'], ['e8'], ['e8'], ['`not', 'e8'], ['`-', 'e8']],
    'e8': [['e9'], ['e9'], ['ID', '`(', 'args', '`)'], ['e8', '`.', 'method_call'], ['e8', '`[', 'index_call']],
    'method_call': [['ID', '`(', 'args', '`)']],
    'index_call': [['statement', '`]']],
    'e9': [['e10'], ['e10'], ['`(', 'statement', '`)'], ['`[', 'args', '`]'], ['`{', 'key_values', '`}']],
    'e10': [['ID'], ['ID'], ['NUM'], ['STR'], ['`true'], ['`false']],
    'args': [[], ['statement'], ['statement', '`,', 'args'], ['ID', '`:', 'statement'],
             ['ID', '`:', 'statement', '`,', 'args'], ['statement', '`,']],
    'key_values': [[], ['statement', '`:', 'statement'], ['statement', '`:', 'statement', '`,', 'key_values']],
}
PRODUCTION_METHODS = re.compile(r'^(e\d+|statement|args|key_values|method_call|index_call|foreachblock|ifblock|'
                                r'elseifblock|elseblock|testcaseblock|line|codeblock)$')


def grammar_table_check(mparser) -> T.List[str]:
    """productions of the real parser that the grammar table does not know"""
    have = set(GRAMMAR) | {'testcaseblock'}
    return sorted(m for m in vars(mparser.Parser) if PRODUCTION_METHODS.match(m) and m not in have)


def derive(rng, sym: str, depth: int, out: T.List[str]) -> None:
    if sym in (NL, BT):
        out.append(sym)
    elif sym.startswith('`'):
        out.append(sym[1:])
    elif sym == 'ID':
        out.append(rng.choice(SLOT_IDS))
    elif sym == 'NUM':
        out.append(rng.choice(SLOT_NUMS))
    elif sym == 'STR':
        out.append(rng.choice(SLOT_STRS))
    elif sym == 'CMP':
        out.append(rng.choice(['==', '!=', '<', '<=', '>', '>=', 'in']))
    elif sym == 'ADD':
        out.append(rng.choice(['+', '-']))
    elif sym == 'MUL':
        out.append(rng.choice(['*', '/', '%']))
    else:
        alts = GRAMMAR[sym]
        alt = min(alts, key=len) if depth <= 0 else rng.choice(alts)
        for x in alt:
            derive(rng, x, depth - 1, out)


def _wordish(ch: str) -> bool:
    return ch.isalnum() or ch == '_'


_GLUE = {'==', '+=', '!=', '<=', '>=', "''"}


def render_slots(rng, toks: T.List[str], hostile: float) -> str:
    """fill every token boundary with trivia from the full alphabet"""
    out = ''
    depth = 0
    pending: T.Optional[str] = None      # marker seen since the last token
    first = True
    for t in toks:
        if t in (NL, BT):
            pending = NL if (pending == NL or t == NL) else BT
            continue
        if first:
            tr = rng.choice(['', '', '', ' ', '\n', '# c\n', '  \n\n'])
        elif pending == NL:
            tr = rng.choice(TRIVIA_INLINE) + rng.choice(TRIVIA_NL) if rng.random() < 0.3 else rng.choice(TRIVIA_NL)
        elif pending == BT:
            tr = rng.choice(TRIVIA_NL) if rng.random() < 0.5 else rng.choice(TRIVIA_INLINE)
        elif depth > 0:
            tr = rng.choice(TRIVIA_NL) if rng.random() < 0.25 else rng.choice(TRIVIA_INLINE)
        else:
            tr = rng.choice(TRIVIA_NL) if rng.random() < hostile * 0.2 else rng.choice(TRIVIA_INLINE)
        if tr == '' and out and ((_wordish(out[-1]) and _wordish(t[0])) or (out[-1] + t[0]) in _GLUE or
                                 (out[-1] == "'" and t[0] in "f'")) and rng.random() >= hostile * 0.3:
            tr = ' '
        out += tr + t
        pending = None
        first = False
        if t in ('(', '[', '{'):
            depth += 1
        elif t in (')', ']', '}'):
            depth = max(0, depth - 1)
    # end of file: with or without a final newline / trailing trivia
    out += rng.choice(['', '', '\n', '\n', ' ', ' # end', '\n\n', ' \\\n', '\t\n'])
    return out


def slot_program(rng, hostile: float) -> str:
    toks: T.List[str] = []
    derive(rng, 'codeblock', rng.choice([3, 5, 7, 9, 12]), toks)
    if rng.random() < hostile:
        # drop / duplicate / replace one token: the malformed stream
        real = [i for i, t in enumerate(toks) if t not in (NL, BT)]
        if real:
            i = rng.choice(real)
            k = rng.randrange(3)
            if k == 0:
                del toks[i]
            elif k == 1:
                toks.insert(i, toks[i])
            else:
                toks[i] = rng.choice(['endif', 'endforeach', 'else', 'elif', ')', ']', '}', ',', ':', 'not', '\n'])
    return render_slots(rng, toks, hostile)


# ------------------------------------------------------------------ exhaustive nesting skeletons
#
# All block skeletons with a bounded number of block constructs, nesting depth <= 3 and <= 3 items per body over
# {plain statement, if, if/else, if/elif/else, foreach} (no two plain statements in a row); each is rendered with every trivia of SKEL_TRIVIA at every
# boundary at once, and with every trivia at each single terminator boundary (the others default to newline).

SKEL_TRIVIA = ['\n', ' ', '\t', '  ', ' \\\n', ' # c\n', ' \\ # c\n  ', '\n\n  ']
SKEL_SINGLE = [' ', ' \\\n', '\t', ' # c\n', '  ']     # trivia varied at one boundary at a time


def _bodies(blocks: int, depth: int, maxitems: int = 3) -> T.Iterator[T.Tuple[T.Tuple, int]]:
    """(body, blocks used); a body is a tuple of items; an item is 'P' or (kind, body, ...)"""
    def items(budget: int, n: int) -> T.Iterator[T.Tuple[T.Tuple, int]]:
        if n == 0:
            yield (), 0
            return
        for first, used in item(budget):
            for rest, used2 in items(budget - used, n - 1):
                if first == 'P' and rest and rest[0] == 'P':
                    continue          # plain statements are interchangeable: no two in a row
                yield (first,) + rest, used + used2

    def item(budget: int) -> T.Iterator[T.Tuple[T.Any, int]]:
        yield 'P', 0
        if budget >= 1 and depth >= 1:
            for kind, nb in (('if', 1), ('ifelse', 2), ('ifelifelse', 3), ('foreach', 1)):
                for bs, used in _body_tuple(budget - 1, depth - 1, nb, maxitems):
                    yield (kind,) + bs, used + 1

    for n in range(0, maxitems + 1):
        yield from items(blocks, n)


def _body_tuple(blocks: int, depth: int, nb: int, maxitems: int = 3) -> T.Iterator[T.Tuple[T.Tuple, int]]:
    if nb == 0:
        yield (), 0
        return
    for b, used in _bodies(blocks, depth, maxitems):
        for rest, used2 in _body_tuple(blocks - used, depth, nb - 1, maxitems):
            yield (b,) + rest, used + used2


def skeleton_tokens(body, out: T.List[str]) -> None:
    """tokens of a body; '<T>' marks a terminator boundary, NL a required newline"""
    for i, it in enumerate(body):
        if i:
            out.append(NL)
        if it == 'P':
            out.append('x = 1')
            continue
        kind, bodies = it[0], it[1:]
        if kind == 'foreach':
            out += ['foreach i : l', NL]
            skeleton_tokens(bodies[0], out)
            out += ['<T>', 'endforeach']
        else:
            out += ['if a', NL]
            skeleton_tokens(bodies[0], out)
            if kind == 'ifelifelse':
                out += ['<T>', 'elif b', NL]
                skeleton_tokens(bodies[1], out)
            if kind in ('ifelse', 'ifelifelse'):
                out += ['<T>', 'else', NL]
                skeleton_tokens(bodies[-1], out)
            out += ['<T>', 'endif']


def render_skeleton(toks: T.List[str], trivia_at: T.Dict[int, str], default: str) -> str:
    out = ''
    k = 0
    for t in toks:
        if t == NL:
            out += '\n'
        elif t == '<T>':
            tr = trivia_at.get(k, default)
            k += 1
            if out.endswith('\n') and tr == '\n':
                tr = ''            # empty body: the newline after the header is the boundary
            if tr == '' and out and not out.endswith('\n'):
                tr = ' '
            out += tr
        else:
            out += t
    return out


def skeleton_texts(max_blocks: int = 2, depth: int = 3, maxitems: int = 3, single: int = 5) -> T.Iterator[str]:
    """every skeleton x (one trivia at all terminator boundaries | one trivia at one boundary, newline elsewhere)"""
    seen = set()
    for body, _used in _bodies(max_blocks, depth, maxitems):
        toks: T.List[str] = []
        skeleton_tokens(body, toks)
        nb = toks.count('<T>')
        if nb == 0:
            continue
        variants = []
        for tr in SKEL_TRIVIA:
            v = render_skeleton(toks, {}, tr)
            variants += [v + '\n', v]
        if single:
            for k in range(nb):
                for tr in SKEL_SINGLE[:single]:
                    variants.append(render_skeleton(toks, {k: tr}, '\n') + '\n')
        for txt in variants:
            if txt not in seen:
                seen.add(txt)
                yield txt


# ------------------------------------------------------------------ state coverage (which family exercises what)

TRACED = ('codeblock', 'line', 'ifblock', 'elseifblock', 'elseblock', 'foreachblock', 'statement', 'e4', 'e8', 'e9',
          'args', 'key_values', 'method_call', 'index_call')


def make_tracer(mparser):
    """a Parser subclass (harness side only) recording which stateful fields are non-default when a
    production returns"""
    hits: T.Set[str] = set()

    def wrap(name):
        orig = getattr(mparser.Parser, name)

        def f(self, *a, **k):
            r = orig(self, *a, **k)
            if self.current_ws:
                hits.add('current_ws non-empty at exit of ' + name)
                if self.current.tid not in ('eol', 'eof'):
                    hits.add('current_ws non-empty at exit of ' + name + ' with a non-newline token next (' +
                             ('block terminator' if self.current.tid in ('endif', 'endforeach', 'else', 'elif') else 'other') + ')')
            if getattr(self, 'in_ternary', False):
                hits.add('in_ternary set at exit of ' + name)
            return r
        return f
    TP = type('TracingParser', (mparser.Parser,), {n: wrap(n) for n in TRACED})
    return TP, hits


def state_events(mods, code: str) -> T.Set[str]:
    mparser = mods[0]
    ev: T.Set[str] = set()
    try:
        par = br = cu = 0
        for t in mparser.Lexer(code).lex('f'):
            if t.tid == 'whitespace' and t.value == '\n':
                ev.add('lexer: newline while par/bracket/curl count > 0 (eol -> whitespace)')
            elif t.tid == 'whitespace' and t.value.startswith('\\'):
                ev.add('lexer: lineno/line_start advanced by a continuation')
            elif t.tid in ('multiline_string', 'multiline_fstring') and '\n' in t.value:
                ev.add('lexer: lineno/line_start advanced inside a multi-line string')
            elif t.tid in ('string', 'fstring') and '\n' in t.value:
                ev.add('lexer: lineno/line_start advanced inside a single-quoted string')
            par += (t.tid == 'lparen') - (t.tid == 'rparen')
            br += (t.tid == 'lbracket') - (t.tid == 'rbracket')
            cu += (t.tid == 'lcurl') - (t.tid == 'rcurl')
            if par < 0 or br < 0 or cu < 0:
                ev.add('lexer: a bracket counter below zero')
    except Exception:
        pass
    TP, hits = make_tracer(mparser)
    try:
        TP(code, 'f').parse()
    except Exception:
        pass
    return ev | hits


# ------------------------------------------------------------------ workers

def _process(codes: T.List[str], want_nontrivial: bool) -> dict:
    mods = impl()
    res = {'n': 0, 'tags': {}, 'viol': [], 'dis': [], 'nontrivial': 0, 'samples': [], 'state': []}
    st_ev: T.Set[str] = set()
    for c in codes[:: max(1, len(codes) // 150)]:
        st_ev |= state_events(mods, c)
    res['state'] = sorted(st_ev)
    outs = [run_one(mods, c) for c in codes]
    lines = [f'parse {enc(c)}|{names_field(c)}' for c in codes]
    # second stream: the raw token stream of Lexer.lex (every token incl. trivia: line_start, lineno, colno,
    # bytespan start and END) against the model's `lex`, on every text that can hold a multi-line token and on
    # every 4th other text; the position oracle (line = 1 + newlines before, column = distance to the previous
    # newline) is applied to the same streams
    lex_idx = [i for i, c in enumerate(codes) if i % 4 == 0 or multiline_token_text(c)]
    lex_impl = {}
    for i in lex_idx:
        ls, lv = lex_stream(mods[0], mods[2], codes[i])
        lex_impl[i] = ls
        for key, what in lv:
            if len(res['viol']) < 200:
                res['viol'].append((key, what, codes[i]))
    lines += [f'lex {enc(codes[i])}' for i in lex_idx]
    model: T.List[T.Optional[str]]
    if os.path.exists(common.driver_path('lang')) and not os.environ.get('VERIF_NO_MODEL'):
        model = list(common.run_driver('lang', lines))
    else:
        model = [None] * len(lines)
    tags = res['tags']
    tags['lexer-stream-compared'] = len(lex_idx)
    for i, m in zip(lex_idx, model[len(codes):]):
        if m is not None and lex_impl[i] != m:
            tags['lexer-stream-differs'] = tags.get('lexer-stream-differs', 0) + 1
            if len(res['dis']) < 10:
                a, b = lex_impl[i].split(' '), m.split(' ')
                j = next((x for x in range(min(len(a), len(b))) if a[x] != b[x]), min(len(a), len(b)))
                res['dis'].append({'input': codes[i], 'impl': 'lex: token %d: %s' % (j, ' '.join(a[j:j + 2])[:200]),
                                   'model': 'lex: token %d: %s' % (j, ' '.join(b[j:j + 2])[:200])})
            else:
                res['dis_more'] = res.get('dis_more', 0) + 1
    model = model[:len(codes)]
    for c, o, m in zip(codes, outs, model):
        res['n'] += 1
        for t in o.tags:
            tags[t] = tags.get(t, 0) + 1
            if t.startswith('json-printer') and len(res['dis']) < 10:
                res['dis'].append({'input': c, 'impl': t, 'model': 'AstJSONPrinter reports the spans of the node objects'})
        for key, what in o.violations:
            if len(res['viol']) < 200:
                res['viol'].append((key, what, c))
        if m is not None and o.canon:
            mc = model_canon(m)
            mt = 'model:' + (mc.split(':')[1] if mc.startswith('ERR:') else 'accepted')
            tags[mt] = tags.get(mt, 0) + 1
            if mc.startswith('OK|') and m.split('|', 2)[1] != '0':
                tags['model:lossy-path'] = tags.get('model:lossy-path', 0) + 1
            # the model's ghost counter against the order_error flags of its own tree (theorem order_flag_sound
            # gives counter = 0 -> no flag; the converse, order_flag_complete, is checked here on every input).
            # '] 1 w' can only be the order_error field of an Args node (strings are rendered as code points)
            if mc.startswith('OK|') and (m.split('|', 2)[1] != '0') != ('] 1 w' in m):
                tags['model:lossy-vs-flag-differ'] = tags.get('model:lossy-vs-flag-differ', 0) + 1
                if len(res['dis']) < 10:
                    res['dis'].append({'input': c, 'impl': 'order_error flags of the tree',
                                       'model': 'ghost counter lossy=' + m.split('|', 2)[1] + ' disagrees with the flags of the model tree'})
            if mc != o.canon:
                if len(res['dis']) < 10:
                    res['dis'].append({'input': c, 'impl': o.canon[:300], 'model': mc[:300]})
                else:
                    res['dis_more'] = res.get('dis_more', 0) + 1
        if o.accepted and c.strip():
            res['nontrivial'] += 1
    return res


def _job_exhaustive(a):
    alpha, length, prefix = a
    return _process(list(gen_exhaustive(alpha, length, tuple(prefix))), True)


def _job_codes(codes):
    return _process(codes, True)




def corpus_files() -> T.List[str]:
    out = []
    for root, _d, files in os.walk(common.REPO):
        if '/.git' in root:
            continue
        for f in files:
            if f in ('meson.build', 'meson.options', 'meson_options.txt'):
                out.append(os.path.join(root, f))
    out.sort()
    cdir = os.path.join(common.VERIF, 'corpus', 'C02')
    if os.path.isdir(cdir):
        out += sorted(os.path.join(cdir, f) for f in os.listdir(cdir))
    return out


def read_text(path: str) -> T.Optional[str]:
    try:
        with open(path, encoding='utf-8', newline='') as f:
            return f.read()
    except (UnicodeDecodeError, OSError):
        return None


KNOWN_WITNESSES = [
    'a = b not\n', 'if a not\nendif\n', 'f(a: 1, b)\n', "x = '\\N{foo}'\n", "x = '\\UFFFFFFFF'\n", 'a = {-: 1}\n',
    '{not : 1}', 'a = {1 + : 2}\n', "x = 'a\nb'\nf()\n",
]


def chunks(l: T.List[str], n: int) -> T.List[T.List[str]]:
    return [l[i:i + n] for i in range(0, len(l), n)]


def merge(ctx: Ctx, family: str, results: T.Iterable[dict]) -> None:
    for r in results:
        ctx.count(r['n'])
        ctx.tag('family:' + family, r['n'])
        for t, v in r['tags'].items():
            ctx.tag(t, v)
        for key, what, code in r['viol']:
            ctx.violation(key, what, {'input': code, 'family': family})
        for d in r['dis']:
            d['family'] = family
            ctx.disagreement(d)
        if r.get('dis_more'):
            ctx.tag('disagreement', r['dis_more'])
        base = len(ctx.nontrivial)
        for i in range(r['nontrivial']):
            ctx.seen_nontrivial((family, base + i))
        cov = ctx.extra.setdefault('state_coverage', {})
        fam = family.split('-len')[0]
        for ev in r.get('state', []):
            if fam not in cov.setdefault(ev, []):
                cov[ev].append(fam)


def run(ctx: Ctx) -> None:
    rng = ctx.rng
    ctx.rule = ('families: every meson.build/meson.options/meson_options.txt under the repo; ALL token sequences up to a '
                'length bound over a 26-token alphabet (single-space rendering), shorter ones over a 50-token alphabet; '
                'random token soups with trivia; grammar-directed programs with trivia and a hostile stream; table-driven grammar '
                'derivations with EVERY token boundary filled from the full trivia alphabet (newline optional wherever the parser '
                'does not need it); ALL nesting skeletons (quick: <=2 block constructs, <=3 items per body; thorough adds <=3 constructs, depth <=3, '
                'one item per body) x trivia alphabet at the terminator boundaries; mechanism-'
                'targeted families; character-level mutations of corpus files. A case is non-trivial when the real parser '
                'accepts a non-blank input (a tree is built, printed, and every span checked); counted per input.')
    ctx.assumptions += TRUSTED
    if not ctx.model_available:
        os.environ['VERIF_NO_MODEL'] = '1'
    jobs: T.List[T.Tuple[str, T.Callable, T.Any]] = []

    # 1. corpus + witnesses of recorded findings
    files = corpus_files()
    texts = [t for t in (read_text(p) for p in files) if t is not None]
    ctx.tag('corpus-files', len(texts))
    for ch in chunks(KNOWN_WITNESSES + texts, 60):
        jobs.append(('corpus', _job_codes, ch))

    # 2. exhaustive token sequences
    n26 = ctx.scale(4, 5)
    cap = os.environ.get('VERIF_C02_EXHAUSTIVE_MAXLEN')   # debug knob (mutation self-tests): shorter deep runs
    if cap:
        n26 = min(n26, int(cap))
        ctx.notes.append(f'VERIF_C02_EXHAUSTIVE_MAXLEN={cap}: exhaustive enumeration capped (debug)')
    for L in range(1, n26 + 1):
        if L <= 2:
            jobs.append((f'exhaustive26-len{L}', _job_exhaustive, (ALPHA26, L, ())))
        elif L <= 4:
            for a in ALPHA26:
                jobs.append((f'exhaustive26-len{L}', _job_exhaustive, (ALPHA26, L, (a,))))
        else:
            for a in ALPHA26:
                for b in ALPHA26:
                    jobs.append((f'exhaustive26-len{L}', _job_exhaustive, (ALPHA26, L, (a, b))))
    big = ALPHA26 + EXTRA
    nbig = ctx.scale(3, 3)
    for L in range(1, nbig + 1):
        if L <= 2:
            jobs.append((f'exhaustive50-len{L}', _job_exhaustive, (big, L, ())))
        else:
            for a in big:
                jobs.append((f'exhaustive50-len{L}', _job_exhaustive, (big, L, (a,))))
    if ctx.deep and not cap:
        for a in SMALL12:
            for b in SMALL12:
                jobs.append(('exhaustive12-len6', _job_exhaustive, (SMALL12, 6, (a, b))))
    ctx.exhaustive = False

    # 3. random families (all randomness from ctx.rng, generated in the parent)
    soups = [soup(rng, 60 if i % 4 == 0 else 14) for i in range(ctx.scale(20000, 300000))]
    for ch in chunks(soups, 2500):
        jobs.append(('soup', _job_codes, ch))
    progs = []
    for i in range(ctx.scale(12000, 200000)):
        g = Gen(rng, 0.0 if i % 3 == 0 else (0.15 if i % 3 == 1 else 0.5))
        progs.append(g.program())
    for ch in chunks(progs, 1500):
        jobs.append(('grammar', _job_codes, ch))
    missing = grammar_table_check(impl()[0])
    if missing:
        ctx.obligation_failed('grammar-table', 'parser productions without an entry in the generator grammar: ' + ', '.join(missing))
    # all skeletons with <= 2 block constructs (every shape, depth <= 2) with the trivia alphabet at each terminator
    # boundary; the deep tier adds all skeletons with <= 3 constructs, depth <= 3, one item per body
    skel = list(skeleton_texts(2, 3, 3, ctx.scale(2, 5)))
    if ctx.deep:
        have = set(skel)
        skel += [t for t in skeleton_texts(3, 3, 1, 5) if t not in have]
    ctx.tag('skeleton-texts', len(skel))
    for ch in chunks(skel, 4000):
        jobs.append(('nesting-skeletons', _job_codes, ch))
    slotp = []
    for i in range(ctx.scale(14000, 200000)):
        slotp.append(slot_program(rng, 0.0 if i % 3 else 0.35))
    for ch in chunks(slotp, 1500):
        jobs.append(('grammar-slots', _job_codes, ch))
    targ = [targeted(rng) for _ in range(ctx.scale(12000, 150000))]
    for ch in chunks(targ, 3000):
        jobs.append(('targeted', _job_codes, ch))
    small = [t for t in texts if 0 < len(t) < 3000]
    muts = []
    for _ in range(ctx.scale(6000, 100000)):
        muts.append(mutate(rng, rng.choice(small), rng.choice([1, 1, 1, 2, 3])))
    for ch in chunks(muts, 500):
        jobs.append(('mutated-corpus', _job_codes, ch))

    ctx.tag('jobs', len(jobs))
    with mp.Pool(min(16, os.cpu_count() or 4)) as pool:
        asyncs = [(fam, pool.apply_async(fn, (arg,))) for fam, fn, arg in jobs]
        for fam, a in asyncs:
            merge(ctx, fam, [a.get(timeout=3000)])
    for c in (KNOWN_WITNESSES[:2] + progs[:2] + slotp[:3] + soups[:1]):
        ctx.sample({'input': c})


# ------------------------------------------------------------------ search / replay

def neighbours(s: str) -> T.Iterator[str]:
    yield s
    for i in range(len(s)):
        yield s[:i] + s[i + 1:]
    toks = s.split(' ')
    for i in range(len(toks)):
        yield ' '.join(toks[:i] + toks[i + 1:])
    for i in range(len(toks)):
        for j in range(i + 1, len(toks) + 1):
            yield ' '.join(toks[i:j])
    lines = s.split('\n')
    for i in range(len(lines)):
        yield '\n'.join(lines[:i] + lines[i + 1:])


def search(ctx: Ctx, disagreements: T.List[dict]) -> None:
    """the property's own predicates on the implementation, around the inputs on which the model and the
    implementation differ, on the witnesses, and on a fresh grammar/soup stream"""
    mods = impl()
    seen = set()
    budget = 200000

    def probe(code: str, why: str) -> bool:
        nonlocal budget
        if code in seen or budget <= 0:
            return False
        seen.add(code)
        budget -= 1
        o = run_one(mods, code)
        hit = False
        for key, what in o.violations + lex_stream(mods[0], mods[2], code)[1]:
            before = len(ctx.violations)
            ctx.violation(key, what, {'input': code, 'family': 'search:' + why})
            hit = hit or len(ctx.violations) > before
        return hit

    # every input on which model and implementation differ is first judged itself by the round-trip, span /
    # token-position and located-error oracles
    for d in disagreements:
        s = d.get('input')
        if isinstance(s, str) and probe(s, 'disagreeing-input'):
            return
    for d in disagreements[:40]:
        s = d.get('input')
        if not isinstance(s, str):
            continue
        for n in itertools.islice(neighbours(s), 4000):
            if probe(n, 'neighbour'):
                return
    rng = ctx.rng
    for _ in range(30000):
        if probe(Gen(rng, 0.2).program(), 'grammar') or probe(soup(rng, 20), 'soup') or probe(targeted(rng), 'targeted'):
            return
    for L in (1, 2, 3):
        for t in itertools.product(ALPHA26, repeat=L):
            if probe(render(t), 'exhaustive'):
                return


def replay(ctx: Ctx, rep: dict) -> None:
    mods = impl()
    cases = []
    if 'case' in rep:
        cases.append(rep['case'])
    cases += rep.get('correspondence_disagreements', [])
    for case in cases:
        code = case.get('input')
        if not isinstance(code, str):
            continue
        o = run_one(mods, code)
        print('input :', repr(code))
        print('impl  :', o.canon[:2000])
        for key, what in o.violations + lex_stream(mods[0], mods[2], code)[1]:
            print('oracle:', key, '-', what)
            ctx.violation(key, what, {'input': code})
        if ctx.model_available:
            m = ctx.driver('lang', [f'parse {enc(code)}|{names_field(code)}'])[0]
            print('model :', m[:2000])
            if o.canon and model_canon(m) != o.canon:
                ctx.disagreement({'input': code, 'impl': o.canon[:300], 'model': model_canon(m)[:300]})
            ml = ctx.driver('lang', [f'lex {enc(code)}'])[0]
            il = lex_stream(mods[0], mods[2], code)[0]
            if il != ml:
                print('lex impl :', il[:1000])
                print('lex model:', ml[:1000])
                ctx.disagreement({'input': code, 'impl': 'lex: ' + il[:300], 'model': 'lex: ' + ml[:300]})


# ------------------------------------------------------------------ generated tables

def gen_tables(ctx: Ctx) -> None:
    from mesonbuild import mparser
    lx = mparser.Lexer('')

    def q(s: str) -> str:
        out = '"'
        for ch in s:
            if ch == '"' or ch == '\\':
                out += '\\' + ch
            elif 32 <= ord(ch) < 127:
                out += ch
            else:
                out += '\\u{%x}' % ord(ch)
        return out + '"'

    def lst(xs) -> str:
        return '[' + ', '.join(xs) + ']'

    def pairs(m) -> str:
        return lst(f'({q(k)}, {q(v)})' for k, v in m.items())

    for ch in lx.single_char_tokens:
        if len(ch) != 1:
            raise ValueError('single_char_tokens key is not one character')
    text = f'''/- GENERATED by harness/c02.py gen_tables from the live objects of mesonbuild.mparser — do not edit. -/
namespace MesonModel.Generated.LexTables

/-- `sorted(Lexer('').keywords)` -/
def keywords : List String := {lst(q(k) for k in sorted(lx.keywords))}

/-- names of `Lexer('').token_specification`, in order -/
def tokenSpec : List String := {lst(q(n) for n, _ in lx.token_specification)}

/-- `Lexer('').single_char_tokens` as (code point, token id), sorted by code point -/
def singleChar : List (Nat × String) := {lst(f'({ord(c)}, {q(n)})' for c, n in sorted(lx.single_char_tokens.items()))}

/-- `COMPARISON_MAP` in dict order -/
def comparisonMap : List (String × String) := {pairs(mparser.COMPARISON_MAP)}

/-- `ADDSUB_MAP` in dict order -/
def addsubMap : List (String × String) := {pairs(mparser.ADDSUB_MAP)}

/-- `MULDIV_MAP` in dict order -/
def muldivMap : List (String × String) := {pairs(mparser.MULDIV_MAP)}

/-- `sorted(ALL_STRINGS)` -/
def allStrings : List String := {lst(q(s) for s in sorted(mparser.ALL_STRINGS))}

end MesonModel.Generated.LexTables
'''
    path = os.path.join(common.LEAN, 'MesonModel', 'Generated', 'LexTables.lean')
    old = open(path, encoding='utf-8').read() if os.path.exists(path) else None
    if old != text:
        with open(path, 'w', encoding='utf-8') as f:
            f.write(text)
        ctx.notes.append('Generated/LexTables.lean rewritten from the live mparser tables')
    pats = {n: r.pattern for n, r in lx.token_specification}
    pats['ESCAPE_SEQUENCE_SINGLE_RE'] = mparser.ESCAPE_SEQUENCE_SINGLE_RE.pattern
    ctx.extra['advisory_patterns'] = pats
