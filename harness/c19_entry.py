"""C19 — the entry points through which a build file reaches version comparison, each driven through the real
interpreter with structured constraint LISTS (lengths 0–4, every operator, a failing constraint at every position),
judged by an oracle that never calls version_compare*: the conjunction of single comparisons of mesonlib.Version
objects with the operator the generator itself put into the constraint."""
from __future__ import annotations

import ast
import contextlib
import io
import itertools
import operator
import os
import typing as T

from . import common
from .common import Ctx, enc, enc_list

OPS = ['>=', '<=', '!=', '==', '=', '>', '<', '']
OPFN = {'>=': operator.ge, '<=': operator.le, '!=': operator.ne, '==': operator.eq, '=': operator.eq,
        '>': operator.gt, '<': operator.lt, '': operator.eq}
WS = ['', '', ' ', '  ']

# call sites of version_compare / version_compare_many that the stream below drives: site -> entry-point kind
DRIVEN = {
    'mesonbuild/interpreter/primitives/string.py:StringHolder.version_compare_method': 'str',
    'mesonbuild/interpreter/primitives/string.py:MesonVersionStringHolder.version_compare_method': 'mv',
    'mesonbuild/interpreter/dependencyfallbacks.py:DependencyFallbacksHolder._check_version': 'dep',
    'mesonbuild/interpreter/interpreter.py:Interpreter.do_subproject': 'sub',
    'mesonbuild/interpreter/interpreter.py:Interpreter._do_subproject_meson': 'sub',
    'mesonbuild/interpreter/interpreter.py:Interpreter.check_program_version': 'prog',
    'mesonbuild/interpreter/interpreter.py:Interpreter.handle_meson_version': 'hmv',
    'mesonbuild/dependencies/base.py:ExternalDependency._check_version': 'ext',
}
# call sites that are reviewed and are NOT constraint-list entry points (what covers them instead)
REVIEWED = {
    'mesonbuild/interpreterbase/decorators.py:FeatureNew.check_version':
        'one fixed comparison of the feature version with "<major>.0"; the range path goes through '
        'version_compare_condition_with_min (cwm/cwmr correspondence, condWithMin_sound)',
}
HARVEST_FILES = ['mesonbuild/interpreter', 'mesonbuild/interpreterbase', 'mesonbuild/dependencies/base.py']
CALLEES = ('version_compare', 'version_compare_many')


def harvest_sites() -> T.List[str]:
    """every function of the interpreter packages (and the dependency base class) whose CURRENT source calls
    version_compare / version_compare_many: `relative/file.py:Class.function`"""
    files: T.List[str] = []
    for rel in HARVEST_FILES:
        p = os.path.join(common.REPO, rel)
        if os.path.isdir(p):
            for root, _dirs, names in os.walk(p):
                files += [os.path.join(root, n) for n in names if n.endswith('.py')]
        elif os.path.isfile(p):
            files.append(p)
    out: T.Set[str] = set()
    for f in sorted(files):
        try:
            with open(f, encoding='utf-8') as fh:
                tree = ast.parse(fh.read())
        except Exception:
            continue
        rel = os.path.relpath(f, common.REPO)

        def walk(node: ast.AST, qual: T.List[str]) -> None:
            for ch in ast.iter_child_nodes(node):
                if isinstance(ch, (ast.FunctionDef, ast.AsyncFunctionDef, ast.ClassDef)):
                    walk(ch, qual + [ch.name])
                else:
                    if isinstance(ch, ast.Call):
                        fn = ch.func
                        name = fn.id if isinstance(fn, ast.Name) else fn.attr if isinstance(fn, ast.Attribute) else ''
                        if name in CALLEES and qual:
                            out.add(f'{rel}:{".".join(qual)}')
                    walk(ch, qual)
        walk(tree, [])
    return sorted(out)


class Constraint(T.NamedTuple):
    op: str
    ws: str
    ver: str
    tail: str

    @property
    def text(self) -> str:
        return self.op + self.ws + self.ver + self.tail


def holds(U, receiver: str, c: Constraint) -> bool:
    """one constraint, decided on Version objects with the operator the generator chose"""
    return bool(OPFN[c.op](U.Version(receiver), U.Version(c.ver)))


def lit(s: str) -> T.Optional[str]:
    if any(ch in s for ch in "'\\\n\r") or any(ord(ch) < 32 for ch in s):
        return None
    return "'" + s + "'"


class ListGen:
    """constraint lists with a prescribed truth pattern for a receiver"""

    def __init__(self, U, rng, receiver: str, versions: T.List[str]) -> None:
        self.rng = rng
        self.by: T.Dict[T.Tuple[str, bool], T.List[Constraint]] = {}
        for op in OPS:
            for ver in versions:
                if not ver or ver[0] in '<>=!' or ver != ver.strip() or lit(ver) is None:
                    continue
                c = Constraint(op, '', ver, '')
                try:
                    h = holds(U, receiver, c)
                except Exception:
                    continue
                self.by.setdefault((op, h), []).append(c)

    def pick(self, want: bool) -> T.Optional[Constraint]:
        rng = self.rng
        ops = [op for op in OPS if self.by.get((op, want))]
        if not ops:
            return None
        op = rng.choice(ops)
        c = rng.choice(self.by[(op, want)])
        return Constraint(op, rng.choice(WS), c.ver, rng.choice(['', '', ' ']))

    def lists(self, maxlen: int, per_pattern: int) -> T.Iterator[T.Tuple[T.List[Constraint], T.Tuple[bool, ...]]]:
        for n in range(0, maxlen + 1):
            for pattern in itertools.product([True, False], repeat=n):
                for _ in range(per_pattern if n else 1):
                    cs = [self.pick(w) for w in pattern]
                    if any(c is None for c in cs):
                        continue
                    yield T.cast(T.List[Constraint], cs), pattern


def neighbours_of(v: str) -> T.List[str]:
    """versions around v: equal under the order but spelled differently, just below, just above"""
    out = [v, v.replace('.', '-'), v + '.0', v + '.1', v + 'rc1', v + '.a']
    parts = v.split('.')
    if parts and parts[-1].isdigit():
        n = int(parts[-1])
        out.append('.'.join(parts[:-1] + [str(n + 1)]))
        if n > 0:
            out.append('.'.join(parts[:-1] + [str(n - 1)]))
    if parts and parts[0].isdigit():
        out.append(str(int(parts[0]) + 1))
        out.append(str(max(0, int(parts[0]) - 1)) + '.99')
    return out


BASE_VERSIONS = ['0', '0.0.1', '0.9', '1', '1.0', '1.2', '1.2.3', '1.10', '2', '2.0', '10', '99', '99999', '1.0rc1', 'a', 'undefined']


def entry_stream(ctx: Ctx, U, add) -> None:
    from . import c01_impl
    from mesonbuild import coredata, mesonlib, mlog
    rng = ctx.rng
    sites = harvest_sites()
    ctx.extra['version_compare_call_sites'] = sites
    for s in sites:
        kind = DRIVEN.get(s)
        ctx.tag('entry-site:' + (kind or ('reviewed' if s in REVIEWED else 'NOT-DRIVEN')) + ':' + s.split(':')[1])
        if kind is None and s not in REVIEWED:
            ctx.notes.append(f'call site of version_compare* not driven by the entry-point stream: {s}')
    for s, kind in DRIVEN.items():
        if s not in sites:
            ctx.notes.append(f'entry point {kind}: {s} no longer calls version_compare* directly (moved or renamed?)')
    per = ctx.scale(2, 12)
    impl_i = c01_impl.Impl()
    try:
        mesonlib.get_meson_command()
    except BaseException:
        try:
            mesonlib.set_meson_command(os.path.join(common.REPO, 'meson.py'))
        except Exception as e:
            ctx.notes.append(f'entry stream: set_meson_command: {type(e).__name__}')
    cv = coredata.version
    stable = getattr(coredata, 'stable_version', cv)
    counter = [0]
    seen_kinds: T.Dict[str, int] = {}

    def verdict(kind: str, receiver: str, cs: T.List[Constraint], got: T.Any, want: T.Any, how: str) -> None:
        ctx.count()
        seen_kinds[kind] = seen_kinds.get(kind, 0) + 1
        texts = [c.text for c in cs]
        if isinstance(got, str) and got.startswith('ERR:'):
            got = ':'.join(got.split(':')[:2])
        if cs and any(c.op == '!=' for c in cs):
            ctx.tag(f'entry:{kind}:has-ne')
        if got != want:
            each = [holds(U, receiver, c) for c in cs]
            ctx.violation(f'entry:{kind}:{receiver!r}:{texts!r}',
                          f'{how} gave {got!r}; the constraints taken one by one against {receiver!r} are {each}, '
                          f'so the list must give {want!r}', {'entry': kind, 'receiver': receiver, 'conds': texts})
        if isinstance(got, str) and got.startswith('ERR:'):
            got = ':'.join(got.split(':')[:2])
        if (got is True or got is False) and kind != 'hmv':
            add('entry', (kind, receiver, texts), f'entry {kind}|{enc(receiver)}|{enc_list(texts)}', str(int(got)))
        if got is not None and (not all(holds(U, receiver, c) for c in cs)):
            ctx.seen_nontrivial(('entry', kind, receiver, tuple(texts)))

    def run_bool(code: str, var: str = 'x') -> T.Any:
        """True/False, or 'ERR:<class>' when the program raised"""
        mlog._logger.log_disable_stdout = True      # (mlog.no_logging() inside a lookup switches it back on)
        with contextlib.redirect_stdout(io.StringIO()):
            ans, vs = impl_i.run(code)
        if vs is None:
            return ans.split('|')[0]
        return vs.get(var)

    try:
        # ---- str.version_compare / meson.version().version_compare / compiler.version().version_compare
        for receiver in ['1.2.3', '0.9', '1.0rc1', 'undefined', cv]:
            g = ListGen(U, rng, receiver, sorted(set(BASE_VERSIONS + neighbours_of(receiver))))
            for cs, _pat in g.lists(4, per):
                args = ', '.join(T.cast(str, lit(c.text)) for c in cs)
                want: T.Any = all(holds(U, receiver, c) for c in cs) if cs else 'ERR:InvalidArguments'
                got = run_bool(f"x = {lit(receiver)}.version_compare({args})\n")
                verdict('str', receiver, cs, got, want, f"'{receiver}'.version_compare({args})")
                if receiver == cv:
                    impl_i.reset()
                    sentinel = U.Range(min=U.Version('424242'), min_eq=True)
                    try:
                        impl_i.arm()
                        try:
                            impl_i.interp.tmp_meson_version = sentinel
                            impl_i.interp.evaluate_codeblock(impl_i.parse(f"x = meson.version().version_compare({args})\n"))
                        finally:
                            impl_i.disarm()
                        got = impl_i.unhold(impl_i.interp.variables['x'])
                        tmp = impl_i.interp.tmp_meson_version
                    except BaseException as e:
                        if isinstance(e, (KeyboardInterrupt, SystemExit)):
                            raise
                        got, tmp = 'ERR:' + c01_impl.err_class(e), None
                    verdict('mv', receiver, cs, got, want, f'meson.version().version_compare({args})')
                    if cs and got in (True, False):
                        # what the call recorded for evaluate_if
                        has_ne = any(c.op == '!=' for c in cs)
                        if has_ne:
                            if tmp is not sentinel:
                                ctx.violation(f'entry:mv-range:{[c.text for c in cs]!r}', 'meson.version().version_compare() with a != '
                                              f'constraint recorded the range {tmp} (it must leave the recorded range alone)',
                                              {'entry': 'mv', 'conds': [c.text for c in cs]})
                        else:
                            bad = None
                            if tmp is None or tmp is sentinel or not hasattr(tmp, 'min'):
                                bad = 'recorded no range'
                            else:
                                for vs_ in sorted(set(BASE_VERSIONS + neighbours_of(cv) + [c.ver for c in cs] +
                                                      [x for c in cs for x in neighbours_of(c.ver)])):
                                    w = all(holds(U, vs_, c) for c in cs)
                                    if (U.Version(vs_) in tmp) != w:
                                        bad = (f"recorded the range {tmp}: version {vs_} is {'in' if not w else 'not in'} it although it "
                                               f"{'satisfies' if w else 'does not satisfy'} the constraints")
                                        break
                            if bad:
                                ctx.violation(f'entry:mv-range:{[c.text for c in cs]!r}', 'meson.version().version_compare() ' + bad,
                                              {'entry': 'mv', 'conds': [c.text for c in cs]})
                        from .c19 import show_range
                        add('mv', (receiver, [c.text for c in cs]), f'mv {enc(receiver)}|{enc_list([c.text for c in cs])}',
                            f"{int(got)};{'None' if tmp is sentinel or tmp is None else show_range(tmp)}")
        # compiler.version(): a plain string again, reached through another object
        try:
            ans, vs = impl_i.run("add_languages('c', native: false)\nx = meson.get_compiler('c').version()\n")
            ccver = vs.get('x') if vs else None
        except Exception:
            ccver = None
        if isinstance(ccver, str) and ccver:
            g = ListGen(U, rng, ccver, sorted(set(BASE_VERSIONS + neighbours_of(ccver))))
            for cs, _pat in g.lists(3, max(1, per // 2)):
                if not cs:
                    continue
                args = ', '.join(T.cast(str, lit(c.text)) for c in cs)
                got = run_bool(f"x = meson.get_compiler('c').version().version_compare({args})\n")
                verdict('str', ccver, cs, got, all(holds(U, ccver, c) for c in cs),
                        f"meson.get_compiler('c').version().version_compare({args})")
            ctx.tag('entry:compiler.version()')
        else:
            ctx.notes.append('entry stream: no C compiler object available in-process; compiler.version() not driven')

        # ---- dependency(version:) on an overridden dependency, and dep.version().version_compare()
        for receiver in ['1.2.3', '0.9', '2.0', 'undefined']:
            g = ListGen(U, rng, receiver, sorted(set(BASE_VERSIONS + neighbours_of(receiver))))
            for cs, _pat in g.lists(4, per):
                counter[0] += 1
                name = f'c19dep{counter[0]}'
                vkw = '' if receiver == 'undefined' else f'version: {lit(receiver)}'
                arr = '[' + ', '.join(T.cast(str, lit(c.text)) for c in cs) + ']'
                code = (f"d = declare_dependency({vkw})\nmeson.override_dependency('{name}', d)\n"
                        f"x = dependency('{name}', version: {arr}, required: false).found()\n")
                want = True if not cs else (receiver != 'undefined' and all(holds(U, receiver, c) for c in cs))
                got = run_bool(code)
                verdict('dep', receiver, cs, got, want, f"dependency(<version {receiver}>, version: {arr}).found()")
        # ---- subproject(version:), first configuration and cached
        subs = {'1.2.3': 's_a', '0.9': 's_b', 'undefined': 's_c'}
        files = {f'subprojects/{d}': ("project('%s'%s)\n" % (d, '' if v == 'undefined' else f", version: '{v}'")) for v, d in subs.items()}
        for receiver, d in subs.items():
            g = ListGen(U, rng, receiver, sorted(set(BASE_VERSIONS + neighbours_of(receiver))))
            for cs, _pat in g.lists(4, max(1, per // 2)):
                arr = '[' + ', '.join(T.cast(str, lit(c.text)) for c in cs) + ']'
                want = True if not cs else (receiver != 'undefined' and all(holds(U, receiver, c) for c in cs))
                for cached in (False, True):
                    impl_i.reset_tree(files)
                    pre = f"subproject('{d}')\n" if cached else ''
                    got = run_bool(pre + f"x = subproject('{d}', version: {arr}, required: false).found()\n")
                    got = got is True    # refused = an error or a not-found subproject
                    verdict('sub', receiver, cs, got, want,
                            f"subproject(<version {receiver}>, version: {arr}) ({'configured before' if cached else 'first use'})")
        impl_i.reset_tree({})
        # ---- find_program(version:)
        for i, receiver in enumerate(['1.2.3', '0.9']):
            script = os.path.join(impl_i.src, f'c19ver{i}.sh')
            with open(script, 'w') as f:
                f.write(f'#!/bin/sh\necho {receiver}\n')
            os.chmod(script, 0o755)
            g = ListGen(U, rng, receiver, sorted(set(BASE_VERSIONS + neighbours_of(receiver))))
            for cs, _pat in g.lists(4, max(1, per // 2)):
                arr = '[' + ', '.join(T.cast(str, lit(c.text)) for c in cs) + ']'
                got = run_bool(f"x = find_program('c19ver{i}.sh', version: {arr}, required: false).found()\n")
                verdict('prog', receiver, cs, got, all(holds(U, receiver, c) for c in cs),
                        f"find_program(<prints {receiver}>, version: {arr}).found()")
        # ---- an external dependency's own check (object level)
        try:
            from mesonbuild.dependencies.base import ExternalDependency
            from mesonbuild.mesonlib import MachineChoice
        except Exception as e:
            ExternalDependency = None  # type: ignore
            ctx.notes.append(f'entry stream: ExternalDependency unavailable: {type(e).__name__}')
        if ExternalDependency is not None:
            prev_log = mlog.log
            mlog.log = lambda *a, **k: None
            try:
                for receiver in ['1.2.3', '0.9', '']:
                    g = ListGen(U, rng, receiver, sorted(set(BASE_VERSIONS + neighbours_of(receiver or '0'))))
                    for cs, _pat in g.lists(4, per):
                        try:
                            dep = ExternalDependency.__new__(ExternalDependency)
                            dep.name, dep.is_found, dep.version, dep.required = 'c19ext', True, receiver or None, False
                            dep.version_reqs = [c.text for c in cs]
                            dep.for_machine = MachineChoice.HOST
                            dep._check_version()
                            got = dep.is_found
                        except Exception as e:
                            got = 'ERR:' + type(e).__name__
                        want = True if not cs else (receiver != '' and all(holds(U, receiver, c) for c in cs))
                        verdict('ext', receiver, cs, got, want, f'ExternalDependency(version={receiver!r}, version_reqs=…)._check_version()')
            finally:
                mlog.log = prev_log
        # ---- project(meson_version:)
        g = ListGen(U, rng, stable, sorted(set(BASE_VERSIONS + neighbours_of(stable) + neighbours_of(cv))))
        sub = impl_i.interp.subproject
        saved = mesonlib.project_meson_versions.get(sub)
        try:
            for cs, _pat in g.lists(1, ctx.scale(30, 300)):
                if not cs:
                    continue
                pv = cs[0].text
                mesonlib.project_meson_versions.pop(sub, None)
                try:
                    impl_i.interp.handle_meson_version(pv, impl_i.interp.current_node)
                    got = True
                except Exception as e:
                    got = False if 'InterpreterException' in [k.__name__ for k in type(e).__mro__] else 'ERR:' + type(e).__name__
                rec = mesonlib.project_meson_versions.get(sub)
                verdict('hmv', stable, cs, got, holds(U, stable, cs[0]), f'project(meson_version: {pv!r}) on meson {stable}')
                from .c19 import show_range
                add('hmv', (stable, pv), f'hmv {enc(stable)}|{enc(pv)}', 'ERR' if got is not True or rec is None else show_range(rec))
                if got is True and cs[0].op != '!=':
                    for vs_ in sorted(set(BASE_VERSIONS + neighbours_of(cs[0].ver) + [stable])):
                        if rec is None or (U.Version(vs_) in rec) != holds(U, vs_, cs[0]):
                            ctx.violation(f'entry:hmv-range:{pv!r}', f'project(meson_version: {pv!r}) recorded the range {rec}; '
                                          f'membership of {vs_} differs from the constraint', {'entry': 'hmv', 'conds': [pv]})
                            break
        finally:
            if saved is not None:
                mesonlib.project_meson_versions[sub] = saved
            else:
                mesonlib.project_meson_versions.pop(sub, None)
        for k, n in sorted(seen_kinds.items()):
            ctx.tag(f'entry-driven:{k}', n)
        ctx.extra['entry_point_cases'] = dict(seen_kinds)
    finally:
        impl_i.close()


# ---------------------------------------------------------------------------------------------- condition expressions

class Expr(T.NamedTuple):
    txt: str
    val: bool
    k: str                                  # prefix encoding for the driver
    pos: T.List[T.List[str]]                # constraint lists of the checks that count positively
    allc: T.List[T.List[str]]               # constraint lists of every check in the expression
    leaf: bool


def gen_expr(rng, U, cv: str, pool: T.List[str], depth: int, positive: bool = True) -> Expr:
    k = rng.random()
    if depth <= 0 or k < 0.38:
        if rng.random() < 0.72:
            cs: T.List[Constraint] = []
            while not cs:
                cs = [Constraint(rng.choice(OPS), rng.choice(WS), rng.choice(pool), rng.choice(['', ' ']))
                      for _ in range(rng.choice([1, 1, 1, 2]))]
                if any(c.op == '!=' for c in cs) and rng.random() < 0.7:
                    cs = []
            texts = [c.text for c in cs]
            val = all(holds(U, cv, c) for c in cs)
            txt = 'meson.version().version_compare(' + ', '.join(T.cast(str, lit(t)) for t in texts) + ')'
            return Expr(txt, val, 'c' + enc_list(texts), [texts] if positive else [], [texts], True)
        val = rng.random() < 0.5
        form = rng.choice(['lit', 'var'])
        return Expr({'lit': 'true' if val else 'false', 'var': 't' if val else 'f'}[form], val, 't' if val else 'f', [], [], True)

    def wrap(e: Expr) -> str:
        return e.txt if e.leaf else '(' + e.txt + ')'
    if k < 0.55:
        e = gen_expr(rng, U, cv, pool, depth - 1, False)
        return Expr('not ' + wrap(e), not e.val, 'n/' + e.k, [], e.allc, False)
    if k < 0.65:
        e = gen_expr(rng, U, cv, pool, depth - 1, False)
        litv, ne = rng.random() < 0.5, rng.random() < 0.4
        txt = f"{wrap(e)} {'!=' if ne else '=='} {'true' if litv else 'false'}"
        return Expr(txt, (e.val == litv) != ne, f'q{int(litv)}{int(ne)}/' + e.k, [], e.allc, False)
    a = gen_expr(rng, U, cv, pool, depth - 1, positive)
    b = gen_expr(rng, U, cv, pool, depth - 1, positive)
    if k < 0.83:
        return Expr(f'{wrap(a)} and {wrap(b)}', a.val and b.val, f'a/{a.k}/{b.k}', a.pos + b.pos, a.allc + b.allc, False)
    return Expr(f'{wrap(a)} or {wrap(b)}', a.val or b.val, f'o/{a.k}/{b.k}', a.pos + b.pos, a.allc + b.allc, False)
