"""C04 — the generated Ninja manifest is well-formed and closed (translation validation).

Per project: real `meson setup` (subprocess, fake ninja) -> build.ninja + stat of every referenced input ->
  * the verified Lean checker `wellFormed` (driver `check`, theorems in MesonModel/Props/C04.lean) and
  * an independent Python oracle (own manifest reader `py_parse`, own graph algorithms `oracle_check`)
must both accept; default-built targets / test dependencies (intro-targets.json, intro-tests.json, and the
generator's own spec) must be reachable from `all` / `meson-test-prereq`; projects with colliding outputs must
not configure into an ill-formed manifest.  Violations come from the Python oracle only; Lean-vs-oracle verdict
differences are correspondence disagreements.  The checker and the oracle are additionally compared on random
(mostly ill-formed) graphs and on mutated real manifests; the emission state machine (MesonModel/Ninja/Emit.lean)
is compared with the real NinjaBuild/NinjaBuildElement/NinjaRule classes on random operation sequences.
Which targets are built by default / needed by the install step is judged from an independent witness (c04_ending.py): the
documented rule applied to the declared keywords of the grid projects and the non-optional entries of install.dat (checker
clause 8); the Lean model of the aggregate targets (MesonModel/Ninja/Ending.lean) is tied to the real emitters there.
"""
from __future__ import annotations

import collections
import io
import json
import os
import random
import re
import shutil
import typing as T
from concurrent.futures import ThreadPoolExecutor

from . import common, projgen, c04_ending
from .common import Ctx, enc, dec, enc_list, dec_list

ID = 'C04'
LEVEL = 'translation_validation'
LEAN_TARGETS = ['MesonModel.Props.C04']
AREAS = ['ninja']
PINS = [
    'mesonbuild.backend.ninjabackend:NinjaBackend.generate',
    'mesonbuild.backend.ninjabackend:ninja_quote',
    'mesonbuild.backend.ninjabackend:NinjaRule.write',
    'mesonbuild.backend.ninjabackend:NinjaBuildElement',
    'mesonbuild.backend.ninjabackend:NinjaBuild',
    'mesonbuild.backend.ninjabackend:NinjaBackend.create_phony_target',
    'mesonbuild.backend.ninjabackend:NinjaBackend.generate_phony',
    'mesonbuild.backend.ninjabackend:NinjaBackend.generate_ending',
    'mesonbuild.backend.ninjabackend:NinjaBackend.generate_tests',
    'mesonbuild.backend.ninjabackend:NinjaBackend.generate_custom_target',
    'mesonbuild.backend.backends:Backend.get_build_by_default_targets',
    'mesonbuild.backend.backends:Backend.get_testlike_targets',
    'mesonbuild.coredata:CoreData.init_backend_options',
    'mesonbuild.backend.ninjabackend:NinjaBackend.generate_static_link_rules',
    'mesonbuild.backend.ninjabackend:NinjaBackend.generate_dynamic_link_rules',
    'mesonbuild.build:Build.copy',
    'mesonbuild.build:Build.merge',
    'mesonbuild.interpreter.interpreter:Interpreter.do_subproject',
    'mesonbuild.interpreter.interpreter:Interpreter._do_subproject_meson',
    'mesonbuild.interpreter.interpreter:Interpreter.add_target',
    'mesonbuild.interpreter.interpreter:Interpreter.validate_forbidden_targets',
    # what is built by default / needed by the install step (MesonModel/Ninja/Ending.lean)
    'mesonbuild.build:BuildTarget.__init__',
    'mesonbuild.interpreter.interpreter:Interpreter.func_custom_target',
    'mesonbuild.backend.ninjabackend:NinjaBackend.generate_install',
    'mesonbuild.backend.backends:Backend.generate_target_install',
]
TRUSTED = [
    'ninja manifest grammar / scoping / CanonicalizePath as written down in MesonModel/Ninja/Manifest.lean from ninja 1.11 '
    '(no ninja binary in the sandbox); cross-checked against an independently written Python reader on every manifest',
    'existence of inputs is os.path.exists relative to the build directory right after `meson setup`',
    'the universal statement over projects is sampled (generator + repository test corpus); the checker and the emission '
    'discipline are proved',
    'meson-private/install.dat (unpickled with the classes of the checkout under test) is what `meson install` copies; '
    '`built by default` = the documented rule applied to the declared keywords (harness/c04_ending.doc_built_by_default)',
]

# ---------------------------------------------------------------------------------------------------------------
# independent manifest reader (deliberately written differently from the Lean one: logical lines + regexes)


class ManifestError(Exception):
    def __init__(self, cls: str, kind: str):
        super().__init__(f'{cls}:{kind}')
        self.cls = cls
        self.kind = kind


_IDENT = r'[A-Za-z0-9_.\-]+'
_BIND_RE = re.compile(r'^ +(' + _IDENT + r') *= *(.*)$', re.S)
_LET_RE = re.compile(r'^(' + _IDENT + r') *= *(.*)$', re.S)
_RESERVED = {'command', 'depfile', 'dyndep', 'description', 'deps', 'generator', 'pool', 'restat', 'rspfile',
             'rspfile_content', 'msvc_deps_prefix'}


def py_canon(p: str) -> str:
    """ninja's CanonicalizePath for POSIX paths"""
    if p == '':
        return ''
    absolute = p.startswith('/')
    ups = 0
    stack: T.List[str] = []
    for c in p.split('/'):
        if c in ('', '.'):
            continue
        if c == '..':
            if stack:
                stack.pop()
            else:
                ups += 1
            continue
        stack.append(c)
    body = '/'.join(['..'] * ups + stack)
    if absolute:
        return '/' + body
    return body or '.'


def _logical_lines(text: str) -> T.List[str]:
    """join `$`-newline continuations (and swallow the blanks that follow them)"""
    if '\r' in text.replace('\r\n', ''):
        raise ManifestError('Parse', 'CarriageReturn')
    text = text.replace('\r\n', '\n')
    out: T.List[str] = []
    cur: T.List[str] = []
    i, n = 0, len(text)
    comment_possible = True   # at the physical start of a logical line
    while i < n:
        c = text[i]
        if comment_possible and c in ' #':
            # a comment line ends at the physical newline, `$` has no meaning in it
            j = i
            while j < n and text[j] == ' ':
                j += 1
            if j < n and text[j] == '#':
                while j < n and text[j] != '\n':
                    j += 1
                i = j + 1
                continue
        comment_possible = False
        if c == '$' and i + 1 < n and text[i + 1] == '$':
            cur.append('$$')
            i += 2
        elif c == '$' and i + 1 < n and text[i + 1] == '\n':
            i += 2
            while i < n and text[i] == ' ':
                i += 1
            cur.append('\x00')   # keeps `$name` from swallowing the next line's first word; dropped by _expand
        elif c == '\n':
            out.append(''.join(cur))
            cur = []
            i += 1
            comment_possible = True
        else:
            cur.append(c)
            i += 1
    if cur:
        raise ManifestError('Parse', 'UnexpectedEOF')
    return out


def _expand(s: str, env: T.Mapping[str, str], path_mode: bool = False) -> T.Union[str, T.List[T.Any]]:
    """value mode: the evaluated string. path mode: list of tokens, str = path, ('op', x) for : | || |@"""
    toks: T.List[T.Any] = []
    cur: T.List[str] = []
    started = False

    def flush():
        nonlocal cur, started
        if started:
            toks.append(''.join(cur))
        cur = []
        started = False
    i, n = 0, len(s)
    while i < n:
        c = s[i]
        if c == '$':
            if i + 1 >= n:
                raise ManifestError('Parse', 'BadEscape')
            d = s[i + 1]
            if d in '$ :':
                cur.append(d)
                started = True
                i += 2
            elif d == '{':
                m = re.compile(r'\{(' + _IDENT + r')\}').match(s, i + 1)
                if not m:
                    raise ManifestError('Parse', 'BadEscape')
                cur.append(env.get(m.group(1), ''))
                started = True
                i = m.end()
            else:
                m = re.compile(r'[A-Za-z0-9_\-]+').match(s, i + 1)
                if not m:
                    raise ManifestError('Parse', 'BadEscape')
                cur.append(env.get(m.group(0), ''))
                started = True
                i = m.end()
        elif c == '\x00':
            i += 1
        elif path_mode and c == ' ':
            flush()
            i += 1
        elif path_mode and c == ':':
            flush()
            toks.append(('op', ':'))
            i += 1
        elif path_mode and c == '|':
            flush()
            if s[i:i + 2] in ('||', '|@'):
                toks.append(('op', s[i:i + 2]))
                i += 2
            else:
                toks.append(('op', '|'))
                i += 1
        else:
            cur.append(c)
            started = True
            i += 1
    if path_mode:
        flush()
        return toks
    return ''.join(cur)


def py_parse(text: str) -> dict:
    """-> {'rules': [names], 'defaults': [paths], 'edges': [dict], 'vars': {}} ; raises ManifestError"""
    lines = _logical_lines(text)
    env: T.Dict[str, str] = {}
    rules: T.List[str] = []
    rule_binds: T.Dict[str, T.List[T.Tuple[str, str]]] = {}
    pools: T.List[str] = []
    edges: T.List[dict] = []
    defaults: T.List[str] = []
    known_nodes: T.Set[str] = set()
    i = 0
    n = len(lines)

    def block(j: int) -> T.Tuple[T.List[T.Tuple[str, str]], int]:
        binds = []
        while j < n:
            ln = lines[j]
            if ln.strip(' ') == '':
                break
            if not ln.startswith(' '):
                break
            m = _BIND_RE.match(ln)
            if not m:
                raise ManifestError('Parse', 'Binding')
            binds.append((m.group(1), m.group(2)))
            j += 1
        return binds, j

    while i < n:
        ln = lines[i]
        if ln.strip(' ') == '':
            i += 1
            continue
        if ln.startswith(' '):
            raise ManifestError('Parse', 'UnexpectedIndent')
        m = re.match(r'^(' + _IDENT + r')( *)(.*)$', ln, re.S)
        if not m:
            raise ManifestError('Parse', 'UnexpectedToken')
        word, rest = m.group(1), m.group(3)
        if word in ('rule', 'pool'):
            rest = rest.replace('\x00', '')
            m2 = re.match(r'^(' + _IDENT + r') *$', rest)
            if not m2:
                raise ManifestError('Parse', 'ExpectedNewline')
            name = m2.group(1)
            binds, i = block(i + 1)
            if word == 'rule':
                if name in rules or name == 'phony':
                    raise ManifestError('Load', 'DuplicateRule')
                for k, _v in binds:
                    if k not in _RESERVED:
                        raise ManifestError('Load', 'UnexpectedRuleVariable')
                d = {k: v for k, v in binds}
                if bool(d.get('rspfile')) != bool(d.get('rspfile_content')):
                    raise ManifestError('Load', 'RspfilePair')
                if not d.get('command'):
                    raise ManifestError('Load', 'MissingCommand')
                for _k, v in binds:
                    _expand(v, {})   # escapes must be well-formed
                rules.append(name)
                rule_binds[name] = binds
            else:
                # a pool declared twice is the graph oracle's business (clause `pools`)
                vals = [(k, _expand(v, env)) for k, v in binds]
                if len(vals) != 1 or vals[0][0] != 'depth' or not re.fullmatch(r'[0-9]+', vals[0][1]):
                    raise ManifestError('Load', 'BadPool')
                pools.append(name)
        elif word == 'build':
            binds, j = block(i + 1)
            bvals = [(k, _expand(v, env)) for k, v in binds]
            benv = dict(env)
            for k, v in bvals:
                benv[k] = v
            # rule name is looked up before paths are evaluated
            toks = _expand(rest, benv, path_mode=True)
            groups: T.Dict[str, T.List[str]] = collections.OrderedDict(
                (k, []) for k in ('outs', 'iouts', 'rule', 'ins', 'impl', 'oo', 'vals'))
            state = 'outs'
            order = ['outs', 'iouts', 'rule', 'ins', 'impl', 'oo', 'vals']
            for t in toks:
                if isinstance(t, tuple):
                    op = t[1]
                    if op == ':':
                        if state not in ('outs', 'iouts'):
                            raise ManifestError('Parse', 'ExpectedNewline')
                        state = 'rule'
                    elif op == '|':
                        if state == 'outs':
                            state = 'iouts'
                        elif state == 'ins':
                            state = 'impl'
                        elif state == 'rule' and groups['rule']:
                            state = 'impl'
                        else:
                            raise ManifestError('Parse', 'UnexpectedPipe')
                    elif op == '||':
                        if state in ('ins', 'impl') or (state == 'rule' and groups['rule']):
                            state = 'oo'
                        else:
                            raise ManifestError('Parse', 'UnexpectedPipe')
                    elif op == '|@':
                        if state in ('ins', 'impl', 'oo') or (state == 'rule' and groups['rule']):
                            state = 'vals'
                        else:
                            raise ManifestError('Parse', 'UnexpectedPipe')
                else:
                    if state == 'rule' and groups['rule']:
                        state = 'ins'
                    groups[state].append(t)
            if not groups['outs'] and not groups['iouts']:
                raise ManifestError('Parse', 'ExpectedPath')
            if state in ('outs', 'iouts'):
                raise ManifestError('Parse', 'ExpectedColon')
            if len(groups['rule']) != 1 or not re.fullmatch(_IDENT, groups['rule'][0]):
                raise ManifestError('Parse', 'ExpectedRuleName')
            rule = groups['rule'][0]
            if rule != 'phony' and rule not in rules:
                raise ManifestError('Load', 'UnknownRule')
            # the pool in effect: the statement's own binding, else the rule's (evaluated in the statement's scope)
            if any(k == 'pool' for k, _v in bvals):
                pool = [v for k, v in bvals if k == 'pool'][-1]
            else:
                rb = [v for k, v in rule_binds.get(rule, []) if k == 'pool']
                pool = _expand(rb[-1], benv) if rb else ''
            e = {'rule': rule, 'binds': bvals, 'pool': pool}
            for k in ('outs', 'iouts', 'ins', 'impl', 'oo', 'vals'):
                if any(p == '' for p in groups[k]):
                    raise ManifestError('Load', 'EmptyPath')
                e[k] = [py_canon(p) for p in groups[k]]
                known_nodes.update(e[k])
            edges.append(e)
            i = j
        elif word == 'default':
            toks = _expand(rest, env, path_mode=True)
            if not toks:
                raise ManifestError('Parse', 'ExpectedPath')
            if any(isinstance(t, tuple) for t in toks):
                raise ManifestError('Parse', 'ExpectedNewline')
            for t in toks:
                if t == '':
                    raise ManifestError('Load', 'EmptyPath')
                defaults.append(py_canon(t))
            i += 1
        elif word in ('include', 'subninja'):
            raise ManifestError('Load', 'IncludeUnsupported')
        else:
            m3 = _LET_RE.match(ln)
            if not m3:
                raise ManifestError('Parse', 'ExpectedEquals')
            env[m3.group(1)] = _expand(m3.group(2), env)
            i += 1
    return {'rules': rules, 'defaults': defaults, 'edges': edges, 'vars': env, 'pools': pools}


def edge_all_outs(e: dict) -> T.List[str]:
    return e['outs'] + e['iouts']


def edge_all_ins(e: dict) -> T.List[str]:
    return e['ins'] + e['impl'] + e['oo']


def oracle_check(rules: T.Sequence[str], edges: T.Sequence[dict], exists: T.Callable[[str], bool],
                 reqs: T.Sequence[T.Tuple[str, str]], pools: T.Sequence[str] = (), defaults: T.Sequence[str] = (),
                 inst: T.Sequence[str] = (), iroot: str = 'install') -> dict:
    """the property's own predicate on a graph (sets/dicts/DFS; nothing shared with the Lean checker)"""
    res: T.Dict[str, T.Any] = {}
    rs = set(rules)
    bad = [e['rule'] for e in edges if e['rule'] != 'phony' and e['rule'] not in rs]
    res['rules'] = not bad
    cnt = collections.Counter(o for e in edges for o in edge_all_outs(e))
    dups = sorted(o for o, c in cnt.items() if c > 1)
    res['unique'] = not dups
    producers: T.Dict[str, T.List[int]] = collections.defaultdict(list)
    for k, e in enumerate(edges):
        for o in edge_all_outs(e):
            producers[o].append(k)
    # cycle detection: iterative three-colour DFS over statements
    colour = [0] * len(edges)
    cyc = False
    for s in range(len(edges)):
        if colour[s] or cyc:
            continue
        stack = [(s, iter([p for i in edge_all_ins(edges[s]) for p in producers.get(i, [])]))]
        colour[s] = 1
        while stack and not cyc:
            k, it = stack[-1]
            for nx in it:
                if colour[nx] == 1:
                    cyc = True
                    break
                if colour[nx] == 0:
                    colour[nx] = 1
                    stack.append((nx, iter([p for i in edge_all_ins(edges[nx]) for p in producers.get(i, [])])))
                    break
            else:
                colour[k] = 2
                stack.pop()
    res['acyclic'] = not cyc
    missing = sorted({i for e in edges for i in edge_all_ins(e) + e['vals'] if i not in producers and not exists(i)})
    res['closed'] = not missing
    unreached = []
    pairs = []
    cache: T.Dict[str, T.Set[str]] = {}
    for root, t in reqs:
        if root not in cache:
            seen = {root}
            todo = [root]
            while todo:
                x = todo.pop()
                for k in producers.get(x, []):
                    e = edges[k]
                    for y in edge_all_ins(e) + e['vals'] + edge_all_outs(e):
                        if y not in seen:
                            seen.add(y)
                            todo.append(y)
            cache[root] = seen
        if t not in cache[root]:
            unreached.append(f'{root}>{t}')
            pairs.append((root, t))
    res['reach'] = not unreached
    # the other declarations: pools bound by statements (own or rule's `pool =`) are declared once, defaults are produced
    declared = collections.Counter(pools)
    badpools = sorted({e.get('pool', '') for e in edges if e.get('pool', '') not in ('', 'console') and e.get('pool') not in declared})
    res['pools'] = not badpools and all(c == 1 for c in declared.values()) and 'console' not in declared
    baddef = [d for d in defaults if d not in producers]
    res['defaults'] = not baddef
    # what the install step copies unconditionally: brought up to date by the install target, or (nothing produces it) there
    inst_bad = []
    if inst:
        below: T.Set[str] = {iroot}
        todo = [iroot]
        while todo:
            x = todo.pop()
            for k in producers.get(x, []):
                e = edges[k]
                for y in edge_all_ins(e) + e['vals'] + edge_all_outs(e):
                    if y not in below:
                        below.add(y)
                        todo.append(y)
        for f in inst:
            if (f not in below) if f in producers else (not exists(f)):
                inst_bad.append(f)
    res['install'] = not inst_bad
    res['wf'] = all(res[k] for k in ('rules', 'unique', 'acyclic', 'closed', 'reach', 'pools', 'defaults', 'install'))
    res['unreached_pairs'] = pairs
    res['detail_decl'] = {'undeclared_pools': badpools[:3], 'pools_declared': dict(declared), 'defaults_not_produced': baddef[:3]}
    res['detail'] = {'badrules': bad[:3], 'dup': dups[:3], 'missing': missing[:5], 'unreached': unreached[:5]}
    if inst_bad:
        res['detail']['installed_but_not_built_by_install'] = sorted(inst_bad)[:5]
    return res


def reach_from(edges: T.Sequence[dict], roots: T.Iterable[str]) -> T.Set[str]:
    """everything that building `roots` touches (same semantics as the reach clause)"""
    producers: T.Dict[str, T.List[int]] = collections.defaultdict(list)
    for k, e in enumerate(edges):
        for o in edge_all_outs(e):
            producers[o].append(k)
    seen = set(roots)
    todo = list(seen)
    while todo:
        x = todo.pop()
        for k in producers.get(x, []):
            e = edges[k]
            for y in edge_all_ins(e) + e['vals'] + edge_all_outs(e):
                if y not in seen:
                    seen.add(y)
                    todo.append(y)
    return seen


PREREQ_ROOTS = ('meson-test-prereq', 'meson-benchmark-prereq')


def only_via_prereq(edges: T.Sequence[dict], reqs: T.Sequence[T.Tuple[str, str]]) -> T.List[T.Tuple[str, str]]:
    """the test/benchmark requirements that are not vacuous: the target is neither built by `all` nor below another
    input of the prerequisite phony — it is reachable only because the phony lists it (or a sibling output) itself"""
    out = []
    from_all = reach_from(edges, ['all'])
    by_out = {}
    for e in edges:
        for o in edge_all_outs(e):
            by_out.setdefault(o, e)
    for root in PREREQ_ROOTS:
        mine = [t for r, t in reqs if r == root]
        if not mine or root not in by_out:
            continue
        direct = edge_all_ins(by_out[root])
        for t in mine:
            if t in from_all:
                continue
            sib = set(edge_all_outs(by_out[t])) if t in by_out else {t}
            others = [i for i in direct if i not in sib]
            if t not in reach_from(edges, others):
                out.append((root, t))
    return out


CLAUSES = ('wf', 'rules', 'unique', 'acyclic', 'closed', 'reach', 'pools', 'defaults', 'install')


def parse_verdict(ans: str) -> dict:
    """driver answer of check/checkg -> dict"""
    if not ans.startswith('OK|'):
        return {'error': ans}
    d = {}
    for part in ans.split('|')[1:]:
        k, _, v = part.partition('=')
        d[k] = v
    out = {k: d.get(k) == '1' for k in CLAUSES}
    out['detail'] = {'dup': dec(d.get('dup', '')), 'missing': dec_list(d.get('missing', ''))[:5],
                     'unreached': dec_list(d.get('unreached', ''))[:5], 'stuck': d.get('stuck'),
                     'instmissing': dec_list(d.get('instmissing', ''))[:5]}
    return out


def parse_dump(ans: str) -> T.Union[dict, str]:
    """driver answer of `parse` -> same shape as py_parse (or the ERR string)"""
    if not ans.startswith('OK|'):
        return ans
    rules: T.List[str] = []
    defaults: T.List[str] = []
    pools: T.List[str] = []
    edges = []
    for part in ans.split('|')[1:]:
        if part.startswith('L:'):
            pools = dec_list(part[2:])
        elif part.startswith('R:'):
            rules = dec_list(part[2:])
        elif part.startswith('D:'):
            defaults = dec_list(part[2:])
        elif part.startswith('E:'):
            f = part[2:].split(';')
            binds = []
            if f[7].strip():
                for kv in f[7].split('&'):
                    k, _, v = kv.partition('=')
                    binds.append((dec(k), dec(v)))
            edges.append({'rule': dec(f[0]), 'outs': dec_list(f[1]), 'iouts': dec_list(f[2]), 'ins': dec_list(f[3]),
                          'impl': dec_list(f[4]), 'oo': dec_list(f[5]), 'vals': dec_list(f[6]), 'binds': binds,
                          'pool': dec(f[8]) if len(f) > 8 else ''})
    return {'rules': rules, 'defaults': defaults, 'edges': edges, 'pools': pools}


def same_graph(a: dict, b: dict) -> bool:
    if a['rules'] != b['rules'] or a['defaults'] != b['defaults'] or len(a['edges']) != len(b['edges']):
        return False
    if list(a.get('pools', [])) != list(b.get('pools', [])):
        return False
    for x, y in zip(a['edges'], b['edges']):
        for k in ('rule', 'outs', 'iouts', 'ins', 'impl', 'oo', 'vals'):
            if x[k] != y[k]:
                return False
        if x.get('pool', '') != y.get('pool', ''):
            return False
        if [tuple(p) for p in x['binds']] != [tuple(p) for p in y['binds']]:
            return False
    return True


# ---------------------------------------------------------------------------------------------------------------
# projects

PIPE_PROJECT = {
    'meson.build': "project('pipe', 'c')\nexecutable('a|b', 'main.c')\n",
    'main.c': 'int main(void) { return 0; }\n',
}

FIXED_PROJECTS: T.List[T.Tuple[str, T.Dict[str, str], T.List[str]]] = [
    ('fixed-basic', {
        'meson.build': ("project('p1', 'c')\nsubdir('sub')\nl = both_libraries('foo', 'foo.c')\n"
                        "e = executable('my prog', 'main.c', link_with: l)\n"
                        "ct = custom_target('gen', output: ['g.h', 'g.c'], command: ['touch', '@OUTPUT@'])\n"
                        "e2 = executable('e2', 'main.c', ct)\ntest('t', e, depends: ct)\n"
                        "configure_file(output: 'conf.h', configuration: {'A': 1})\n"),
        'sub/meson.build': "executable('e2', 'main.c')\n",
        'main.c': 'int main(void) { return 0; }\n', 'sub/main.c': 'int main(void) { return 0; }\n',
        'foo.c': 'int foo(void) { return 1; }\n'}, []),
    ('fixed-objname-clash', {
        # a_b.c and a/b.c both become a_b.c.o: must be rejected at configure time, not emitted twice
        'meson.build': "project('p', 'c')\nexecutable('x', 'main.c', 'a_b.c', 'a/b.c')\n",
        'main.c': 'int main(void) { return 0; }\n', 'a_b.c': 'int f(void){return 1;}\n', 'a/b.c': 'int g(void){return 1;}\n'}, []),
    ('fixed-pipe', PIPE_PROJECT, []),
    ('fixed-override-test-exe', {
        # a test whose program is an executable found through meson.override_find_program (build.LocalProgram)
        'meson.build': ("project('ov', 'c')\nexe = executable('tool', 'main.c', build_by_default: false)\n"
                        "meson.override_find_program('tool', exe)\nprog = find_program('tool')\ntest('t', prog)\n"),
        'main.c': 'int main(void) { return 0; }\n'}, []),
    ('fixed-override-arg-benchmark-subdir', {
        # the overridden executable reaches a benchmark / a test only as an `args:` element; override made in a subdir
        # and in a subproject; the helpers are build_by_default: false and used nowhere else
        'meson.build': ("project('ova', 'c')\nsp = subproject('sp')\nm = executable('m', 'main.c')\nsubdir('d')\n"
                        "benchmark('b', m, args: [find_program('tool-d'), 'x'])\n"
                        "test('t', m, args: ['--with', find_program('tool-sp')])\n"),
        'd/meson.build': ("h = executable('helper d', 'h.c', build_by_default: false)\n"
                          "meson.override_find_program('tool-d', h)\n"),
        'subprojects/sp/meson.build': ("project('sp', 'c')\nh = executable('helper-sp', 'h.c', build_by_default: false)\n"
                                       "meson.override_find_program('tool-sp', h)\n"),
        'main.c': 'int main(void) { return 0; }\n', 'd/h.c': 'int main(void) { return 0; }\n',
        'subprojects/sp/h.c': 'int main(void) { return 0; }\n'}, []),
]


# planted pairs that collide on every Linux host (the reserved-name kinds depend on the tools installed)
DEFINITE_COLLISIONS = {'ct-ct-same-output', 'ct-output-vs-exe', 'ct-output-vs-staticlib', 'same-name-same-dir',
                       'flat-same-name', 'flat-ct-vs-exe', 'shared-vs-module', 'library-vs-static'}


def targets_with_pipe(art: dict) -> bool:
    for t in (art.get('targets') or []):
        if '|' in t.get('name', '') or any('|' in os.path.basename(f) for f in t.get('filename', [])):
            return True
    return False


def run_job(job: dict) -> dict:
    """worker: materialise / generate a project, configure it, read the artefacts, stat the inputs"""
    base = job['scratch']
    src = os.path.join(base, 'src')
    bld = os.path.join(base, 'b')
    rec: T.Dict[str, T.Any] = {'job': {k: v for k, v in job.items() if k != 'scratch'}}
    env = None
    if job['kind'] == 'corpus':
        shutil.copytree(os.path.join(common.REPO, 'test cases', 'common', job['name']), src, symlinks=True)
        env = dict(os.environ)
        env['MESON_RUNNING_IN_PROJECT_TESTS'] = '1'
        spec = None
    elif job['kind'] == 'files':
        projgen.write_project(src, job['files'])
        spec = job.get('spec')
    else:
        rng = random.Random(job['seed'])
        spec = projgen.gen_project(rng, src, job['features'])
        rec['job']['files'] = spec['files']
    if job.get('env'):
        env = {k: v for k, v in (env or os.environ).items()
               if k not in ('MESON_RSP_THRESHOLD', 'NINJA', 'CC', 'CFLAGS', 'LDFLAGS', 'DESTDIR')}
        env.update(job['env'])
    rec['spec'] = None if spec is None else {k: spec[k] for k in ('targets', 'tests', 'collision', 'failing_subproject', 'shared',
                                                                  'grid', 'gtests')
                                             if k in spec}
    r = projgen.configure(src, bld, job['args'], env=env, timeout=job.get('timeout', 300))
    rec['ok'] = r['ok']
    rec['rc'] = r['rc']
    rec['wall'] = r['wall']
    rec['timeout'] = r['timeout']
    errs = [l for l in r['out'].split('\n') if 'ERROR' in l]
    rec['error'] = (errs[0] if errs else r['out'][-300:]).replace(base, '<scratch>')[:300] if not r['ok'] else ''
    if not r['ok']:
        return rec
    art = projgen.read_build(bld)
    rec['ninja'] = art['ninja']
    rec['override'] = False
    for root, _dirs, files in os.walk(src):
        if 'meson.build' in files:
            try:
                with open(os.path.join(root, 'meson.build'), encoding='utf-8', errors='replace') as fh:
                    if 'override_find_program' in fh.read():
                        rec['override'] = True
            except OSError:
                pass
    rec['test_programs'] = sorted({py_canon(os.path.relpath(ts['cmd'][0], bld))
                                   for ts in (art['tests'] or []) + (art['benchmarks'] or [])
                                   if ts.get('cmd') and os.path.isabs(ts['cmd'][0])})
    rec['pipe'] = targets_with_pipe(art) or (spec is not None and any('|' in t['name'] or any('|' in o for o in (t.get('outputs') or []))
                                                                      for t in spec.get('targets', [])))
    # requirements from introspection
    reqs: T.List[T.Tuple[str, str]] = []

    def rel(f: str) -> str:
        return py_canon(os.path.relpath(f, bld)) if os.path.isabs(f) else py_canon(f)
    tg = art['targets'] or []
    byid = {t['id']: t for t in tg}
    for t in tg:
        if t.get('build_by_default'):
            for f in t['filename']:
                reqs.append(('all', rel(f)))
    for root, tests in (('meson-test-prereq', art['tests'] or []), ('meson-benchmark-prereq', art['benchmarks'] or [])):
        for ts in tests:
            for d in ts.get('depends', []):
                if d in byid:
                    for f in byid[d]['filename']:
                        reqs.append((root, rel(f)))
    # requirements from the generator's own description
    nspec = 0
    if spec is not None and spec.get('targets'):
        tymap = {'executable': 'executable', 'custom_target': 'custom', 'static_library': 'static library',
                 'shared_library': 'shared library', 'shared_module': 'shared module'}
        byvar = {t['var']: t for t in spec['targets']}

        def files_of(st: dict) -> T.List[str]:
            ty = tymap.get(st['kind'])
            if ty is None:
                return []
            mb = os.path.realpath(os.path.join(src, st['dir'], 'meson.build'))
            out = []
            for t in tg:
                if t['name'] == st['name'] and t['type'] == ty and os.path.realpath(t['defined_in']) == mb:
                    out += [rel(f) for f in t['filename']]
            return out
        for ts in spec.get('tests', []):
            root = 'meson-benchmark-prereq' if ts['benchmark'] else 'meson-test-prereq'
            for v in [ts['exe']] + ts['depends']:
                for f in files_of(byvar[v]):
                    reqs.append((root, f))
                    nspec += 1
        for st in spec['targets']:
            if st.get('bbd') is True:
                for f in files_of(st):
                    reqs.append(('all', f))
                    nspec += 1
    # the grid projects: requirements from the DOCUMENTED rule (what the declarations say), not from the attribute the
    # backend and the introspection both read; and the abstract target table for the Lean model of the aggregates
    rec['grid_problems'] = []
    if spec is not None and spec.get('grid'):
        greqs, problems = c04_ending.grid_requirements(spec, tg, rel)
        reqs += greqs
        nspec += len(greqs)
        rec['grid_problems'] = problems
        rec['grid_table'] = c04_ending.table_from_grid(spec, tg, rel)
    rec['reqs'] = sorted(set(reqs))
    rec['nspec'] = nspec
    # what the install step is going to copy (install.dat, the file `meson install` reads)
    idat = c04_ending.read_install_dat(bld)
    rec['inst'] = sorted({py_canon(f) for f in idat['mandatory']})
    rec['inst_optional'] = sorted({py_canon(f) for f in idat['optional']})
    rec['inst_err'] = idat['err']
    # oracle parse + stat
    try:
        g = py_parse(art['ninja'])
        rec['pyerr'] = None
    except ManifestError as e:
        rec['pyerr'] = str(e)
        g = None
    except RecursionError:
        rec['pyerr'] = 'Parse:Recursion'
        g = None
    existing: T.List[str] = []
    if g is not None:
        seen = set()
        for e in g['edges']:
            for p in edge_all_ins(e) + e['vals']:
                if p not in seen:
                    seen.add(p)
                    if os.path.lexists(os.path.join(bld, p)):
                        existing.append(p)
        for p in rec['inst']:
            if p not in seen and os.path.lexists(os.path.join(bld, p)):
                seen.add(p)
                existing.append(p)
        rec['pygraph'] = {'rules': g['rules'], 'defaults': g['defaults'], 'pools': g['pools'],
                          'edges': [{k: e[k] for k in ('rule', 'outs', 'iouts', 'ins', 'impl', 'oo', 'vals', 'binds', 'pool')}
                                    for e in g['edges']]}
    else:
        # still give the Lean side a file listing: every token of the text that names an existing path
        for tokn in set(re.split(r'(?<!\$)[ \n]', art['ninja'])):
            p = tokn.replace('$ ', ' ').replace('$:', ':').replace('$$', '$')
            if p and len(p) < 4096 and os.path.lexists(os.path.join(bld, p)):
                existing.append(py_canon(p))
    rec['fs'] = existing
    # state isolation: a failed optional subproject must leave no trace — same project without the call, same place
    fsp = (spec or {}).get('failing_subproject') if spec is not None else None
    if fsp:
        if re.search(r'optsp is buildable: NO', r['out']):
            rec['isolation'] = isolation_diff(job, src, bld, fsp, art, env)
        else:
            rec['optsp_did_not_fail'] = True
    return rec


def _norm_regen(text: str) -> T.List[str]:
    """build.ninja lines; in the two statements that list the build definition files (regeneration inputs) the files of
    the failed subproject are legitimately present (editing them must re-run meson) and are dropped before comparing"""
    lines = text.split('\n')
    out = []
    for ln in lines:
        if ln.startswith('build build.ninja: REGENERATE_BUILD ') or (ln.startswith('build ') and ln.endswith(': phony ')
                                                                     and 'meson.build' in ln):
            toks = [t for t in re.split(r'(?<!\$) ', ln) if 'subprojects/optsp/' not in t]
            ln = ' '.join(toks)
        out.append(ln)
    return out


def isolation_diff(job: dict, src: str, bld: str, fsp: dict, art_a: dict, env) -> T.List[str]:
    def extra(b):
        res = {}
        for name in ('intro-tests.json', 'intro-benchmarks.json', 'intro-installed.json', 'intro-install_plan.json'):
            try:
                with open(os.path.join(b, 'meson-info', name), encoding='utf-8') as fh:
                    res[name] = json.load(fh)
            except (OSError, ValueError):
                res[name] = None
        return res
    ex_a = extra(bld)
    shutil.rmtree(bld, ignore_errors=True)
    with open(os.path.join(src, 'meson.build'), 'w', encoding='utf-8') as fh:
        fh.write(fsp['root_without'])
    r = projgen.configure(src, bld, job['args'], env=env, timeout=job.get('timeout', 300))
    if not r['ok']:
        errs = [l for l in r['out'].split('\n') if 'ERROR' in l]
        return ['reference project (call removed) does not configure: ' + (errs[0] if errs else '')[:200]]
    art_b = projgen.read_build(bld)
    ex_b = extra(bld)
    diffs: T.List[str] = []
    la, lb = _norm_regen(art_a['ninja']), _norm_regen(art_b['ninja'])
    if la != lb:
        sa, sb = set(la), set(lb)
        only_a = [l for l in la if l not in sb][:3]
        only_b = [l for l in lb if l not in sa][:3]
        diffs.append(f'build.ninja differs: only with the failed subproject {only_a!r}; only without {only_b!r}')
    for name in ex_a:
        if ex_a[name] != ex_b[name]:
            diffs.append(f'{name} differs')

    def tset(art):
        return sorted((t['name'], t['type'], tuple(t['filename'])) for t in (art['targets'] or []))
    if tset(art_a) != tset(art_b):
        diffs.append('intro-targets.json differs')
    return diffs


def safe_job(job: dict) -> dict:
    """run_job, but an unexpected OS-level failure of one project (copying a corpus tree, reading artefacts) is recorded
    as 'not configured' with a note instead of aborting the whole run"""
    try:
        return run_job(job)
    except (OSError, UnicodeError, shutil.Error) as e:
        return {'job': {k: v for k, v in job.items() if k != 'scratch'}, 'ok': False, 'rc': -1, 'wall': 0.0,
                'timeout': False, 'error': f'harness: {type(e).__name__}: {e}'[:200], 'harness_error': True}


_OPTION_VALUES: T.Optional[T.Dict[str, T.List[str]]] = None


def option_values() -> T.Dict[str, T.List[str]]:
    global _OPTION_VALUES
    if _OPTION_VALUES is None:
        _OPTION_VALUES = projgen.backend_option_values()
    return _OPTION_VALUES


def gen_job(rng, label: str, args: T.List[str], feats: T.Optional[dict] = None, group: str = 'gen') -> dict:
    """a generated project under one option combination; unity builds also vary unity_size (2..5) and tell the
    generator, which then makes source counts hit its exact multiples; a few jobs force response files everywhere"""
    feats = dict(feats or {})
    args = list(args)
    unity = 'off'
    for a in args:
        if a.startswith('-Dunity='):
            unity = a.split('=', 1)[1]
    feats['unity'] = unity
    if unity != 'off':
        us = rng.choice([2, 2, 3, 4, 5])
        args.append(f'-Dunity_size={us}')
        feats['unity_size'] = us
    if rng.random() < 0.3:
        feats['odd_names'] = 0.9
    # every other option that changes what the backend writes, at boundary / every value (enumerated from the live tables)
    ov = option_values()
    extra = {}
    backendish = sorted(k for k in ov if k.startswith('backend_'))
    for k in backendish:
        if rng.random() < 0.6:
            extra[k] = rng.choice(ov[k])
    for k in rng.sample(sorted(set(ov) - set(backendish)), rng.choice([0, 1, 1, 2, 3])):
        extra[k] = rng.choice(ov[k])
    args += [f'-D{k}={v}' for k, v in sorted(extra.items())]
    job = {'kind': 'gen', 'label': f'{group}:{label}', 'seed': rng.getrandbits(48), 'features': feats, 'args': args,
           'options': extra}
    if rng.random() < 0.1:
        job['env'] = {'MESON_RSP_THRESHOLD': '0'}
    return job


def make_jobs(ctx: Ctx, scratch: str) -> T.List[dict]:
    rng = ctx.rng
    jobs: T.List[dict] = []
    for name, files, args in FIXED_PROJECTS:
        jobs.append({'kind': 'files', 'label': name, 'files': files, 'args': args})
    # an optional subproject that registers a test, a benchmark, an installed target and an override, then fails
    ffiles = {
        'meson.build': ("project('opt parent', 'c')\nm = executable('m', 'main.c')\ntest('own', m)\n"
                        "optsp = subproject('optsp', required: false)\n"
                        "p = find_program('optprog', required: false)\nif p.found()\n  test('leaked', p)\nendif\n"),
        'main.c': 'int main(void) { return 0; }\n',
        'subprojects/optsp/meson.build': ("project('optsp', 'c')\ne = executable('opt exe', 'o.c', install: true)\n"
                                          "test('opt test', e)\nbenchmark('opt bench', e)\ninstall_headers('oh.h')\n"
                                          "meson.override_find_program('optprog', e)\nerror('giving up')\n"),
        'subprojects/optsp/o.c': 'int main(void) { return 0; }\n', 'subprojects/optsp/oh.h': '#pragma once\n'}
    jobs.append({'kind': 'files', 'label': 'fixed-failing-optional-subproject', 'files': ffiles, 'args': [],
                 'spec': {'targets': [], 'tests': [], 'failing_subproject': {
                     'call': "optsp = subproject('optsp', required: false)", 'without': '', 'fail_at': 5,
                     'root_without': ffiles['meson.build'].replace("optsp = subproject('optsp', required: false)\n", '')}}})
    matrix = projgen.option_matrix()
    # target kind x build_by_default x install (x build_always, install_dir shapes) with tests reaching helpers every way
    jobs += c04_ending.grid_jobs(ctx, matrix)
    per = ctx.scale(3, 40)
    for label, args in matrix:
        for _ in range(per):
            jobs.append(gen_job(rng, label, args))
    # names with `|`: must be rejected at configure time (ninja_quote), never written into a manifest
    for _ in range(ctx.scale(1, 12)):
        label, args = rng.choice(matrix)
        jobs.append(gen_job(rng, label, args, {'pipe_names': True, 'subproject': 0.0}, group='pipe'))
    ncoll = ctx.scale(10, 240)
    for i in range(ncoll):
        kind = projgen.COLLISION_KINDS[i % len(projgen.COLLISION_KINDS)]
        label, args = rng.choice(matrix)
        if kind.startswith('flat-'):
            args = ['--layout=flat'] + [a for a in args if not a.startswith('--layout')]
        jobs.append({'kind': 'gen', 'label': 'collision:' + kind, 'seed': rng.getrandbits(48),
                     'features': {'collision': kind}, 'args': args})
    cdir = os.path.join(common.REPO, 'test cases', 'common')
    names = sorted(n for n in os.listdir(cdir) if os.path.isfile(os.path.join(cdir, n, 'meson.build')))
    pick = names if ctx.deep else rng.sample(names, min(len(names), 8))
    for n in pick:
        jobs.append({'kind': 'corpus', 'label': 'corpus', 'name': n, 'args': [], 'timeout': 240})
    for k, j in enumerate(jobs):
        j['scratch'] = os.path.join(scratch, f'j{k}')
    return jobs


def replay_case(rec: dict) -> dict:
    """what is needed to re-run the project"""
    job = rec['job']
    case = {'label': job.get('label'), 'args': job.get('args'), 'kind': job['kind'], 'env': job.get('env')}
    if (rec.get('spec') or {}).get('failing_subproject'):
        case['failing_subproject'] = rec['spec']['failing_subproject']
    if (rec.get('spec') or {}).get('grid'):
        case['grid'] = rec['spec']['grid']
        case['gtests'] = rec['spec'].get('gtests', [])
    if job['kind'] == 'corpus':
        case['name'] = job['name']
    else:
        case['files'] = job.get('files')
        case['seed'] = job.get('seed')
        case['features'] = job.get('features')
    return case


def judge_project(ctx: Ctx, rec: dict, lean_check: T.Optional[str], lean_parse: T.Optional[str]) -> None:
    """oracle verdict (-> violation), Lean verdict (-> disagreement when different)"""
    job = rec['job']
    label = job.get('label', '')
    case = replay_case(rec)
    fs = set(rec['fs'])
    known_key = 'pipe-in-path' if rec.get('pipe') else None
    if rec['pyerr'] is not None:
        ov = None
        key = known_key or f'invalid-manifest:{rec["pyerr"]}:{label}'
        ctx.violation(key, f'build.ninja is not a valid Ninja manifest ({rec["pyerr"]})', case)
        ctx.tag('oracle:invalid-manifest')
    else:
        g = rec['pygraph']
        ov = oracle_check(g['rules'], g['edges'], lambda p: p in fs, rec['reqs'], g.get('pools', ()), g.get('defaults', ()),
                          rec.get('inst', ()))
        if rec.get('inst_err'):
            ctx.tag('install.dat:' + str(rec['inst_err']))
        ctx.tag('install-mandatory-files', len(rec.get('inst', ())))
        for gp in rec.get('grid_problems', []):
            ctx.violation(f'grid-target-missing:{label}', gp, case)
        if not ov['wf']:
            failed = [k for k in CLAUSES[1:] if not ov[k]]
            key = known_key or f'illformed:{"+".join(failed)}:{label}'
            if failed == ['closed'] and '--layout=flat' in (job.get('args') or []) and not known_key:
                # generator.process(<target>) under layout=flat: the input is named without the `meson-out/` prefix
                produced = {o for e in g['edges'] for o in edge_all_outs(e)}
                miss = [i for e in g['edges'] for i in edge_all_ins(e) + e['vals'] if i not in produced and i not in fs]
                if miss and all('meson-out/' + os.path.basename(m) in produced for m in miss):
                    key = 'flat-layout-generator-input-from-target'
            if failed == ['reach'] and rec.get('override') and not known_key:
                # only the program of a test, reached through find_program on an overridden name, is missing below the
                # test prerequisite target: Backend.get_testlike_targets does not unwrap build.LocalProgram
                progs = set(rec.get('test_programs', []))
                if all(root in ('meson-test-prereq', 'meson-benchmark-prereq') and t in progs
                       for root, t in ov['unreached_pairs']):
                    key = 'test-program-via-override-not-in-test-prereq'
            det = dict(ov['detail'])
            if not ov['pools'] or not ov['defaults']:
                det.update(ov['detail_decl'])
            ctx.violation(key, f'build.ninja of a successfully configured project is not well-formed: {failed} {det}', case)
            ctx.tag('oracle:illformed:' + '+'.join(failed))
        else:
            ctx.tag('oracle:wellformed')
        # vacuity of the test-prerequisite requirements
        prq = [rt for rt in rec['reqs'] if rt[0] in PREREQ_ROOTS]
        nv = only_via_prereq(g['edges'], rec['reqs'])
        ctx.tag('prereq-reqs', len(prq))
        ctx.tag('prereq-reqs-only-via-prereq-edge', len(nv))
        ctx.extra['test_prereq_requirements'] = ctx.extra.get('test_prereq_requirements', 0) + len(prq)
        ctx.extra['test_prereq_requirements_reachable_only_via_prereq_edge'] = \
            ctx.extra.get('test_prereq_requirements_reachable_only_via_prereq_edge', 0) + len(nv)
        for sh in (rec.get('spec') or {}).get('shared', []) or []:
            dirs = {u[1] for u in sh['uses']}
            ctx.tag(f"shared:{sh['pkind']}:consumers={len(sh['uses'])}:{'several-dirs' if len(dirs) > 1 or sh['dir'] not in dirs else 'one-dir'}")
            for u in sh['uses']:
                ctx.tag(f"shared-pair:{sh['pkind']}->{u[0]}")
            ctx.extra['shared_objects'] = ctx.extra.get('shared_objects', 0) + 1
        for ts in (rec.get('spec') or {}).get('tests', []):
            if ts.get('way'):
                ctx.tag(f"prereq-way:{ts['way']}:{'benchmark' if ts['benchmark'] else 'test'}:"
                        f"{'subproject' if ts['project'] else 'main'}")
    if rec.get('optsp_did_not_fail'):
        ctx.tag('failed-optional-subproject:did-not-fail')
    if 'isolation' in rec:
        fsp = (rec.get('spec') or {}).get('failing_subproject') or {}
        ctx.tag('failed-optional-subproject:' + ('isolated' if not rec['isolation'] else 'LEAK'))
        ctx.tag(f"failed-optional-subproject:registered-before-failure={min(fsp.get('fail_at', 0), 5)}")
        ctx.extra['failed_optional_subprojects_compared'] = ctx.extra.get('failed_optional_subprojects_compared', 0) + 1
        if rec['isolation']:
            ctx.violation('failed-optional-subproject-leaks-state',
                          'a failed optional subproject changed what the parent project generates: ' + '; '.join(rec['isolation'])[:600],
                          case)
    if lean_check is None:
        return
    ctx.extra['disagreements_checked'] = ctx.extra.get('disagreements_checked', 0) + 1
    lv = parse_verdict(lean_check)
    if rec['pyerr'] is not None or 'error' in lv:
        # both must reject (class only; positions and exact kinds may differ)
        if (rec['pyerr'] is None) != ('error' not in lv):
            if not known_key:
                ctx.disagreement({'kind': 'parse-verdict', 'lean': lean_check[:200], 'oracle': rec['pyerr'], 'case': case})
            else:
                ctx.tag('pipe:reader-difference')
        return
    if any(lv[k] != ov[k] for k in CLAUSES):
        ctx.disagreement({'kind': 'project-verdict', 'lean': {k: lv[k] for k in CLAUSES}, 'lean_detail': lv['detail'],
                          'oracle': {k: ov[k] for k in CLAUSES}, 'oracle_detail': ov['detail'], 'case': case})
    if lean_parse is not None:
        lp = parse_dump(lean_parse)
        if isinstance(lp, str) or not same_graph(lp, rec['pygraph']):
            ctx.disagreement({'kind': 'project-parse', 'lean': lean_parse[:300], 'case': case})


def judge_grids(ctx: Ctx, okrecs: T.List[dict], use_model: bool) -> None:
    """the Lean model of the aggregate targets against the real build.ninja / install.dat of the grid projects: the
    keywords come from the declarations, directory and file names from introspection; what the model lists in `all`,
    `meson-test-prereq`, `meson-benchmark-prereq` and as (non-)optional install entries must be what the real files hold"""
    grids = [r for r in okrecs if (r.get('spec') or {}).get('grid')]
    for r in grids:
        ctx.tag('grid:configured')
        decls = r['spec']['grid']
        for d in decls:
            ctx.tag(f"grid-cell:{d['fn']}:bbd={c04_ending.TRI[d['bbd']]}:install={c04_ending.TRI[d['install']]}"
                    + (f":build_always={c04_ending.TRI[d['build_always']]}" if d['build_always'] is not None else ''))
    if not use_model:
        return
    todo = [r for r in grids if r.get('grid_table') and r.get('pygraph')]
    for r in grids:
        if r not in todo:
            ctx.disagreement({'kind': 'grid-table', 'detail': 'introspection does not have the shape the table is read from',
                              'case': replay_case(r)})
    lines = []
    for r in list(todo):
        try:
            lines.append(c04_ending.grid_model_lines(r['spec'], r['grid_table']))
        except (KeyError, IndexError, TypeError) as e:
            # a declared target that introspection does not list (reported by the oracle as grid-target-missing)
            todo.remove(r)
            ctx.disagreement({'kind': 'grid-table', 'detail': f'{type(e).__name__}: {e}'[:120], 'case': replay_case(r)})
    if not todo:
        return
    ans = ctx.driver('ninja', lines)
    for r, a in zip(todo, ans):
        ctx.extra['disagreements_checked'] = ctx.extra.get('disagreements_checked', 0) + 1
        m = c04_ending.parse_ending(a)
        if m is None:
            ctx.disagreement({'kind': 'grid-model-answer', 'model': a[:200], 'case': replay_case(r)})
            continue
        by_out = {}
        for e in r['pygraph']['edges']:
            for o in edge_all_outs(e):
                by_out.setdefault(o, e)
        diffs = {}
        for key, name in (('all', 'all'), ('test', 'meson-test-prereq'), ('bench', 'meson-benchmark-prereq')):
            real = sorted(edge_all_ins(by_out[name])) if name in by_out else None
            mine = sorted(py_canon(p) for p in m[key])
            if key != 'all' and real is not None:
                # the interpreter may hand the backend a target twice (a test's program is also among its dependencies);
                # the exact lists are compared by the in-process stream, here the sets
                real, mine = sorted(set(real)), sorted(set(mine))
            if real != mine:
                diffs[name] = {'only-model': sorted(set(mine) - set(real or []))[:5], 'only-impl': sorted(set(real or []) - set(mine))[:5]}
        if not r.get('inst_err'):
            for key, real in (('mand', r.get('inst', [])), ('opt', r.get('inst_optional', []))):
                mine = sorted({py_canon(p) for p in m[key]})
                if mine != sorted(real):
                    diffs['install.dat:' + key] = {'only-model': sorted(set(mine) - set(real))[:5],
                                                   'only-impl': sorted(set(real) - set(mine))[:5]}
        if diffs:
            ctx.disagreement({'kind': 'grid-ending', 'diffs': diffs, 'case': replay_case(r)})
        ctx.seen_nontrivial(('grid-ending', r['job'].get('label'), len(r['grid_table']['rows'])))


def run_projects(ctx: Ctx, oracle_only: bool = False, jobs_fn=make_jobs) -> T.List[dict]:
    scratch = common.scratch_dir('mverif-c04-')
    try:
        jobs = jobs_fn(ctx, scratch)
        with ThreadPoolExecutor(16) as ex:
            recs = list(ex.map(safe_job, jobs))
    finally:
        common.rmtree(scratch)
    okrecs = [r for r in recs if r['ok']]
    lines: T.List[str] = []
    for r in okrecs:
        t = enc(r['ninja'])
        reqs = [x for rt in r['reqs'] for x in rt]
        lines.append(f'check {t}|{enc_list(r["fs"])}|{enc_list(reqs)}|{enc_list(r.get("inst", []))}')
        lines.append(f'parse {t}')
    use_model = ctx.model_available and not oracle_only
    answers = ctx.driver('ninja', lines) if (use_model and lines) else [None] * len(lines)
    for k, r in enumerate(okrecs):
        judge_project(ctx, r, answers[2 * k], answers[2 * k + 1])
    judge_grids(ctx, okrecs, use_model)
    for r in recs:
        job = r['job']
        label = job.get('label', '')
        group = label.split(':')[0]
        ctx.count()
        if r['ok']:
            ctx.extra['programs'] = ctx.extra.get('programs', 0) + 1
            ctx.tag(f'configured:{group}')
            ne = len(r.get('pygraph', {}).get('edges', [])) if r.get('pygraph') else 0
            ctx.tag('edges', ne)
            ctx.tag('reqs', len(r['reqs']))
            ctx.tag('reqs-from-spec', r.get('nspec', 0))
            for k, v in (job.get('options') or {}).items():
                ctx.tag(f'option:{k}={v}')
            if group == 'gen':
                ctx.tag('matrix:' + label[4:])
                # features whose file names are computed by a second code path than the statement that produces them
                t = r['ninja']
                mb = ' '.join(v for k, v in (job.get('files') or {}).items() if k.endswith('meson.build'))
                for feat, present in (('unity-file', '-unity' in t), ('pch', '.gch' in t), ('rsp-rule', '_RSP ' in t or '_RSP\n' in t),
                                      ('extract_objects', 'extract_objects' in mb), ('extract_all_objects', 'extract_all_objects' in mb),
                                      ('shlib-alias', 'meson-implicit-outs' in t), ('depfile', ': CUSTOM_COMMAND_DEP' in t),
                                      ('flat-private-dir', 'meson-out/' in t), ('generated-source', 'meson-generated_' in t),
                                      ('link_whole', 'link_whole' in mb), ('both-reuse-objects', 'both_libraries' in mb),
                                      ('unity_size', any(a.startswith('-Dunity_size=') for a in job['args']))):
                    if present:
                        ctx.tag('feat:' + feat)
            ctx.seen_nontrivial((label, job.get('seed') or job.get('name')))
            if group == 'collision':
                kind = label.split(':', 1)[1]
                ctx.tag('collision-accepted:' + kind)
                if kind in DEFINITE_COLLISIONS:
                    # the property's last clause: such a pair must be rejected at configure time
                    ctx.violation(f'collision-accepted:{kind}',
                                  f'two targets whose outputs collide ({kind}) configured successfully', replay_case(r))
            if len(ctx.samples) < 4 and group == 'gen':
                ctx.sample({'label': label, 'seed': job.get('seed'), 'edges': ne, 'reqs': len(r['reqs'])})
        else:
            if r.get('harness_error'):
                ctx.tag('harness-error:' + group)
                ctx.notes.append(f'{job.get("name") or label}: {r["error"]}')
            elif r.get('timeout'):
                ctx.tag('timeout:' + group)
                ctx.notes.append(f'timeout configuring {job.get("name") or label}')
            elif group == 'collision':
                how = 'backend' if 'Multiple producers' in r['error'] else 'interpreter'
                ctx.tag(f'collision-rejected:{label.split(":", 1)[1]}:{how}')
                ctx.seen_nontrivial((label, job.get('seed')))
            elif group == 'corpus':
                ctx.tag('corpus-not-configurable')
            elif group in ('pipe', 'fixed-pipe') and 'Ninja cannot represent the path' in r['error']:
                # a name with `|`: rejected at configure time by ninja_quote; the message must name the path
                named = re.search(r"the path (['\"]).*\|.*\1", r['error']) is not None
                ctx.tag('pipe-rejected-at-configure' + ('' if named else ':path-not-named'))
                if not named:
                    ctx.violation('pipe-rejection-without-path', 'the configure error for a path with | does not name the path',
                                  replay_case(r))
                ctx.seen_nontrivial((label, job.get('seed')))
            elif group in ('gen', 'pipe') and '--layout=flat' in job['args'] and 'Multiple producers' in r['error']:
                # the same name in two directories / in a subproject: collides under layout=flat, rejected at configure time
                ctx.tag('flat-collision-rejected')
            elif group in ('gen', 'pipe') and job.get('options') and not re.search(r'meson\.build:\d+:\d+: ERROR', r['error']) \
                    and 'Multiple producers' not in r['error']:
                # an option combination this toolchain refuses (e.g. thin LTO with gcc): nothing was generated
                ctx.tag('option-combination-rejected')
            elif label == 'fixed-objname-clash' and 'Multiple producers' in r['error']:
                ctx.tag('objname-clash-rejected')
            else:
                ctx.tag(f'configure-failed:{group}')
                if group in ('gen', 'fixed-basic', 'grid'):
                    # the generator promises valid projects: a failure is a harness defect worth seeing, not a verdict
                    ctx.notes.append(f'generated project failed to configure ({label} seed={job.get("seed")}): {r["error"][:160]}')
    return recs


# ---------------------------------------------------------------------------------------------------------------
# checker vs oracle on random graphs and mutated manifests

def rand_graph(rng):
    nodes = [f'n{i}' for i in range(rng.randint(2, 8))] + rng.sample(['a b', 'x:y', '../s.c', '/abs', 'é'], rng.randint(0, 2))
    rules = rng.sample(['R', 'S', 'CC'], rng.randint(0, 3))
    edges = []
    style = rng.random()
    for k in range(rng.randint(0, 7)):
        if style < 0.45:
            # layered: mostly acyclic, mostly unique
            outs = [f'o{k}'] + ([f'o{k}b'] if rng.random() < 0.3 else [])
            pool = [f'o{j}' for j in range(k)] + nodes[:3]
            if rng.random() < 0.08:
                pool.append(f'o{k}')
            if rng.random() < 0.08:
                pool.append(f'o{k + 1}')
            ins = [rng.choice(pool) for _ in range(rng.randint(0, 3))]
            if rng.random() < 0.06 and k:
                outs.append(f'o{rng.randrange(k)}')
        else:
            outs = [rng.choice(nodes) for _ in range(rng.randint(0, 2))]
            ins = [rng.choice(nodes) for _ in range(rng.randint(0, 3))]
        vals = [rng.choice(nodes)] if rng.random() < 0.1 else []
        rule = rng.choice(['phony', 'R', 'S', 'CC', 'U'] if rng.random() < 0.5 else ['phony'] + rules)
        pool = rng.choice(['', '', '', 'console', 'link_pool', 'p2', 'nope'])
        edges.append({'rule': rule, 'outs': outs, 'iouts': [], 'ins': ins, 'impl': [], 'oo': [], 'vals': vals, 'pool': pool})
    allnodes = sorted({x for e in edges for x in e['outs'] + e['ins'] + e['vals']} | set(nodes))
    fs = [x for x in allnodes if rng.random() < (0.8 if style < 0.45 else 0.4)]
    reqs = [(rng.choice(allnodes), rng.choice(allnodes)) for _ in range(rng.randint(0, 3))]
    pools = [rng.choice(['link_pool', 'p2', 'link_pool', 'console' if rng.random() < 0.1 else 'p3'])
             for _ in range(rng.randint(0, 3))] if rng.random() < 0.7 else ['link_pool', 'p2']
    defaults = [rng.choice(allnodes) for _ in range(rng.randint(0, 2))] if rng.random() < 0.6 else []
    # the install clause: a root (mostly an output) and files the install step copies (outputs and plain files)
    outs_all = [o for e in edges for o in e['outs']] or allnodes
    iroot = rng.choice(outs_all if rng.random() < 0.8 else allnodes)
    inst = [rng.choice(outs_all if rng.random() < 0.7 else allnodes) for _ in range(rng.randint(0, 3))] if rng.random() < 0.7 else []
    return rules, edges, fs, reqs, pools, defaults, iroot, inst


def graph_line(rules, edges, fs, reqs, pools, defaults, iroot='install', inst=()) -> str:
    es = '/'.join(';'.join([enc(e['rule']), enc_list(edge_all_outs(e)), enc_list(edge_all_ins(e)), enc_list(e['vals']),
                            enc(e.get('pool', ''))]) for e in edges)
    return (f'checkg {enc_list(rules)}|{es}|{enc_list(fs)}|{enc_list([x for rt in reqs for x in rt])}|'
            f'{enc_list(pools)}|{enc_list(defaults)}|{enc(iroot)}|{enc_list(inst)}')


def run_graphs(ctx: Ctx) -> None:
    rng = ctx.rng
    n = ctx.scale(4000, 60000)
    cases = [rand_graph(rng) for _ in range(n)]
    ans = ctx.driver('ninja', [graph_line(*c) for c in cases]) if ctx.model_available else []
    for c, a in zip(cases, ans):
        rules, edges, fs, reqs, pools, defaults, iroot, inst = c
        fss = set(fs)
        ov = oracle_check(rules, edges, lambda p: p in fss, reqs, pools, defaults, inst, iroot)
        lv = parse_verdict(a)
        ctx.count()
        ctx.extra['disagreements_checked'] = ctx.extra.get('disagreements_checked', 0) + 1
        ctx.tag('graph:' + ''.join(str(int(ov[k])) for k in CLAUSES[1:]))
        if 'error' in lv or any(lv[k] != ov[k] for k in CLAUSES):
            ctx.disagreement({'kind': 'graph-verdict', 'input': [rules, edges, fs, reqs, pools, defaults, iroot, inst], 'lean': a[:300],
                              'oracle': {k: ov[k] for k in CLAUSES}})


def mutate_text(rng, text: str) -> T.Tuple[str, str]:
    lines = text.split('\n')
    builds = [i for i, l in enumerate(lines) if l.startswith('build ')]
    rulesl = [i for i, l in enumerate(lines) if l.startswith('rule ')]
    kind = rng.choice(['drop-rule', 'dup-output', 'back-edge', 'drop-build', 'rename-rule', 'self-loop', 'garbage',
                       'dup-rule', 'bad-default', 'none', 'rule-pool-undeclared', 'build-pool-undeclared', 'pool-declared',
                       'pool-twice', 'drop-pool-decl', 'unknown-statement'])
    if not builds or not rulesl:
        return 'none', text

    def block_end(i):
        j = i + 1
        while j < len(lines) and lines[j].startswith(' '):
            j += 1
        return j

    def first_out(i):
        m = re.match(r'build ((?:\$.|[^ $:|])+)', lines[i])
        return m.group(1) if m else None
    if kind == 'drop-rule':
        i = rng.choice(rulesl)
        del lines[i:block_end(i)]
    elif kind == 'dup-output':
        i, j = rng.choice(builds), rng.choice(builds)
        o = first_out(j)
        if o:
            lines[i] = 'build ' + o + ' ' + lines[i][6:]
    elif kind == 'back-edge':
        a, b = sorted([rng.randrange(len(builds)), rng.randrange(len(builds))])
        o = first_out(builds[b])
        if o:
            lines[builds[a]] += (' ' if ' || ' in lines[builds[a]] else ' || ') + o
    elif kind == 'drop-build':
        i = rng.choice(builds)
        del lines[i:block_end(i)]
    elif kind == 'rename-rule':
        i = rng.choice(builds)
        lines[i] = re.sub(r': ([A-Za-z0-9_.\-]+)', r': \1_NOPE', lines[i], count=1)
    elif kind == 'self-loop':
        i = rng.choice(builds)
        o = first_out(i)
        if o:
            lines[i] += (' ' if ' || ' in lines[i] else ' || ') + o
    elif kind == 'garbage':
        i = rng.randrange(len(lines))
        lines.insert(i, rng.choice(['  stray = 1', 'build : phony', 'build x y', 'rule', 'x $', 'build a: phony $q$', 'default',
                                    'build a$:b: phony | c || d |@ e', 'v = 1', 'include foo.ninja', 'pool p', 'build q: phony x | y | z']))
    elif kind == 'dup-rule':
        i = rng.choice(rulesl)
        blk = lines[i:block_end(i)]
        lines[i:i] = blk + ['']
    elif kind == 'rule-pool-undeclared':
        i = rng.choice(rulesl)
        lines.insert(i + 1, ' pool = some_pool')
    elif kind == 'build-pool-undeclared':
        i = rng.choice(builds)
        lines.insert(i + 1, ' pool = ' + rng.choice(['some_pool', 'console', '']))
    elif kind == 'pool-declared':
        i = rng.choice(rulesl)
        lines.insert(i + 1, ' pool = some_pool')
        lines[0:0] = ['pool some_pool', ' depth = ' + rng.choice(['0', '1', '7']), '']
    elif kind == 'pool-twice':
        lines[0:0] = ['pool some_pool', ' depth = 2', '', 'pool ' + rng.choice(['some_pool', 'console', 'other']), ' depth = 1', '']
    elif kind == 'drop-pool-decl':
        pl = [i for i, l in enumerate(lines) if l.startswith('pool ')]
        if pl:
            i = rng.choice(pl)
            del lines[i:block_end(i)]
        else:
            kind = 'none'
    elif kind == 'unknown-statement':
        i = rng.choice(builds)
        lines.insert(i, rng.choice(['dyndep_default x', 'phony a: b', 'builddir', 'rule2 X', 'pool', 'buildx a: phony']))
    elif kind == 'bad-default':
        lines.append('default nothing-like-this')
        lines.append('')
    return kind, '\n'.join(lines)


def run_mutated_manifests(ctx: Ctx, recs: T.List[dict]) -> None:
    rng = ctx.rng
    pool = [r for r in recs if r.get('ok') and r.get('pygraph') and len(r['ninja']) < 60000]
    if not pool or not ctx.model_available:
        return
    n = ctx.scale(150, 1500)
    cases = []
    for _ in range(n):
        r = rng.choice(pool)
        kind, text = mutate_text(rng, r['ninja'])
        cases.append((kind, text, r))
    lines = []
    for kind, text, r in cases:
        reqs = [x for rt in r['reqs'] for x in rt]
        lines.append(f'check {enc(text)}|{enc_list(r["fs"])}|{enc_list(reqs)}|{enc_list(r.get("inst", []))}')
    ans = ctx.driver('ninja', lines)
    for (kind, text, r), a in zip(cases, ans):
        ctx.count()
        ctx.extra['disagreements_checked'] = ctx.extra.get('disagreements_checked', 0) + 1
        fss = set(r['fs'])
        lv = parse_verdict(a)
        try:
            g = py_parse(text)
        except ManifestError as e:
            ctx.tag(f'mutant:{kind}:ERR:{e.cls}:{e.kind}')
            if 'error' not in lv:
                ctx.disagreement({'kind': 'mutant-parse', 'mutation': kind, 'oracle': str(e), 'lean': a[:200], 'input': text})
            elif e.cls == 'Load' and lv['error'].startswith('ERR:Load:') and f'ERR:Load:{e.kind}:' not in lv['error']:
                # (the Lean reader parses the whole text before loading, so a later syntax error may win: both reject)
                ctx.disagreement({'kind': 'mutant-load-error', 'mutation': kind, 'oracle': str(e), 'lean': a[:200], 'input': text})
            continue
        ov = oracle_check(g['rules'], g['edges'], lambda p: p in fss, r['reqs'], g.get('pools', ()), g.get('defaults', ()),
                          r.get('inst', ()))
        ctx.tag(f'mutant:{kind}:' + ''.join(str(int(ov[k])) for k in CLAUSES[1:]))
        if 'error' in lv or any(lv[k] != ov[k] for k in CLAUSES):
            ctx.disagreement({'kind': 'mutant-verdict', 'mutation': kind, 'lean': a[:300],
                              'oracle': {k: ov[k] for k in CLAUSES}, 'input': text})


# ---------------------------------------------------------------------------------------------------------------
# emission discipline: model vs the real classes

E_NAMES = ['a', 'b', 'c', 'a b', 'x:y', 'd$', 'sub/o', 'é', 'o.h', 'dir/../a', 'q\\r', '#h', 'a', 'b', 'p|q']
E_RULES = ['R1', 'R2', 'CC', 'phony', 'R1_RSP', 'R1']
LONG_ARG = 'x' * 17000


def rand_ops(rng) -> T.List[tuple]:
    ops = []
    if rng.random() < 0.7:
        # the usual discipline: rules first
        for r in rng.sample(['R1', 'R2', 'CC'], rng.randint(1, 3)):
            ops.append(('R', r, rng.random() < 0.5))
    for _ in range(rng.randint(0, 8)):
        if rng.random() < 0.35:
            ops.append(('R', rng.choice(E_RULES[:3] + E_RULES[4:]) if rng.random() < 0.9 else 'phony', rng.random() < 0.5))
        else:
            def names(lo, hi):
                return [rng.choice(E_NAMES) for _ in range(rng.randint(lo, hi))]
            outs = names(1, 2)
            if rng.random() < 0.03:
                outs[0] = 'new\nline'
            ins = names(0, 2) if rng.random() < 0.85 else ['']
            ops.append(('B', outs, names(0, 1) if rng.random() < 0.2 else [], rng.choice(E_RULES), ins,
                        names(0, 2), names(0, 2), rng.random() < 0.3))
    return ops


def ops_line(ops) -> str:
    parts = []
    for op in ops:
        if op[0] == 'R':
            parts.append(f'R;{enc(op[1])};{int(op[2])}')
        else:
            _, outs, iouts, rn, ins, deps, odeps, long = op
            parts.append(';'.join(['B', enc_list(outs), enc_list(iouts), enc(rn), enc_list(ins), enc_list(deps),
                                   enc_list(odeps), str(int(long))]))
    return 'emit ' + '/'.join(parts)


def real_emit(ops) -> T.Tuple[str, str, T.Optional[str]]:
    """-> (steps, status, text)"""
    from mesonbuild.backend import ninjabackend as NB
    from mesonbuild.utils.universal import MesonException
    nb = NB.NinjaBuild()
    all_outputs: T.Set[str] = set()
    steps = ''
    for op in ops:
        if op[0] == 'R':
            try:
                nb.add_rule(NB.NinjaRule(op[1], ['tool', '$ARGS'], ['$in'], 'desc $out', rspable=op[2]))
                steps += '1'
            except MesonException:
                steps += '0'
        else:
            _, outs, iouts, rn, ins, deps, odeps, long = op
            el = NB.NinjaBuildElement(all_outputs, list(outs), rn, ins[0] if ins == [''] else list(ins),
                                      implicit_outs=list(iouts))
            el.add_dep(list(deps))
            el.add_orderdep(list(odeps))
            if long:
                el.add_item('ARGS', [LONG_ARG])
            nb.add_build(el)
            steps += '1'
    buf = io.StringIO()
    try:
        nb.write(buf)
    except AttributeError:
        return steps, 'ERR:UnmappedRule', None
    except MesonException as e:
        msg = str(e)
        if msg.startswith('Multiple producers'):
            return steps, 'ERR:MultipleProducers', None
        if 'does not support newlines' in msg:
            return steps, 'ERR:Newline', None
        if 'Ninja cannot represent the path' in msg:
            return steps, 'ERR:Pipe', None
        return steps, 'ERR:' + type(e).__name__, None
    return steps, 'OK', buf.getvalue()


def raw_build_lines(text: str) -> T.List[dict]:
    """build statements of a freshly written manifest without canonicalisation (reader of py_parse, raw names)"""
    out = []
    for ln in _logical_lines(text):
        if ln.startswith('build '):
            toks = _expand(ln[6:], {}, path_mode=True)
            groups = {'outs': [], 'iouts': [], 'rule': [], 'ins': [], 'deps': [], 'odeps': []}
            state = 'outs'
            for t in toks:
                if isinstance(t, tuple):
                    state = {(':', 'outs'): 'rule', (':', 'iouts'): 'rule', ('|', 'outs'): 'iouts', ('|', 'ins'): 'deps',
                             ('|', 'rule'): 'deps', ('||', 'ins'): 'odeps', ('||', 'deps'): 'odeps', ('||', 'rule'): 'odeps'
                             }.get((t[1], state), 'bad')
                    if state == 'bad':
                        raise ManifestError('Parse', 'raw')
                else:
                    if state == 'rule' and groups['rule']:
                        state = 'ins'
                    groups[state].append(t)
            out.append(groups)
    return out


def run_emission(ctx: Ctx) -> None:
    from mesonbuild import mlog
    rng = ctx.rng
    n = ctx.scale(1500, 20000)
    cases = [rand_ops(rng) for _ in range(n)]
    with mlog.no_logging():
        reals = [real_emit(ops) for ops in cases]
    ans = ctx.driver('ninja', [ops_line(o) for o in cases]) if ctx.model_available else [None] * n
    plines = []
    pidx = []
    for k, (ops, (steps, status, text), a) in enumerate(zip(cases, reals, ans)):
        ctx.count()
        ctx.tag('emit:' + status)
        # property oracle on the implementation's own output (no model in the loop)
        if text is not None:
            try:
                bl = raw_build_lines(text)
                rulenames = set(re.findall(r'^rule (\S+)$', text, re.M))
                outs = [o for b in bl for o in b['outs']]
                srcouts = [o for op in ops if op[0] == 'B' for o in op[1]]
                if len(set(outs)) != len(outs) and not any('\\' in o for o in srcouts):
                    ctx.violation(f'emission-duplicate-output:{len(ops)}', 'NinjaBuild.write emitted one path as explicit output twice',
                                  {'ops': ops})
                for b in bl:
                    if b['rule'] != ['phony'] and (len(b['rule']) != 1 or b['rule'][0] not in rulenames):
                        ctx.violation(f'emission-undefined-rule:{len(ops)}', 'NinjaBuild.write emitted a build statement whose rule is not emitted',
                                      {'ops': ops})
            except ManifestError as e:
                ctx.notes.append(f'emission text unreadable by the oracle reader: {e} {ops!r}'[:200])
        if a is None:
            continue
        ctx.extra['disagreements_checked'] = ctx.extra.get('disagreements_checked', 0) + 1
        parts = a.split('|')
        mstatus = parts[0]
        msteps = parts[1].partition('=')[2] if len(parts) > 1 else ''
        if mstatus != status or msteps != steps:
            ctx.disagreement({'kind': 'emit-status', 'input': ops, 'impl': [steps, status], 'model': a[:200]})
            continue
        if text is None:
            continue
        mrules = []
        mb = []
        for p in parts[2:]:
            if p.startswith('P:'):
                # the model's printed build lines vs the lines NinjaBuildElement.write produced (character for character)
                impl_lines = ''.join(ln + '\n\n' for ln in text.split('\n') if ln.startswith('build '))
                if dec(p[2:]) != impl_lines:
                    ctx.disagreement({'kind': 'emit-printed-lines', 'input': ops, 'impl': impl_lines[:300], 'model': dec(p[2:])[:300]})
                continue
            if p.startswith('R:'):
                mrules = dec_list(p[2:])
            elif p.startswith('B:'):
                f = p[2:].split(';')
                mb.append({'outs': dec_list(f[0]), 'iouts': dec_list(f[1]), 'rule': [dec(f[2])],
                           'ins': [x for x in dec_list(f[3])], 'deps': dec_list(f[4]), 'odeps': dec_list(f[5])})
        irules = re.findall(r'^rule (\S+)$', text, re.M)
        try:
            ib = raw_build_lines(text)
        except ManifestError:
            ib = None
        # '' as a name prints as nothing
        for b in mb:
            for kk in ('outs', 'iouts', 'ins', 'deps', 'odeps'):
                b[kk] = [x for x in b[kk] if x != '']
        if mrules != irules or ib != mb:
            ctx.disagreement({'kind': 'emit-text', 'input': ops, 'impl_rules': irules, 'model_rules': mrules,
                              'impl_builds': ib, 'model_builds': mb})
        elif len(plines) < ctx.scale(300, 3000):
            # and the Lean manifest reader must read the written text like the oracle reader
            plines.append('parse ' + enc(text))
            pidx.append(k)
        ctx.seen_nontrivial(('emit', status, len(ops), tuple(op[0] for op in ops)))
    if plines:
        pans = ctx.driver('ninja', plines)
        for k, a in zip(pidx, pans):
            text = reals[k][2]
            ctx.extra['disagreements_checked'] = ctx.extra.get('disagreements_checked', 0) + 1
            try:
                g = py_parse(text)
            except ManifestError as e:
                ctx.tag(f'emit-text-unloadable:{e.cls}:{e.kind}')
                if a.startswith('OK') or (e.cls == 'Load' and f'ERR:Load:{e.kind}:' not in a):
                    ctx.disagreement({'kind': 'emit-parse-error', 'input': cases[k], 'oracle': str(e), 'lean': a[:200]})
                continue
            lp = parse_dump(a)
            if isinstance(lp, str) or not same_graph(lp, {'rules': g['rules'], 'defaults': g['defaults'], 'edges': g['edges'], 'pools': g['pools']}):
                ctx.disagreement({'kind': 'emit-parse', 'input': cases[k], 'lean': a[:300]})


def run_canon(ctx: Ctx) -> None:
    rng = ctx.rng
    comps = ['a', 'b', '..', '.', '', 'c d', '...', 'é']
    cases = ['', '/', '.', '..', 'a/..', '/..', '//a', 'a//b/', './a', '../../a/../b']
    for _ in range(ctx.scale(800, 8000)):
        cases.append(('/' if rng.random() < 0.3 else '') + '/'.join(rng.choice(comps) for _ in range(rng.randint(1, 6))))
    if not ctx.model_available:
        return
    ans = ctx.driver('ninja', ['canon ' + enc(c) for c in cases])
    for c, a in zip(cases, ans):
        ctx.count()
        ctx.extra['disagreements_checked'] = ctx.extra.get('disagreements_checked', 0) + 1
        if dec(a) != py_canon(c):
            ctx.disagreement({'kind': 'canon', 'input': c, 'lean': dec(a), 'oracle': py_canon(c)})


def run_quote(ctx: Ctx) -> None:
    """ninja_quote(name, True) of the implementation vs the model (accept/raise and the text); and the property on the
    implementation: whatever is accepted is read back as that name by the independent reader `_expand`"""
    from mesonbuild.backend import ninjabackend as NB
    from mesonbuild.utils.universal import MesonException
    rng = ctx.rng
    alphabet = list('ab.-_/ $:|#\\\'"é中@~') + ['$$', ' :', '  ', '\n']
    cases = ['', 'a', 'a b', 'a:b', 'a$b', 'a|b', '$', ':', ' ', 'é b', 'x$ y', 'a$:b', '|', 'a\nb', '|\n']
    for _ in range(ctx.scale(1500, 15000)):
        cases.append(''.join(rng.choice(alphabet) for _ in range(rng.randint(0, 8))))

    def impl(c):
        try:
            return NB.ninja_quote(c, True)
        except MesonException as e:
            return ('RAISES', str(e))
    quoted = [impl(c) for c in cases]
    acc = [k for k, q in enumerate(quoted) if isinstance(q, str)]
    ans = ctx.driver('ninja', ['quote ' + enc(c) for c in cases] + ['readpath ' + enc(quoted[k] + ': phony') for k in acc]) \
        if ctx.model_available else None
    pos = {k: j for j, k in enumerate(acc)}
    for k, (c, q) in enumerate(zip(cases, quoted)):
        ctx.count()
        if not isinstance(q, str):
            ctx.tag('quote:raises:' + ('newline' if '\n' in c else 'pipe'))
            if '|' in c and '\n' not in c and repr(c) not in q[1]:
                ctx.violation(f'quote-message:{c!r}', 'the rejection of a path with | does not name the path', {'name': c, 'message': q[1]})
            if ans is not None:
                ctx.extra['disagreements_checked'] = ctx.extra.get('disagreements_checked', 0) + 1
                if ans[k] != 'RAISES':
                    ctx.disagreement({'kind': 'quote', 'input': c, 'impl': 'RAISES', 'model': ans[k][:80]})
            continue
        ctx.tag('quote:accepted')
        toks = _expand(q + ': phony', {}, path_mode=True)
        first = toks[0] if toks and isinstance(toks[0], str) else ''
        if c and first != c:
            key = 'pipe-in-path' if '|' in c else f'quote-readback:{c!r}'
            ctx.violation(key, 'ninja_quote(name, True) accepts the name but the text is not read back as the name',
                          {'name': c, 'quoted': q, 'read': first})
        if ans is not None:
            ctx.extra['disagreements_checked'] = ctx.extra.get('disagreements_checked', 0) + 2
            if ans[k] != 'OK|' + enc(q):
                ctx.disagreement({'kind': 'quote', 'input': c, 'impl': q, 'model': ans[k][:80]})
            a = ans[len(cases) + pos[k]]
            lean_first = dec(a.split('|')[1]) if a.startswith('OK|') else a
            if c and lean_first != first:
                ctx.disagreement({'kind': 'readpath', 'input': q, 'lean': a[:120], 'oracle': first})


# ---------------------------------------------------------------------------------------------------------------

# producer / consumer classes of mesonbuild.build that the generator's sharing table (projgen._Gen.SHARE) was written
# against; a class that appears or disappears in the live module makes the run deep and leaves a note
KNOWN_BUILD_CLASSES = {
    'covered': {'Executable', 'StaticLibrary', 'SharedLibrary', 'SharedModule', 'BothLibraries', 'CustomTarget',
                'CustomTargetIndex', 'GeneratedList', 'Generator', 'ExtractedObjects', 'RunTarget', 'AliasTarget',
                'Test', 'Data', 'ConfigurationData', 'Headers', 'InstallDir', 'LocalProgram', 'IncludeDirs'},
    'not-generated-here': {'Jar', 'CompileTarget', 'StructuredSources', 'Man', 'EmptyDir', 'SymlinkData', 'OverrideExecutable',
                           'DependencyOverride', 'DepManifest', 'EnvironmentVariables', 'ExecutableSerialisation',
                           'CustomTargetBase', 'CommandBase', 'HoldableObject', 'ObjectHolder', 'Build', 'Target',
                           'BuildTarget', 'TargetSources', 'MachineMap', 'ThreeMachineChoice', 'MapPerMachine',
                           # internal helpers reached through generator.process(GeneratedList) / link_with, both generated
                           'FileInTargetPrivateDir', 'FileMaybeInTargetPrivateDir', 'LinkableTarget'},
}


def check_build_classes(ctx: Ctx) -> None:
    import inspect
    from mesonbuild import build as B
    live = {n for n, o in vars(B).items() if inspect.isclass(o) and o.__module__ == B.__name__
            and not issubclass(o, BaseException) and not n.startswith('_')}
    interesting = {n for n in live if any(k in n for k in ('Target', 'Library', 'Executable', 'Generat', 'Extract', 'Module',
                                                           'Jar', 'Sources', 'Program'))}
    known = KNOWN_BUILD_CLASSES['covered'] | KNOWN_BUILD_CLASSES['not-generated-here']
    new = sorted(interesting - known)
    gone = sorted((KNOWN_BUILD_CLASSES['covered'] & {'Executable', 'StaticLibrary', 'SharedLibrary', 'SharedModule', 'CustomTarget',
                                                    'CustomTargetIndex', 'GeneratedList', 'ExtractedObjects'}) - live)
    ctx.extra['build_classes_covered_by_generator'] = sorted(KNOWN_BUILD_CLASSES['covered'] & live)
    if new or gone:
        ctx.deep = True
        ctx.notes.append(f'mesonbuild.build classes changed: new producer/consumer kinds not in the generator {new}, missing {gone}: '
                         'deep run; extend projgen._Gen.SHARE')


def run(ctx: Ctx) -> None:
    ctx.rule = ('a project counts once per (generator seed | corpus name, option combination); graphs/op sequences count '
                'per distinct input')
    ctx.assumptions += [
        'ninja semantics = MesonModel/Ninja/Manifest.lean (ninja 1.11 lexer/parser/CanonicalizePath, POSIX); no ninja binary available',
        'host = Linux/gcc: implicit outputs (import libraries, pdb) of other platforms are not exercised',
        'generated names avoid newline, `/` and `\\` inside target names (meson rejects path separators) and `@` in custom target outputs',
        'corpus projects needing tools absent here (or configured only under the project-tests runner) are skipped',
    ]
    ctx.extra['programs'] = 0
    ctx.extra['disagreements_checked'] = 0
    if os.environ.get('VERIF_C04_SIZE') == 'quick':
        # debugging aid for mutation runs (VERIF_REPO changes the pins, which would force the thorough size)
        ctx.deep = False
        ctx.notes.append('VERIF_C04_SIZE=quick: sizes forced to the quick tier')
    import time
    t = [time.time()]

    def lap(name):
        t.append(time.time())
        ctx.notes.append(f'phase {name}: {t[-1] - t[-2]:.1f}s')
    check_build_classes(ctx)
    if os.environ.get('VERIF_C04_SIZE') == 'quick':
        ctx.deep = False
    run_canon(ctx)
    run_quote(ctx)
    lap('canon+quote')
    recs = run_projects(ctx)
    lap('projects')
    run_graphs(ctx)
    lap('graphs')
    run_mutated_manifests(ctx, recs)
    lap('mutants')
    run_emission(ctx)
    lap('emission')
    c04_ending.run_ending_stream(ctx)
    lap('ending')


def search(ctx: Ctx, disagreements: T.List[dict]) -> None:
    """failing-input search on the implementation only: a larger project sample through the oracle,
    seeded by the projects on which checker and oracle differed"""
    def jobs_fn(c, scratch):
        jobs = []
        for d in disagreements:
            case = d.get('case')
            if case and case.get('files'):
                jobs.append({'kind': 'files', 'label': 'search:' + str(case.get('label')), 'files': case['files'],
                             'args': case.get('args') or [], 'env': case.get('env')})
        rng = c.rng
        matrix = projgen.option_matrix()
        for i in range(160):
            label, args = rng.choice(matrix)
            feats: dict = {}
            if i % 4 == 0:
                kind = projgen.COLLISION_KINDS[(i // 4) % len(projgen.COLLISION_KINDS)]
                feats = {'collision': kind}
                if kind.startswith('flat-'):
                    args = ['--layout=flat'] + [a for a in args if not a.startswith('--layout')]
                label = 'collision:' + kind
                jobs.append({'kind': 'gen', 'label': label, 'seed': rng.getrandbits(48), 'features': feats, 'args': args})
            else:
                jobs.append(gen_job(rng, label, args))
        for k, j in enumerate(jobs):
            j['scratch'] = os.path.join(scratch, f's{k}')
        return jobs
    run_projects(ctx, oracle_only=True, jobs_fn=jobs_fn)
    # emission: the oracle part of run_emission on a larger sample
    saved = ctx.model_available
    ctx.model_available = False
    try:
        ctx.deep = True
        run_emission(ctx)
    finally:
        ctx.model_available = saved


def replay(ctx: Ctx, rep: dict) -> None:
    case = rep.get('case', {})
    print('replay:', rep.get('what'))
    if 'ops' in case:
        ops = [tuple(o) for o in case['ops']]
        print('impl:', real_emit(ops)[:2])
        if ctx.model_available:
            print('model:', ctx.driver('ninja', [ops_line(ops)])[0][:300])
        return
    if 'ending' in case:
        c = case['ending']
        real = c04_ending.real_ending(c['rows'], c['tests'], c['benches'], c['layout'])
        print('impl:', real)
        print('documented built-by-default rows:', [i for i, r in enumerate(c['rows']) if r.get('attr_bbd')])
        if ctx.model_available:
            print('model:', ctx.driver('ninja', [c04_ending.ending_line(c['rows'], c['tests'], c['benches'])])[0][:400])
        return
    scratch = common.scratch_dir('mverif-c04-')
    try:
        if case.get('kind') == 'corpus':
            job = {'kind': 'corpus', 'label': 'corpus', 'name': case['name'], 'args': case.get('args') or []}
        else:
            job = {'kind': 'files', 'label': case.get('label') or 'replay', 'files': case['files'], 'args': case.get('args') or [],
                   'env': case.get('env')}
            if case.get('failing_subproject'):
                job['spec'] = {'targets': [], 'tests': [], 'failing_subproject': case['failing_subproject']}
            if case.get('grid'):
                job['spec'] = {'targets': [], 'tests': [], 'grid': case['grid'], 'gtests': case.get('gtests', [])}
        job['scratch'] = os.path.join(scratch, 'r')
        rec = run_job(job)
        print('configured:', rec['ok'], rec.get('error'))
        label = str(case.get('label') or '')
        if rec['ok'] and label.startswith('collision:') and label.split(':', 1)[1] in DEFINITE_COLLISIONS:
            kind = label.split(':', 1)[1]
            print('colliding targets were accepted at configure time')
            ctx.violation(f'collision-accepted:{kind}', f'two targets whose outputs collide ({kind}) configured successfully', case)
        if rec['ok']:
            t = enc(rec['ninja'])
            reqs = [x for rt in rec['reqs'] for x in rt]
            a = ctx.driver('ninja', [f'check {t}|{enc_list(rec["fs"])}|{enc_list(reqs)}|{enc_list(rec.get("inst", []))}'])[0] \
                if ctx.model_available else None
            if rec['pyerr'] is None:
                fs = set(rec['fs'])
                ov = oracle_check(rec['pygraph']['rules'], rec['pygraph']['edges'], lambda p: p in fs, rec['reqs'],
                                  rec['pygraph'].get('pools', ()), rec['pygraph'].get('defaults', ()), rec.get('inst', ()))
                print('oracle:', {k: ov[k] for k in CLAUSES}, ov['detail'])
            else:
                print('oracle: manifest unreadable:', rec['pyerr'])
            if a:
                print('checker:', a[:400])
            judge_project(ctx, rec, a, None)
    finally:
        common.rmtree(scratch)
