"""C05 — the generated build graph is dependency-complete: any valid schedule builds the same thing.

Per project (fixed corpus `harness/c05_projects/*`, random `c05_gen` projects with load-bearing dependencies, `projgen`
projects for breadth of target kinds / names / layouts):  real `meson setup` (stand-in `ninja` on PATH), `build.ninja` read
by the Python reader `c05_ninja`, then the reference executor `c05_exec` runs the *real* commands (gcc, ar, python):

 (a) hermetic replay of every step in a build directory that holds only the configure-time files and the outputs of the
     step's declared ancestors (copied from a reference build) — must succeed with the reference bytes; what the step
     looked for is traced with strace, and a look at an (absent) output of a non-ancestor is followed up by a second
     replay with that output present;
 (b) complete schedules: reverse declaration order, deepest-last, deepest-first, compiles-first, lowest-first, random,
     and a really concurrent one (-j4) — every step must succeed and every output must have the reference bytes.

The oracle never consults Lean.  The Lean side (`MesonModel/Graph`, theorems in `Props/C05`) proves that (a) for all steps
implies (b) for *all* schedules, and the converse; here it re-parses the same `build.ninja` with the C04 manifest model,
recomputes every step's ancestor set and re-validates every schedule the executor used (`ctx.disagreement` on any
difference).  Projects of the producer-form matrix (`c05_forms`) carry their abstract target table; for them the order-only
inputs of every compile statement are compared with the set the Lean derivation model (`MesonModel/Graph/HeaderDeps`,
theorem `declared_order_only_covers_may_read`) derives from the table (`derivation_crosscheck`).
"""
from __future__ import annotations

import json
import multiprocessing
import os
import random
import sys
import time
import traceback
import typing as T

from . import common, projgen
from . import c05_exec as X
from . import c05_gen
from . import c05_depmx
from . import c05_forms
from .common import Ctx, enc

ID = 'C05'
LEVEL = 'other'
LEAN_TARGETS = ['MesonModel.Props.C05']
AREAS = ['graph']
PINS = [
    'mesonbuild.backend.ninjabackend:NinjaBackend.get_generated_headers',
    'mesonbuild.backend.ninjabackend:NinjaBackend.generate_target',
    'mesonbuild.backend.ninjabackend:NinjaBackend.generate_single_compile',
    'mesonbuild.backend.ninjabackend:NinjaBackend.add_header_deps',
    'mesonbuild.backend.ninjabackend:NinjaBackend.order_deps_to_strings',
    'mesonbuild.backend.ninjabackend:NinjaBackend.generate_custom_target',
    'mesonbuild.backend.ninjabackend:NinjaBackend.generate_genlist_for_target',
    'mesonbuild.backend.ninjabackend:NinjaBackend.generate_link',
    'mesonbuild.backend.ninjabackend:NinjaBackend.get_dependency_filename',
    'mesonbuild.backend.ninjabackend:NinjaBackend.generate_static_link_rules',
    'mesonbuild.backend.ninjabackend:NinjaBuildElement.write',
    'mesonbuild.backend.backends:Backend.get_target_deps',
    'mesonbuild.backend.backends:Backend.get_custom_target_sources',
    'mesonbuild.backend.backends:Backend.get_target_depend_files',
    'mesonbuild.backend.backends:Backend.eval_custom_target_command',
    'mesonbuild.build:flatten_command',
    'mesonbuild.dependencies.base:InternalDependency.get_partial_dependency',
    'mesonbuild.dependencies.base:InternalDependency.generate_link_whole_dependency',
    'mesonbuild.dependencies.base:InternalDependency.get_as_static',
    'mesonbuild.dependencies.base:InternalDependency.get_as_shared',
    'mesonbuild.dependencies.base:Dependency.generate_system_dependency',
    'mesonbuild.interpreter.interpreterobjects:DependencyHolder',
    'mesonbuild.build:BuildTarget.add_deps',
    'mesonbuild.build:StaticLibrary.link',
    'mesonbuild.build:StaticLibrary.link_whole',
    'mesonbuild.backend.backends:Backend.flatten_object_list',
    'mesonbuild.build:BuildTarget.get_all_link_deps',
    'mesonbuild.build:BuildTarget.get_dependencies',
    'mesonbuild.build:BuildTarget.get_generated_sources',
    'mesonbuild.build:CustomTarget.get_dependencies',
    'mesonbuild.build:CustomTarget.get_target_dependencies',
    'mesonbuild.build:BuildTarget.process_sourcelist',
    'mesonbuild.backend.backends:Backend.get_target_generated_dir',
    'mesonbuild.backend.ninjabackend:NinjaBackend.get_target_generated_sources',
]
TRUSTED = [
    'the tools run by the steps (gcc, ld, ar, python) are deterministic functions of the contents of the files they open; '
    'directory listings and the clock are not read (no generated project does)',
    'harness/c05_ninja.py: evaluation of rule/edge variables into the command line as ninja would (ninja itself is not '
    'available in this sandbox); graph structure cross-checked against the Lean manifest model on every project',
    'strace reports every path a step opens or stats (used only to name the missing producer and to pick follow-up replays)',
]

CORPUS_DIR = os.path.join(os.path.dirname(os.path.abspath(__file__)), 'c05_projects')

EXPLANATION = (
    'Theorems (Lean, all schedules of all graphs): if every step reads only files that no step produces or that a declared '
    'ancestor produces, then all complete valid schedules give the same result, and if each step replayed on its ancestors\' '
    'reference outputs reproduces the reference, every complete valid schedule succeeds with exactly the reference; conversely '
    'a read of a non-ancestor\'s output yields a valid complete schedule that runs the reader first. The hypothesis is decided '
    'per project by really executing each step of the real build.ninja hermetically (only configure-time files + ancestors\' '
    'outputs; strace names what it looked for) and by executing whole adversarial schedules; the quantifier over projects is '
    'sampled (fixed corpus of generated-header cases + random projects whose declared dependencies are all load-bearing + '
    'projgen projects + the producer-form matrix), the quantifier over schedules is discharged by the theorems. For compile '
    'statements the hypothesis is in addition proved for all target tables of the modelled fragment: the order-only derivation '
    '(process_sourcelist, add_deps, get_generated_headers, the header_deps loop) is a Lean model shown to declare every generated '
    'header a compile statement may read, and its output is compared with the real build.ninja on every table-carrying project.')


# ---------------------------------------------------------------- jobs

# projgen's own gen.py writes into *every* path argument, inputs included (it overwrites the executable or library it is
# given as `input:`); for an execution check the script must consume what exists and write what does not
SAFE_GEN_PY = '''#!/usr/bin/env python3
import os, sys, zlib
acc = 0
outs = []
for p in sys.argv[1:]:
    if p.startswith('-'):
        continue
    if os.path.exists(p):
        with open(p, 'rb') as f:
            acc = zlib.crc32(f.read(), acc)
    else:
        outs.append(p)
for p in outs:
    with open(p, 'w') as f:
        f.write('/* generated %d */\\n' % acc)
'''


# deliberately invalid projects: the executor must flag them, with one of these finding kinds (positive controls, run in
# every tier; a control that is *not* flagged is a failed obligation of the check itself)
CONTROLS = {
    '_control_missing_decl': ('needs-non-ancestor', 'hermetic-fail', 'schedule-fail'),
    '_control_present_sensitive': ('present-sensitive',),
}


# `cc.preprocess(..., include_directories: '.')` of a generated header cannot work when custom target outputs go to meson-out/
NO_FLAT = {'override_and_nested', 'hdr_reach'}


def corpus_projects(controls: bool = False) -> T.List[T.Tuple[str, T.Dict[str, str]]]:
    out = []
    tool = open(os.path.join(CORPUS_DIR, 'tool.py'), encoding='utf-8').read()
    for name in sorted(os.listdir(CORPUS_DIR)):
        top = os.path.join(CORPUS_DIR, name)
        if not os.path.isdir(top) or name.startswith('.') or (name in CONTROLS) != controls or \
                (name.startswith('_') and name not in CONTROLS):
            continue
        files: T.Dict[str, str] = {}
        for dp, _dn, fns in os.walk(top):
            for fn in fns:
                p = os.path.join(dp, fn)
                files[os.path.relpath(p, top)] = open(p, encoding='utf-8').read()
        files.setdefault('tool.py', tool)
        for sub in [k for k in files if k.startswith('subprojects/') and k.endswith('/meson.build') and k.count('/') == 2]:
            files.setdefault(os.path.join(os.path.dirname(sub), 'tool.py'), tool)
        out.append((name, files))
    return out


def worker(job: dict) -> dict:
    """configure + decide one project; everything needed to repeat it is in `job`"""
    t0 = time.time()
    root = common.scratch_dir('c05-')
    res: dict = {'id': job['id'], 'status': 'crash', 'findings': []}
    try:
        src = os.path.join(root, 'src')
        os.makedirs(src)
        for rel, text in job['files'].items():
            p = os.path.join(src, rel)
            os.makedirs(os.path.dirname(p), exist_ok=True)
            with open(p, 'w', encoding='utf-8') as f:
                f.write(text)
        slot = X.Slot(root)
        c = projgen.configure(src, slot.build, job.get('args', []))
        if not c['ok']:
            res.update(status='configure-failed', out=c['out'][-1500:])
            return res
        text = open(os.path.join(slot.build, 'build.ninja'), encoding='utf-8').read()
        res = X.check_built_project(slot, text, random.Random(job['seed']), job.get('n_random', 2), jobs=job.get('jobs', 4))
        res['id'] = job['id']
        res['ninja'] = text
        res['conf_wall'] = c['wall']
    except Exception:
        res['status'] = 'crash'
        res['trace'] = traceback.format_exc()[-2000:]
    finally:
        common.rmtree(root)
    res['wall'] = round(time.time() - t0, 2)
    return res


def make_jobs(ctx: Ctx) -> T.List[dict]:
    rng = ctx.rng
    jobs: T.List[dict] = []
    n_rand = ctx.scale(2, 3)
    corpus = corpus_projects()
    for name, files in corpus:
        jobs.append({'id': 'corpus/' + name, 'files': files, 'args': [], 'seed': rng.getrandbits(40), 'n_random': n_rand})
    for name, files in corpus:
        if name == 'ct_index_arg':
            # the same project under --layout=flat in every tier (regression guard for the repaired F-GRAPH-FLAT-CTINDEX)
            jobs.append({'id': 'corpus/ct_index_arg--layout=flat', 'files': files, 'args': ['--layout=flat'],
                         'seed': rng.getrandbits(40), 'n_random': 1})
    for name, files in corpus_projects(controls=True):
        jobs.append({'id': 'control/' + name, 'files': files, 'args': [], 'seed': rng.getrandbits(40), 'n_random': 1})
    variants = [[], [], ['-Dunity=on'], ['--layout=flat'], ['-Ddefault_library=both'], ['-Dunity=on', '-Dunity_size=2'],
                ['-Ddefault_library=static'], ['-Dbuildtype=release'], ['-Dbuildtype=plain', '-Ddefault_library=both']]
    if ctx.deep:
        for name, files in corpus:
            for v in (['-Dunity=on'], ['--layout=flat'], ['-Ddefault_library=both']):
                if v == ['--layout=flat'] and (name in NO_FLAT or name == 'ct_index_arg'):
                    continue
                jobs.append({'id': f'corpus/{name}{"".join(v)}', 'files': files, 'args': v, 'seed': rng.getrandbits(40),
                             'n_random': n_rand})
    for k in range(ctx.scale(6, 90)):
        sub = random.Random(rng.getrandbits(48))
        spec = c05_gen.gen_project(sub, max_items=ctx.scale(8, 12))
        args = rng.choice(variants)
        if spec.get('noflat') and '--layout=flat' in args:
            args = []      # a generator-made header is included by its path below the build root, which layout=flat changes
        jobs.append({'id': f'gen/{k}', 'files': spec['files'], 'args': args, 'seed': rng.getrandbits(40),
                     'n_random': n_rand, 'features': spec['features']})
    # dependency-object matrix: header provenance x reach x transformation chain (methods enumerated from the live classes)
    grid = [(p, r) for p in c05_depmx.PROVENANCES for r in c05_depmx.REACHES]
    if ctx.deep:
        picks = grid
    else:
        picks = [('ct', 'nested1'), ('generator', 'nested2')] + rng.sample([x for x in grid if x[0] != 'configure_file'], 2)
    for prov, reach in picks:
        sub = random.Random(rng.getrandbits(48))
        spec = c05_depmx.gen_systematic(sub, prov, reach, ctx.scale(2, 4))
        jobs.append({'id': f'mx/{prov}/{reach}', 'files': spec['files'], 'args': [], 'seed': rng.getrandbits(40), 'n_random': 0,
                     'cells': spec['cells'], 'unknown_methods': spec['unknown_methods'],
                     'features': ['depmx:provenance:' + prov, 'depmx:reach:' + reach]})
    # producer-form matrix: several outputs of one producer reaching one consumer in different forms / by different routes
    # (every ordered pair of references of a custom target; generator lists; libraries with generator-made headers reached
    # through the link closure); each project carries its abstract target table for the derivation tie
    lay2, lay3 = rng.choice(['ch', 'hc']), rng.choice(['hhc', 'chh'])
    form_jobs: T.List[T.Tuple[str, dict, T.List[str]]] = []
    if ctx.deep:
        for lay in c05_forms.LAYOUTS:
            sub = random.Random(rng.getrandbits(48))
            form_jobs.append((lay, c05_forms.gen_layout(sub, lay, n_long=6, generator_cells=(lay == lay2), extra=0.5), []))
        for k, v in enumerate([['-Dunity=on'], ['-Ddefault_library=both'], ['-Dunity=on', '-Dunity_size=2'], [], ['-Dbuildtype=release'], []]):
            sub = random.Random(rng.getrandbits(48))
            form_jobs.append((f'random/{k}', c05_forms.gen_random(sub, 14), v))
    else:
        sub = random.Random(rng.getrandbits(48))
        form_jobs.append((lay2, c05_forms.gen_layout(sub, lay2, generator_cells=True), []))
        sub = random.Random(rng.getrandbits(48))
        form_jobs.append((lay3, c05_forms.gen_layout(sub, lay3, singles=False), []))
    for name, spec, v in form_jobs:
        jobs.append({'id': f'forms/{name}', 'files': spec['files'], 'args': v, 'seed': rng.getrandbits(40), 'n_random': 0,
                     'jobs': 1 if not ctx.deep else 4, 'form_cells': spec['form_cells'], 'table': spec['table'],
                     'features': spec['features']})
    for k in range(ctx.scale(0, 10)):
        sub = random.Random(rng.getrandbits(48))
        spec = c05_depmx.gen_random(sub, 16)
        jobs.append({'id': f'mx/random/{k}', 'files': spec['files'], 'args': rng.choice([[], [], ['-Dunity=on'], ['--layout=flat'],
                                                                                         ['-Ddefault_library=static']]),
                     'seed': rng.getrandbits(40), 'n_random': 0, 'cells': spec['cells'],
                     'unknown_methods': spec['unknown_methods'], 'features': ['depmx:random']})
    for k in range(ctx.scale(2, 30)):
        sub = random.Random(rng.getrandbits(48))
        tmp = common.scratch_dir('c05-pg-')
        try:
            spec = projgen.gen_project(sub, tmp, {'odd_names': 0.2, 'max_targets': 7, 'tests': 0.3, 'aliases': 0.3})
        finally:
            common.rmtree(tmp)
        # projgen passes '@OUTPUT@' to generators with two outputs (meson then substitutes the *input* name): name both
        files = {rel: (SAFE_GEN_PY if os.path.basename(rel) == 'gen.py' else text.replace(
            "output: ['@BASENAME@.c', '@BASENAME@.h'], arguments: ['@INPUT@', '@OUTPUT@']",
            "output: ['@BASENAME@.c', '@BASENAME@.h'], arguments: ['@INPUT@', '@OUTPUT0@', '@OUTPUT1@']"))
            for rel, text in spec['files'].items()}
        jobs.append({'id': f'projgen/{k}', 'files': files, 'args': rng.choice(variants), 'seed': rng.getrandbits(40),
                     'n_random': 1, 'features': ['projgen']})
    return jobs


# ---------------------------------------------------------------- Lean cross-check

def lean_line(res: dict) -> str:
    inc = ','.join(str(i) for i in res['included'])
    scheds = ';'.join(','.join(str(i) for i in order) for _n, order in res['schedules'])
    return f"sched {enc(res['ninja'])}|{inc}|{scheds}"


def mutate_schedules(rng, res: dict) -> T.List[T.Tuple[str, T.List[int], bool]]:
    """perturbed schedules with the Python verdict (so that the model's `valid` is exercised on rejections too)"""
    out = []
    if not res['schedules']:
        return out
    g = X.BuildGraph(res['ninja'])
    for name, order in res['schedules'][:4]:
        o = list(order)
        if len(o) >= 2:
            a, b = rng.sample(range(len(o)), 2)
            o[a], o[b] = o[b], o[a]
            out.append((name + '+swap', o, g.is_valid_schedule(o)))
            o2 = list(order)
            del o2[rng.randrange(len(o2))]
            out.append((name + '+drop', o2, g.is_valid_schedule(o2)))
    return out


def lean_crosscheck(ctx: Ctx, results: T.List[dict]) -> None:
    rs = [r for r in results if r.get('status') == 'ok' and r.get('included')]
    if not ctx.model_available or not rs:
        return
    lines = []
    extra = []
    for r in rs:
        muts = mutate_schedules(ctx.rng, r)
        extra.append(muts)
        r2 = dict(r)
        r2['schedules'] = list(r['schedules']) + [(n, o) for n, o, _v in muts]
        lines.append(lean_line(r2))
    answers = ctx.driver('graph', lines)
    for r, muts, ans in zip(rs, extra, answers):
        ctx.count()
        if not ans.startswith('OK|'):
            ctx.disagreement({'project': r['id'], 'what': 'Lean manifest model rejects a build.ninja the Python reader accepts',
                              'answer': ans[:200]})
            continue
        f = dict(p.split('=', 1) for p in ans.split('|')[1:])
        lean_anc = {}
        for item in f.get('anc', '').split(','):
            if item:
                k, v = item.split(':')
                lean_anc[int(k)] = sorted(int(x) for x in v.split())
        py_anc = {int(k): v for k, v in r['anc'].items()}
        if lean_anc != py_anc or int(f.get('n', -1)) != r['n_edges']:
            bad = [k for k in py_anc if lean_anc.get(k) != py_anc[k]][:3]
            ctx.disagreement({'project': r['id'], 'what': 'ancestor sets differ (Lean model vs Python executor)', 'steps': bad,
                              'lean': {k: lean_anc.get(k) for k in bad}, 'python': {k: py_anc[k] for k in bad}})
        want = [True] * len(r['schedules']) + [v for _n, _o, v in muts]
        got = [c == '1' for c in f.get('valid', '')]
        ctx.tag('lean-schedules-validated', len(r['schedules']))
        ctx.tag('lean-schedules-rejected', sum(1 for v in want if not v))
        if got != want:
            ctx.disagreement({'project': r['id'], 'what': 'schedule validity differs (Lean model vs Python executor)',
                              'lean': f.get('valid'), 'python': ''.join('1' if v else '0' for v in want)})


def derivation_crosscheck(ctx: Ctx, jobs: T.List[dict], results: T.List[dict]) -> None:
    """the order-only derivation (Lean: MesonModel/Graph/HeaderDeps, theorem declared_order_only_covers_may_read) against the
    real interpreter + NinjaBackend: for every target of a project that comes with its abstract target table, the order-only
    inputs of each of its compile statements in the real build.ninja must be exactly the set the model derives"""
    todo = [(j, r) for j, r in zip(jobs, results) if j.get('table') and r.get('ninja') and not j['id'].startswith('control/')
            and '-Dunity=on' not in j.get('args', []) and '--layout=flat' not in j.get('args', [])]
    if not ctx.model_available or not todo:
        return
    lines = []
    for j, _r in todo:
        line, ok = c05_forms.encode_table(j['table'], enc)
        if not ok:
            ctx.obligation_failed('file-name classes', 'compilers.is_header() disagrees with the source/object/library/header '
                                  'cascade of generate_target on a generated file name of ' + j['id'])
        lines.append(line)
    answers = ctx.driver('graph', lines)
    for (j, r), ans in zip(todo, answers):
        f = ans.split('|')
        if f[0] != 'OK' or len(f) != 3:
            ctx.disagreement({'project': j['id'], 'what': 'the derivation model rejects the target table', 'answer': ans[:200]})
            continue
        if f[1] != 'wf=1':
            ctx.obligation_failed('target table well-formed', f"{j['id']}: the driver reports {f[1]} (hypothesis WF of "
                                  'declared_order_only_covers_may_read)')
        model = [set(common.dec(x) for x in t.split(',') if x.strip()) for t in f[2].split(';')]
        try:
            g = X.BuildGraph(r['ninja'])
        except Exception as e:      # the executor has already reported what it thinks of such a file
            ctx.disagreement({'project': j['id'], 'what': 'build.ninja unreadable for the derivation tie', 'error': repr(e)[:200]})
            continue
        for k, t in enumerate(j['table']['tgts']):
            comp = [e for e in g.edges if e['rule'].endswith('_COMPILER') and any(o.startswith(t['priv'] + '/') for o in e['outs'])]
            ctx.count()
            if not comp or k >= len(model):
                ctx.disagreement({'project': j['id'], 'what': 'no compile statement found for a target of the table',
                                  'target': t['name'], 'private_dir': t['priv']})
                continue
            ctx.tag('derivation:targets-compared')
            ctx.tag('derivation:order-only-size-%d' % min(len(model[k]), 4))
            for e in comp:
                ctx.tag('derivation:compile-statements-compared')
                real = set(e['order_ins'])
                if real != model[k]:
                    ctx.disagreement({'project': j['id'], 'what': 'order-only inputs of a compile statement differ (Lean derivation '
                                      'model vs real backend)', 'target': t['name'], 'statement': e['outs'],
                                      'model': sorted(model[k]), 'real': sorted(real),
                                      'job': {x: j[x] for x in ('id', 'files', 'args', 'seed', 'n_random')}})
                    break


# ---------------------------------------------------------------- run

def absorb(ctx: Ctx, job: dict, r: dict) -> None:
    ctx.count()
    ctx.tag('source:' + job['id'].split('/')[0])
    if r.get('status') == 'crash':
        raise common.ToolFailure(f"worker crashed on {job['id']}: {r.get('trace')}")
    if job['id'].startswith('control/'):
        want = CONTROLS[job['id'].split('/', 1)[1]]
        keys = sorted(set(f['key'] for f in r.get('findings', [])))
        if any(k.startswith(w) for k in keys for w in want):
            ctx.tag('positive-control-flagged')
        else:
            ctx.obligation_failed('positive control ' + job['id'],
                                  f'the executor did not flag a deliberately incomplete project (status {r.get("status")}, '
                                  f'findings {keys}, expected one of {want})')
        return
    ctx.tag('project:' + r.get('status', '?'))
    if r.get('status') != 'ok':
        ctx.notes.append(f"{job['id']}: {r.get('status')} {str(r.get('broken') or r.get('out') or '')[:300]}")
        if r.get('status') == 'configure-failed' and job['id'].split('/')[0] in ('corpus', 'gen', 'mx', 'forms'):
            ctx.tag('valid-by-construction-project-did-not-configure')
        if r.get('status') == 'broken' and job['id'].split('/')[0] in ('corpus', 'gen', 'mx', 'forms'):
            # these projects are valid by construction (and build under the default options): a step that fails under
            # *every* schedule violates "any valid schedule succeeds" just as well
            d = r.get('broken_detail', {})
            if d.get('misplaced') and '--layout=flat' in job.get('args', []):
                key = 'never-succeeds:command-path-ignores-flat-layout'
            elif d.get('misplaced'):
                key = f"never-succeeds:{d.get('kind')}:misplaced-path"
            else:
                key = f"never-succeeds:{d.get('kind')}"
            ctx.violation(key, f"step {d.get('step')} fails under every schedule (it still fails after everything else was built)"
                          + (f"; it wants {d['misplaced'][0][0]} while {d['misplaced'][0][2]} writes {d['misplaced'][0][1]}"
                             if d.get('misplaced') else ''),
                          {'project': job['id'], 'finding': d,
                           'job': {k: job[k] for k in ('id', 'files', 'args', 'seed', 'n_random')}})
    for k, n in (r.get('kinds') or {}).items():
        ctx.tag('step:' + k, n)
    ctx.tag('hermetic-replays', r.get('replays', 0))
    ctx.tag('counter-replays', r.get('counter_replays', 0))
    ctx.tag('complete-schedules-executed', max(0, len(r.get('schedules', [])) - 1))
    for f in job.get('features', []):
        ctx.tag('feature:' + f)
    if r.get('src_modified'):
        ctx.tag('source-tree-modified')
    if r.get('status') == 'ok' and r.get('n_exec', 0) >= 3:
        ctx.seen_nontrivial(job['id'])
    ctx.sample({'project': job['id'], 'steps': r.get('n_exec'), 'kinds': r.get('kinds'), 'wall': r.get('wall')})
    for c in job.get('cells', []):
        ctx.tag('depmx:cells')
        ctx.tag('depmx:consumer:' + c['kind'])
        for st in c['chain']:
            ctx.tag('depmx:step:' + st[0])
        ctx.tag('depmx:chain-length:%d' % len(c['chain']))
        ctx.tag('depmx:consumer-includes-header' if c['includes_header'] else 'depmx:consumer-must-not-include-header')
    for c in job.get('form_cells', []):
        ctx.tag('forms:cells')
        ctx.tag('forms:consumer:' + c['kind'])
        ctx.tag('forms:sequence-length:%d' % len(c['sequence']))
        for ref, route in c['sequence']:
            ctx.tag('forms:route:' + str(route))
            ctx.tag('forms:reference:' + ('whole' if ref == 'W' else 'index' if isinstance(ref, int) else str(ref).split('-of-')[0]
                                          if c['producer'] == 'generator' else 'library'))
        refs = [x[0] for x in c['sequence']]
        if len(refs) >= 2 and c['producer'].startswith('custom_target'):
            ctx.tag('forms:mix:' + ('same-reference-repeated' if len(set(map(str, refs))) == 1 else
                                    'index-and-whole' if 'W' in refs else 'different-indexes'))
    for m in job.get('unknown_methods', []):
        ctx.tag('depmx:method-without-semantics-entry:' + m)
        note = f'dependency method {m!r} is enumerated from DependencyHolder but has no entry in c05_depmx.SEMANTICS: assumed to keep everything'
        if note not in ctx.notes:
            ctx.notes.append(note)
    for f in r.get('findings', []):
        case = {'project': job['id'], 'finding': f['detail'],
                'job': {k: job[k] for k in ('id', 'files', 'args', 'seed', 'n_random')}}
        step = str(f['detail'].get('step', ''))
        for c in job.get('cells', []) + job.get('form_cells', []):
            if c['consumer'] + '.' in step or step.endswith(c['consumer']):
                case['cell'] = c
                break
        ctx.violation(f['key'], f['what'], case)


def run_jobs(ctx: Ctx, jobs: T.List[dict]) -> T.List[dict]:
    nproc = min(16, max(1, len(jobs)))
    # biggest first
    order = sorted(range(len(jobs)), key=lambda i: -len(jobs[i]['files']))
    with multiprocessing.get_context('fork').Pool(nproc) as pool:
        rs = pool.map(worker, [jobs[i] for i in order], chunksize=1)
    out: T.List[T.Optional[dict]] = [None] * len(jobs)
    for i, r in zip(order, rs):
        out[i] = r
    return T.cast(T.List[dict], out)


def run(ctx: Ctx) -> None:
    ctx.rule = ('a project counts as non-trivial when it configured, built in the reference order and has at least 3 executed '
                'steps (every one of which was replayed hermetically and run under every adversarial schedule)')
    ctx.extra['explanation'] = EXPLANATION
    ctx.assumptions += [
        'steps executed: every non-phony statement except REGENERATE_BUILD and the utility commands with a '
        '`meson-internal__*` output (test, benchmark, install, dist, uninstall, clean, clean-ctlist, run_target()s, '
        'coverage/scan-build/clang-format/clang-tidy) and the phony aliases that depend on them',
        'clean builds only (no incremental state: restat, depfile-discovered edges of a previous build are out of scope)',
        'C projects; no Fortran/Rust/Vala/D module-ordering edges',
        'dependency transformations: every DependencyHolder method returning a dependency is enumerated from the live class; what '
        'each keeps (sources / include dirs / link) is the table c05_depmx.SEMANTICS, written from the reference manual; '
        'add_project_dependencies() rejects dependencies with sources or libraries and therefore cannot carry a generated header',
    ]
    jobs = make_jobs(ctx)
    t0 = time.time()
    results = run_jobs(ctx, jobs)
    ctx.notes.append(f'{len(jobs)} projects decided in {time.time() - t0:.1f}s')
    for job, r in zip(jobs, results):
        absorb(ctx, job, r)
    lean_crosscheck(ctx, results)
    derivation_crosscheck(ctx, jobs, results)
    ctx.extra['programs'] = len(jobs)
    ctx.extra['steps_replayed'] = ctx.dist.get('hermetic-replays', 0)


def search(ctx: Ctx, disagreements: T.List[dict]) -> None:
    """something on the Lean side no longer checks: look harder on the implementation (more projects, more schedules)"""
    ctx.deep = True
    jobs = make_jobs(ctx)[:60]
    for job, r in zip(jobs, run_jobs(ctx, jobs)):
        absorb(ctx, job, r)


def replay(ctx: Ctx, rep: dict) -> None:
    case = rep.get('case', {})
    job = case.get('job')
    if not job:
        print('nothing to replay')
        return
    r = worker(job)
    print('project', job['id'], 'status', r.get('status'), 'steps', r.get('n_exec'))
    for f in r.get('findings', []):
        print('FINDING', f['key'], '-', f['what'])
        print(json.dumps(f['detail'], indent=1)[:3000])
        ctx.violation(f['key'], f['what'], {'project': job['id'], 'finding': f['detail'], 'job': job})
    if r.get('status') == 'broken':
        print('BROKEN', json.dumps(r.get('broken_detail'), indent=1)[:3000])
        absorb(ctx, job, r)
    elif not r.get('findings'):
        print('no finding reproduced')
