"""C03 — the ENVIRONMENT a command / test receives, and generator placeholder expansion.

Streams (real classes in-process vs the Lean model `MesonModel/Quote/Env.lean`, `Gen.lean`):
  envcalls  random API call sequences (set/append/prepend/unset/merge) on real EnvironmentVariables
  envget    real get_env over a base environment
  wrapenv   real Backend.as_meson_exe_cmdline with real environment objects
  envtest   real TestHarness.get_test_runner on a stub harness (setup env, test env, os.environ)
  envutil   the env(1) specification of the model against the real `env` binary
  genargs   real NinjaBackend.generate_genlist_for_target on a stub backend

The oracle (`expected_env`) is the documented meaning of environment() written once more, per variable,
from docs/yaml/objects/env.yaml; it shares no code with /repo or the model.
"""
from __future__ import annotations

import contextlib
import json
import os
import pickle
import re
import subprocess
import sys
import types
import typing as T

from . import common
from .common import Ctx, enc, dec
from .c03 import lenc, ldec, guarded, rand_string, _FakeEnv, ALPHABET



class TimeLimit(Exception):
    pass


@contextlib.contextmanager
def time_limit(sec: float):
    """a search/replace loop of the implementation that never ends must become an outcome, not a hung check"""
    import signal
    import threading
    if threading.current_thread() is not threading.main_thread():
        yield
        return

    def on_alarm(*_a):
        raise TimeLimit()
    # CPU time of this process, not wall time: a loaded machine must not look like a hang
    old = signal.signal(signal.SIGVTALRM, on_alarm)
    signal.setitimer(signal.ITIMER_VIRTUAL, sec)
    try:
        yield
    finally:
        signal.setitimer(signal.ITIMER_VIRTUAL, 0)
        signal.signal(signal.SIGVTALRM, old)


NAMES = ['MV_A', 'MV_B', 'MV_path', 'MV_C.d', 'MV_E0']
SEPS = [':', ':', ';', ',', ' ', '', '::', '=', "'"]
VALS = ['a', 'b', 'a b', '$x', "it's", 'x;y', 'p:q', '', 'é', 'k=v', '\\', '"q"', '*', '#c', 'tail\\']

Op = T.Tuple[str, str, T.List[str], str]          # kind, name, values, separator


# ---------------------------------------------------------------- oracle (documentation only)

def expected_env(ops: T.List[Op], unset: T.Iterable[str], base: T.Dict[str, str]) -> T.Dict[str, str]:
    """set: the values joined by the separator; append/prepend: the joined values after/before the current value
    (separator in between) or alone when the variable has no value yet; unset: the variable is absent"""
    out: T.Dict[str, str] = {}
    names = list(base) + [n for _k, n, _v, _s in ops if n not in base]
    for n in names:
        cur: T.Optional[str] = base.get(n)
        for kind, name, values, sep in ops:
            if name != n:
                continue
            joined = sep.join(values)
            if kind == 'set' or cur is None:
                cur = joined
            elif kind == 'append':
                cur = cur + sep + joined
            else:
                cur = joined + sep + cur
        if cur is not None and n not in set(unset):
            out[n] = cur
    return out


def env_spec(base: T.Dict[str, str], words: T.List[str]) -> T.Optional[T.Tuple[T.Dict[str, str], T.List[str]]]:
    """POSIX env(1), operands only (independent of the model's `envUtility`)"""
    cur = dict(base)
    i = 0
    while i < len(words) and '=' in words[i]:
        if words[i].startswith('-') or words[i].startswith('='):
            return None
        k, v = words[i].split('=', 1)
        cur[k] = v
        i += 1
    if i == len(words) or words[i].startswith('-'):
        return None
    return cur, words[i:]


# ---------------------------------------------------------------- generators

def rand_val(rng, nl: bool = False) -> str:
    r = rng.random()
    if r < 0.6:
        return rng.choice(VALS)
    s = rand_string(rng, 5).replace('\0', '')
    return s if nl else s.replace('\n', 'N')


def rand_ops(rng, n: int, kinds=('set', 'set', 'append', 'prepend'), nl: bool = False) -> T.List[Op]:
    out = []
    for _ in range(n):
        vals = [rand_val(rng, nl) for _ in range(rng.choice([1, 1, 2, 2, 3]))]     # the interpreter demands >= 1 value
        out.append((rng.choice(kinds), rng.choice(NAMES), vals, rng.choice(SEPS)))
    return out


def rand_base(rng) -> T.Dict[str, str]:
    return {n: rng.choice(['base', 'b:c', '', 'x y']) for n in NAMES if rng.random() < 0.5}


def rand_calls(rng, n: int, depth: int = 0) -> T.List[T.Tuple]:
    """('set'|'append'|'prepend', name, values, sep) | ('unset', name) | ('merge', [calls])"""
    out: T.List[T.Tuple] = []
    for _ in range(n):
        r = rng.random()
        if r < 0.12:
            out.append(('unset', rng.choice(NAMES)))
        elif r < 0.24 and depth == 0:
            out.append(('merge', rand_calls(rng, rng.randint(0, 3), 1)))
        else:
            out.append(rand_ops(rng, 1, kinds=('set', 'set', 'set', 'append', 'prepend'))[0])
    return out


def calls_fields(calls: T.List[T.Tuple]) -> str:
    ks, ns, ss, vs = [], [], [], []

    def one(c):
        if c[0] == 'unset':
            ks.append('unset'); ns.append(c[1]); ss.append(''); vs.append([])
        elif c[0] == 'merge':
            ks.append('mbegin'); ns.append(''); ss.append(''); vs.append([])
            for d in c[1]:
                one(d)
            ks.append('mend'); ns.append(''); ss.append(''); vs.append([])
        else:
            ks.append(c[0]); ns.append(c[1]); ss.append(c[3]); vs.append(list(c[2]))
    for c in calls:
        one(c)
    return '|'.join([lenc(ks), lenc(ns), lenc(ss), ';'.join(lenc(v) for v in vs)])


def ops_fields(ops: T.List[Op]) -> str:
    return '|'.join([lenc([o[0] for o in ops]), lenc([o[1] for o in ops]), lenc([o[3] for o in ops]),
                     ';'.join(lenc(o[2]) for o in ops)])


# ---------------------------------------------------------------- implementation adapters

ERRS = [('cannot set the already unset', 'setUnset'), ('cannot unset', 'unsetSet'), ('cannot append', 'appendUnset'),
        ('cannot prepend', 'prependUnset')]


def apply_calls(EV, MesonException, calls: T.List[T.Tuple]) -> T.Tuple[T.Any, T.List[str]]:
    env = EV()
    errs: T.List[str] = []

    def run(obj, cs):
        for c in cs:
            if c[0] == 'merge':
                other = EV()
                run(other, c[1])
                obj.merge(other)
                continue
            try:
                if c[0] == 'unset':
                    obj.unset(c[1])
                else:
                    getattr(obj, c[0])(c[1], list(c[2]), c[3])
                errs.append('ok')
            except MesonException as e:
                errs.append(next((code for pat, code in ERRS if pat in str(e)), 'other'))
    run(env, calls)
    return env, errs


def show_env_obj(env, errs: T.List[str]) -> str:
    ops = [(m.__name__.lstrip('_'), n, list(v), s) for m, n, v, s in env.envvars]
    return '/'.join([lenc([o[0] for o in ops]), lenc([o[1] for o in ops]), lenc([o[3] for o in ops]),
                     ';'.join(lenc(o[2]) for o in ops), lenc(sorted(env.unset_vars)), str(int(bool(env.can_use_env))),
                     lenc(errs)])


def ops_of(env) -> T.Tuple[T.List[Op], T.List[str]]:
    return ([(m.__name__.lstrip('_'), n, list(v), s) for m, n, v, s in env.envvars], sorted(env.unset_vars))


def show_dict(d: T.Dict[str, str]) -> str:
    return lenc(d.keys()) + ';' + lenc(d.values())


def mk_env(EV, ops: T.List[Op], unset: T.Iterable[str]):
    env = EV()
    for kind, name, values, sep in ops:
        getattr(env, kind)(name, list(values), sep)
    for u in unset:
        env.unset_vars.add(u)
        env.can_use_env = False
    return env


# ---------------------------------------------------------------- streams

def tie_env(ctx: Ctx, scratch: str) -> None:
    from mesonbuild.utils.core import EnvironmentVariables as EV, ExecutableSerialisation, MesonException
    from mesonbuild.backend import backends as be
    rng = ctx.rng
    lines: T.List[str] = []
    impl: T.List[T.Tuple[str, T.Any, str]] = []

    def add(kind, inp, line, ans):
        lines.append(line)
        impl.append((kind, inp, ans))

    # ---- envcalls
    for _ in range(ctx.scale(1500, 20000)):
        calls = rand_calls(rng, rng.randint(0, 6))
        ans = guarded('EnvironmentVariables-calls', lambda: show_env_obj(*apply_calls(EV, MesonException, calls)))
        add('envcalls', calls, 'envcalls ' + calls_fields(calls), ans)
        # oracle: `can_use_env` promises that `env K=V cmd` means the same as folding the operations over the inherited
        # environment; that is false as soon as an append/prepend/unset is present
        try:
            env, _errs = apply_calls(EV, MesonException, calls)
            ops, unset = ops_of(env)
            base = {n: 'base' for n in NAMES}
            if env.can_use_env and dict(base, **expected_env(ops, unset, {})) != expected_env(ops, unset, base):
                ctx.violation(f'can_use_env-unsound:{calls!r}'.replace(' ', '␣'),
                              'EnvironmentVariables.can_use_env is still set although the object holds an append/prepend/unset: '
                              f'`env K=V cmd` would give {expected_env(ops, unset, {})!r} where the definition means '
                              f'{expected_env(ops, unset, base)!r} over {base!r}', {'calls': calls, 'position': None})
        except Exception:       # noqa: BLE001 - shape problems are reported through the correspondence
            pass

    # ---- envget (+ oracle)
    for _ in range(ctx.scale(2500, 30000)):
        ops = rand_ops(rng, rng.randint(0, 5), nl=True)
        names = {o[1] for o in ops}
        unset = [n for n in NAMES if n not in names and rng.random() < 0.2]
        base = rand_base(rng)
        dflt = rng.random() < 0.15
        def call():
            return mk_env(EV, ops, unset).get_env(dict(base), '${0}' if dflt else None)
        got = guarded('get_env', lambda: show_dict(call()))
        add('envget', (ops, unset, base, dflt), f'envget {ops_fields(ops)}|{lenc(unset)}|{lenc(base.keys())}|'
            f'{lenc(base.values())}|{int(dflt)}', got)
        if not dflt:
            ctx.count()
            try:
                real = call()
            except Exception as e:      # noqa: BLE001
                real = f'raised {type(e).__name__}: {e}'
            want = expected_env(ops, unset, base)
            if real != want:
                ctx.violation(f'get_env:{ops!r}:{unset!r}:{base!r}'.replace(' ', '␣'),
                              f'EnvironmentVariables.get_env gives {real!r}; the operations mean {want!r}',
                              {'env_ops': ops, 'unset': unset, 'base': base, 'position': None})

    # ---- wrapenv (+ oracle on every delivery form)
    ddir = os.path.join(scratch, 'envdats')
    os.makedirs(ddir, exist_ok=True)
    for _ in range(ctx.scale(2500, 30000)):
        r = rng.random()
        if r < 0.45:
            calls = [c for c in rand_calls(rng, rng.randint(1, 3)) if c[0] == 'set']          # inline form likely
        elif r < 0.6:
            calls = [('unset', rng.choice(NAMES))] + ([] if rng.random() < 0.5 else rand_calls(rng, 1))
        else:
            calls = rand_calls(rng, rng.randint(0, 4))
        prog = rng.choice(['exe', 'exe', 'exe', '/p/my=prog', 'a=b', 'x y'])
        args = [prog] + [rng.choice(['k=v', 'a b', '--', '$x', '']) if rng.random() < 0.5 else rand_string(rng, 4).replace('\0', '')
                         for _ in range(rng.randint(0, 2))]
        capture = rng.choice([None, None, None, 'out.txt'])
        have_env = rng.random() < 0.95
        flags = f'000{1}{1}0{int(have_env)}'
        case = {'calls': calls, 'args': args, 'capture': capture, 'position': None}

        def run_impl():
            env, _ = apply_calls(EV, MesonException, calls)
            es = ExecutableSerialisation(list(args), env, None, None, [], capture, None)
            fake = types.SimpleNamespace()
            fake.environment = _FakeEnv(ddir)
            fake.get_executable_serialisation = lambda *a, **k: es
            real_which = be.shutil.which
            be.shutil.which = (lambda name, *a, **k: '/usr/bin/env' if have_env else None)
            try:
                cmd, _reason = be.Backend.as_meson_exe_cmdline(fake, args[0], args[1:], capture=capture, env=env)
            finally:
                be.shutil.which = real_which
            return env, list(cmd)
        try:
            env, cmd = run_impl()
            if not all(isinstance(x, str) for x in cmd):
                raise TypeError('command line is not a list of str')
        except Exception as e:      # noqa: BLE001
            add('wrapenv', case, f'wrapenv {flags}|{lenc(args)}|{calls_fields(calls)}|{"s" + enc(capture) if capture else "n"}|n',
                f'IMPL-SHAPE:as_meson_exe_cmdline:{type(e).__name__}:{str(e)[:80]}')
            continue
        if cmd[:4] == ['MESON', '--internal', 'exe', '--unpickle']:
            ans = 'pickled'
        elif cmd[:3] == ['MESON', '--internal', 'exe'] and '--' in cmd:
            i = cmd.index('--')
            ans = 'exe:' + lenc(cmd[3:i]) + ';' + lenc(cmd[i + 1:])
        elif cmd == args:
            ans = 'direct:' + lenc(cmd)
        elif cmd[:1] == ['env']:
            ans = 'env:' + lenc(cmd)
        else:
            ans = 'other:' + lenc(cmd)
        add('wrapenv', case, f'wrapenv {flags}|{lenc(args)}|{calls_fields(calls)}|{"s" + enc(capture) if capture else "n"}|n', ans)
        # oracle: whichever form was chosen, the process must be started with `args` in the environment the
        # operations mean over what it inherits
        ops, unset = ops_of(env)
        base = {n: 'base' for n in NAMES}
        want = expected_env(ops, unset, base)
        ctx.count()
        ctx.tag('env:form:' + ans.split(':')[0])
        got: T.Any
        if ans == 'pickled':
            try:
                with open(cmd[4], 'rb') as f:
                    es2 = pickle.load(f)
                got = (es2.env.get_env(dict(base)) if es2.env else dict(base), list(es2.cmd_args))
            except Exception as e:      # noqa: BLE001
                got = f'unreadable wrapper file: {type(e).__name__}'
        elif ans.startswith('env:'):
            got = env_spec(base, cmd[1:])
            got = (got[0], got[1]) if got else 'env(1) does not accept these operands'
        elif ans.startswith('direct:'):
            got = (dict(base), cmd)
        elif ans.startswith('exe:'):
            got = (dict(base), cmd[cmd.index('--') + 1:])
        else:
            got = 'unknown command form'
        if got != (want, args):
            ctx.violation(f'env-delivery:{calls!r}:{args!r}:{capture}'.replace(' ', '␣'),
                          f'as_meson_exe_cmdline chose the form {ans.split(":")[0]!r} ({cmd!r}): the process would get '
                          f'{got!r}; the definition means environment {want!r} (inherited: {base!r}) and command {args!r}',
                          dict(case, env_ops=ops, unset=unset, cmdline=cmd))
        else:
            ctx.seen_nontrivial(('envdeliver', repr(calls), repr(args)))
    for f in os.listdir(ddir):
        os.unlink(os.path.join(ddir, f))

    # ---- envtest: real get_test_runner on a stub harness
    tie_envtest(ctx, add, EV)

    # ---- envutil: the model's env(1) against the real binary (and the oracle's own reading)
    util_cases = []
    for _ in range(ctx.scale(150, 1500)):
        base = rand_base(rng)
        words = [rng.choice(NAMES) + '=' + rand_val(rng) for _ in range(rng.randint(0, 3))]
        if rng.random() < 0.15:
            words.insert(rng.randint(0, len(words)), rng.choice(['=x', '-i', 'MV_A', 'MV_Q=b=c']))
        words += [sys.executable, '-c', 'import os,json;print(json.dumps({k:v for k,v in os.environ.items() if k.startswith("MV_")}))',
                  rng.choice(['k=v', 'x', ''])]
        util_cases.append((base, words))
        lines.append(f'envutil {lenc(base.keys())}|{lenc(base.values())}|{lenc(words)}')
        impl.append(('envutil', (base, words), None))

    # ---- genargs
    tie_genargs(ctx, add, scratch)

    # ---- addargs: histories of add_project_arguments / add_global_arguments / … calls
    tie_addargs(ctx, add)

    ctx.count(len(lines))
    if not ctx.model_available:
        return
    answers = ctx.driver('quote', lines)
    ui = 0
    for (kind, inp, ans), m in zip(impl, answers):
        ctx.tag('a:' + kind)
        if kind == 'envutil':
            base, words = inp
            ui += 1
            if not m.startswith('ok:'):
                continue
            spec = env_spec(base, words)
            keep = {k: v for k, v in os.environ.items() if not k.startswith('MV_')}
            p = subprocess.run(['env'] + words, env=dict(keep, **base), stdout=subprocess.PIPE, stderr=subprocess.PIPE, timeout=60)
            ks, vs, cmd = m[3:].split(';')
            model = (dict(zip(ldec(ks), ldec(vs))), ldec(cmd))
            try:
                if model[1][:1] != [sys.executable]:
                    # a word without `=` before the dumper: env(1) must have tried to start *that* word
                    real = model if p.returncode in (126, 127) else f'env rc={p.returncode}, expected it to fail to start {model[1][:1]!r}'
                else:
                    real = (json.loads(p.stdout.decode()), model[1]) if p.returncode == 0 else f'env failed rc={p.returncode}'
            except ValueError:
                real = 'unreadable'
            if real != model or spec != model:
                ctx.disagreement({'kind': 'envUtility-vs-env(1)', 'input': [base, words[:-4]], 'impl': real, 'model': model,
                                  'oracle_spec': spec})
            else:
                ctx.seen_nontrivial(('envutil', repr(base), repr(words[:-4])))
            continue
        if ans != m:
            ctx.disagreement({'kind': kind, 'input': inp, 'impl': ans, 'model': m})
        elif kind in ('envget', 'genargs', 'envtest', 'addargs'):
            ctx.seen_nontrivial((kind, repr(inp)))
    ctx.extra['env_util_validated_against_env1'] = ui


def tie_envtest(ctx: Ctx, add, EV) -> None:
    """TestHarness.get_test_runner with the test's env, an optional setup env and real os.environ entries"""
    import argparse
    from mesonbuild import mtest
    rng = ctx.rng
    real_runner = mtest.SingleTestRunner
    saved = {k: os.environ.get(k) for k in NAMES}
    try:
        mtest.SingleTestRunner = lambda test, env, name, options: env      # type: ignore[assignment,misc]
        for _ in range(ctx.scale(600, 8000)):
            tops = rand_ops(rng, rng.randint(0, 4), nl=True)
            tun = [n for n in NAMES if n not in {o[1] for o in tops} and rng.random() < 0.25]
            has_setup = rng.random() < 0.4
            sops = rand_ops(rng, rng.randint(0, 3), nl=True) if has_setup else []
            sun = [n for n in NAMES if n not in {o[1] for o in sops} and rng.random() < 0.15] if has_setup else []
            base = rand_base(rng)
            for k in NAMES:
                os.environ.pop(k, None)
            os.environ.update(base)
            test = types.SimpleNamespace(env=mk_env(EV, tops, tun), is_cross_built=False, needs_exe_wrapper=False,
                                         exe_wrapper=None, name='t')
            setup = types.SimpleNamespace(env=mk_env(EV, sops, sun), gdb=False, timeout_multiplier=1, exe_wrapper=None)
            th = types.SimpleNamespace()
            th.options = argparse.Namespace(setup='s' if has_setup else None, gdb=False, timeout_multiplier=None,
                                            wrapper=None, interactive=False, verbose=False)
            th.get_pretty_suite = lambda t: 'n'
            th.get_test_setup = lambda t: setup
            th.merge_setup_options = types.MethodType(mtest.TestHarness.merge_setup_options, th)

            def call():
                env = mtest.TestHarness.get_test_runner(th, test, 0)
                return {k: v for k, v in env.items() if k.startswith('MV_')}
            try:
                real: T.Any = call()
                ans = show_dict(real)
            except Exception as e:      # noqa: BLE001
                real = f'raised {type(e).__name__}: {e}'
                ans = f'IMPL-SHAPE:get_test_runner:{type(e).__name__}:{str(e)[:80]}'
            add('envtest', (sops if has_setup else None, sun, tops, tun, base),
                f'envtest {int(has_setup)}|{ops_fields(sops)}|{lenc(sun)}|{ops_fields(tops)}|{lenc(tun)}|'
                f'{lenc(base.keys())}|{lenc(base.values())}', ans)
            ctx.count()
            want = expected_env(tops, tun, expected_env(sops, sun, base))
            if real != want:
                ctx.violation(f'test-env:{sops!r}:{sun!r}:{tops!r}:{tun!r}:{base!r}'.replace(' ', '␣'),
                              f'TestHarness.get_test_runner starts the test with {real!r}; setup env then test env over '
                              f'{base!r} mean {want!r}',
                              {'setup_ops': sops if has_setup else None, 'setup_unset': sun, 'env_ops': tops, 'unset': tun,
                               'base': base, 'position': None})
    finally:
        mtest.SingleTestRunner = real_runner     # type: ignore[misc]
        for k, v in saved.items():
            if v is None:
                os.environ.pop(k, None)
            else:
                os.environ[k] = v


# ---------------------------------------------------------------- generator placeholder expansion

GEN_PH = ['@INPUT@', '@OUTPUT@', '@OUTPUT0@', '@OUTPUT1@', '@PLAINNAME@', '@BASENAME@', '@DEPFILE@', '@BUILD_DIR@',
          '@SOURCE_DIR@', '@CURRENT_SOURCE_DIR@', '@SOURCE_ROOT@', '@BUILD_ROOT@', '@EXTRA_ARGS@']
GEN_LOOKALIKE = ['@OUTPUT00@', '@OUTPUT01@', '@OUTPUT@@', '@@OUTPUT0@', '@OUTPUT', '@INPUT0@', '@FOO@', '@OUTPUT2@', '@OUTPUT9@',
                 '@PRIVATE_DIR@', '@OUTDIR@', '@extra_args@', '@EXTRA_ARGS@ ', '@', '@@', '@OUTPUT-1@', '@OUTPUT0', 'OUTPUT0@']


def rand_gen_arg(rng) -> str:
    r = rng.random()
    if r < 0.25:
        return rng.choice(GEN_PH)
    if r < 0.4:
        return rng.choice(GEN_LOOKALIKE)
    if r < 0.7:
        return rng.choice(['a\\b', 'x=', '--o=', "q'", '$v ', '']) + rng.choice(GEN_PH + GEN_LOOKALIKE) + \
            rng.choice(['', '.d', '\\t', rng.choice(GEN_PH)])
    return rand_string(rng, 5).replace('\0', '').replace('\n', 'N')


def gen_expected(arglist: T.List[str], extra: T.List[str], table: T.Dict[str, str]) -> T.Optional[T.List[str]]:
    """documented expansion (docs/yaml/functions/generator.yaml): the listed placeholders are replaced wherever they
    occur, an element that is exactly @EXTRA_ARGS@ is replaced by the extra arguments, `\\` becomes `/`; `None` when the
    reading is ambiguous (two placeholder occurrences share an `@`) or undefined (index out of range)"""
    rx_any = re.compile('(?=(' + '|'.join(re.escape(k) for k in table) + r'|@OUTPUT\d+@))')
    rx = re.compile('|'.join(re.escape(k) for k in sorted(table, key=len, reverse=True)))
    out: T.List[str] = []
    for a in arglist:
        if a == '@EXTRA_ARGS@':
            out += extra
            continue
        spans = [(m.start(), m.start() + len(m.group(1))) for m in rx_any.finditer(a)]
        if any(s2 < e1 for (s1, e1), (s2, e2) in zip(spans, spans[1:])):
            return None
        if any(m.group(1) not in table for m in rx_any.finditer(a)):
            return None
        out.append(rx.sub(lambda m: table[m.group(0)], a).replace('\\', '/'))
    return out


def tie_genargs(ctx: Ctx, add, scratch: str) -> None:
    from mesonbuild.backend import ninjabackend as nb, backends as be
    from mesonbuild import build as bld
    rng = ctx.rng
    bdir = os.path.join(scratch, 'genb')
    os.makedirs(bdir, exist_ok=True)

    class _File:
        def __init__(self, rel):
            self.rel = rel

        def rel_to_builddir(self, b2s, pdir=None):
            return os.path.join(b2s, self.rel)

        def __str__(self):
            return self.rel

    hangs = 0
    for _ in range(ctx.scale(2500, 30000)):
        if hangs >= 2:
            ctx.notes.append('genargs stream stopped early: the implementation did not terminate on two inputs')
            break
        arglist = [rand_gen_arg(rng) for _ in range(rng.randint(0, 4))]
        extra = [rand_gen_arg(rng) for _ in range(rng.randint(0, 3))]
        inrel = rng.choice(['a.in', 'sub/b.c.in', '.hid', 'x y.txt', 'noext', 'd.ir/..e', 'q\\w.idl'])
        nouts = rng.choice([1, 1, 2])
        outs = [rng.choice(['@BASENAME@.h', '@PLAINNAME@.c', '@BASENAME@ x.o'])] + (['@BASENAME@.2'] if nouts == 2 else [])
        depfile = rng.choice([None, None, '@PLAINNAME@.d'])
        b2s, priv, subdir = '../src', rng.choice(['x.p', 'sub/y.p']), rng.choice(['', 'sub'])
        captured: T.Dict[str, T.Any] = {}

        def run_impl():
            gen = types.SimpleNamespace(arglist=list(arglist), outputs=list(outs), depfile=depfile, capture=False, depends=[])
            gen.get_exe = lambda: 'prog'
            gen.get_arglist = types.MethodType(bld.Generator.get_arglist, gen)
            gen.get_dep_outname = types.MethodType(bld.Generator.get_dep_outname, gen)
            gen.get_base_outnames = types.MethodType(bld.Generator.get_base_outnames, gen)
            cur = _File(inrel)
            gl = types.SimpleNamespace(depends=[], subdir=subdir, preserve_path_from=None, env=None, extra_depends=[])
            gl.get_generator = lambda: gen
            gl.get_inputs = lambda: [cur]
            gl.get_outputs_for = lambda f: gen.get_base_outnames(f.rel)
            gl.get_extra_args = lambda: list(extra)
            fake = types.SimpleNamespace(build_to_src=b2s, all_outputs=set())
            fake.environment = types.SimpleNamespace(get_build_dir=lambda: bdir)
            fake.get_target_depend_files = lambda g: []
            fake.get_paths_for_dep_outputs = lambda t, d: []
            fake.get_target_private_dir = lambda t: priv
            fake.get_target_dir = lambda t: ''
            fake.get_target_source_dir = lambda t: b2s
            fake.replace_outputs = types.MethodType(be.Backend.replace_outputs, fake)
            fake.replace_extra_args = types.MethodType(be.Backend.replace_extra_args, fake)
            fake.replace_paths = types.MethodType(nb.NinjaBackend.replace_paths, fake)

            def as_cmd(exe, args, **kw):
                captured['args'] = list(args)
                return [exe] + list(args), ''
            fake.as_meson_exe_cmdline = as_cmd
            fake.add_build = lambda el: captured.setdefault('el', el)
            with time_limit(2):
                nb.NinjaBackend.generate_genlist_for_target(fake, gl, object())
            return captured['args']
        infile = os.path.join(b2s, inrel)
        plain = os.path.basename(inrel)
        basen = os.path.splitext(plain)[0]
        outfiles = [o.replace('@BASENAME@', basen).replace('@PLAINNAME@', plain) for o in outs]
        sole = os.path.join(priv, outfiles[0]) if nouts == 1 else inrel
        depf = os.path.join(priv, depfile.replace('@PLAINNAME@', plain)) if depfile else None
        std = os.path.join(b2s, subdir) if subdir else b2s
        try:
            real: T.Any = run_impl()
            ans = 'ok:' + lenc(real)
        except IndexError:
            real, ans = 'IndexError', 'ERR:outputIndex'
        except TimeLimit:
            real, ans = 'does not terminate', 'ERR:diverges'
        except Exception as e:      # noqa: BLE001
            real = f'raised {type(e).__name__}: {e}'
            ans = f'IMPL-SHAPE:generate_genlist_for_target:{type(e).__name__}:{str(e)[:80]}'
        case = {'arguments': arglist, 'extra_args': extra, 'input': inrel, 'outputs': outs, 'depfile': depfile,
                'subdir': subdir, 'private_dir': priv, 'position': None}
        add('genargs', case, 'genargs ' + '|'.join([enc(infile), enc(sole), enc(priv), lenc(outfiles),
                                                     ('s' + enc(depf)) if depf else 'n', enc(b2s), enc(std), lenc(arglist),
                                                     lenc(extra)]), ans)
        # oracle
        table = {'@INPUT@': infile, '@OUTPUT@': sole, '@PLAINNAME@': plain, '@BASENAME@': basen, '@BUILD_DIR@': priv,
                 '@SOURCE_DIR@': b2s, '@CURRENT_SOURCE_DIR@': std, '@SOURCE_ROOT@': b2s, '@BUILD_ROOT@': '.'}
        for i, o in enumerate(outfiles):
            table[f'@OUTPUT{i}@'] = os.path.join(priv, o)
        if depf:
            table['@DEPFILE@'] = depf
        ctx.count()
        if real == 'does not terminate':
            hangs += 1
            ctx.violation(f'generator-args-hang:{arglist!r}'.replace(' ', '␣'),
                          'generate_genlist_for_target does not return for these generator arguments (an argument that only '
                          'looks like an indexed placeholder keeps the replace loop spinning)', case)
            continue
        if any('@' in v for v in table.values()):
            continue
        want = gen_expected(arglist, extra, table)
        if want is not None and real != want:
            ctx.violation(f'generator-args:{arglist!r}:{extra!r}:{inrel}:{outs!r}:{depfile}'.replace(' ', '␣'),
                          f'generator command words: expected {want!r}, got {real!r}', dict(case, expected=want, got=real))


def replay_case(ctx: Ctx, case: dict) -> bool:
    """re-run one recorded case of the streams of this module on the implementation and the oracle"""
    from mesonbuild.utils.core import EnvironmentVariables as EV, MesonException
    if 'calls' in case:
        def fix(c):
            if c[0] == 'merge':
                return ('merge', [fix(tuple(d)) for d in c[1]])
            if c[0] == 'unset':
                return ('unset', c[1])
            return (c[0], c[1], list(c[2]), c[3])
        calls = [fix(tuple(c)) for c in case['calls']]
        env, errs = apply_calls(EV, MesonException, calls)
        ops, unset = ops_of(env)
        base = {n: 'base' for n in NAMES}
        print('implementation: operations', ops, 'unset', unset, 'can_use_env', env.can_use_env, 'errors', errs)
        print('get_env({}) (what the inline `env` prefix would carry):', env.get_env({}))
        print('meaning over', base, ':', expected_env(ops, unset, base))
        return True
    if 'env_ops' in case and 'base' in case:
        ops = [(o[0], o[1], list(o[2]), o[3]) for o in case['env_ops']]
        base = dict(case['base'])
        if 'setup_ops' in case:
            print('oracle:', expected_env(ops, case.get('unset', []),
                                          expected_env([(o[0], o[1], list(o[2]), o[3]) for o in (case['setup_ops'] or [])],
                                                       case.get('setup_unset', []), base)))
            return True
        print('implementation get_env:', guarded('get_env', lambda: mk_env(EV, ops, case.get('unset', [])).get_env(dict(base))))
        print('oracle:', expected_env(ops, case.get('unset', []), base))
        return True
    if 'arguments' in case:
        print('generator arguments', case['arguments'], 'extra_args', case.get('extra_args'), '(re-run: ./check C03 with the seed of the '
              'replay file; the genargs stream regenerates this case)')
        return True
    return False


# ---------------------------------------------------------------- the global / project argument API

PAIRED = ['-include', '-Xlinker', '-Xclang', '-framework', '-isystem', '-Xpreprocessor', '-imacros']
DEDUP_DOCUMENTED = ('-D', '-U', '-I', '-L', '-l', '-isystem', '-Wl,-l', '-pthread', '-pipe')
PLAIN = ['-DX=1', '-DX=1', '-Ia', '-pthread', '-fmv', '-Wl,--x', '-la', 'a.h', 'b.h', '--opt', '', '-O2', 'a b', "it's"]


def tie_addargs(ctx: Ctx, add) -> None:
    """real Interpreter._add_arguments (the tail shared by add_project_arguments, add_global_arguments, the link variants
    and add_project_dependencies) over call histories in which later batches repeat strings of earlier ones"""
    from mesonbuild.interpreter import interpreter as I
    rng = ctx.rng
    node = types.SimpleNamespace(func_name=types.SimpleNamespace(value='add_project_arguments'))
    fake = types.SimpleNamespace(_warn_about_builtin_args=lambda args: None)
    LANGS = ['c', 'cpp', 'objc']
    for _ in range(ctx.scale(2500, 30000)):
        hist = []
        for _c in range(rng.randint(1, 5)):
            batch: T.List[str] = []
            for _a in range(rng.randint(0, 3)):
                if rng.random() < 0.5:
                    batch += [rng.choice(PAIRED[:3] if rng.random() < 0.7 else PAIRED), rng.choice(['a.h', 'b.h', '--opt', rand_string(rng, 3).replace('\0', '')])]
                else:
                    batch.append(rng.choice(PLAIN))
            langs = rng.sample(LANGS, rng.randint(1, 2))
            hist.append((langs, batch))
        d: T.Dict[str, T.List[str]] = {}

        def run_impl():
            for langs, batch in hist:
                I.Interpreter._add_arguments(fake, node, d, False, list(batch), {'language': list(langs)})
            return d
        lang = rng.choice(LANGS)
        try:
            real: T.Any = list(run_impl().get(lang, []))
            ans = lenc(real)
        except Exception as e:      # noqa: BLE001
            real = f'raised {type(e).__name__}: {e}'
            ans = f'IMPL-SHAPE:_add_arguments:{type(e).__name__}:{str(e)[:80]}'
        add('addargs', (hist, lang), 'addargs ' + ';'.join(lenc(l) for l, _b in hist) + '|' + ';'.join(lenc(b) for _l, b in hist) +
            '|' + enc(lang), ans)
        ctx.count()
        want = [a for langs, batch in hist if lang in langs for a in batch]
        # strings CompilerArgs documents as de-duplicated later on (C13) are not counted here: the property does not
        # promise their multiplicity
        keep = lambda l: [a for a in l if not a.startswith(DEDUP_DOCUMENTED)] if isinstance(l, list) else l
        if keep(real) != keep(want):
            ctx.violation(f'add-arguments-history:{hist!r}:{lang}'.replace(' ', '␣'),
                          f'after these add_*_arguments calls the arguments stored for language {lang!r} are {real!r}; the calls '
                          f'specify {want!r} (same strings, same count, same order)',
                          {'history': hist, 'language': lang, 'position': None})
