"""C15 worker: test tables built through the real Interpreter / Build objects, and the two real consumers.

Run as a subprocess (`python c15_ser.py`, PYTHONPATH = the checkout under test), JSON job on stdin, JSON result on stdout.

One job = one generated project (shared libraries in sub-directories, a static library and executables linking
them, custom targets with one and several outputs, indices, built and source files, found / overridden programs,
environment objects shared between tests, unset variables, every workdir shape) interpreted in-process with the
real `Interpreter`; the backend object is the one `meson setup` would call `generate()` on.  For the project's test
table, its benchmark table and random sub-tables the worker

  * describes the table *before* any call: the heap of `EnvironmentVariables` objects (which tests share an object,
    which objects share an `envvars` list), the target objects, per test the program / arguments / dependencies;
  * runs what `meson setup` runs: `Backend.write_test_file` (first serialisation, pickled; the records are
    unpickled again = what `meson test` reads) and then `mintro.list_tests` (second serialisation + get_test_list) --
    for sub-tables `create_test_serialisation` + `pickle` and `create_test_serialisation` + `get_test_list`;
  * reports both results, or the exception class.
Nothing is judged here.
"""
from __future__ import annotations

import argparse
import io
import json
import os
import pickle
import random
import sys
import typing as T


def gen_project(rng: random.Random, src: str, ntests: int) -> None:
    def w(rel: str, text: str) -> None:
        p = os.path.join(src, rel)
        os.makedirs(os.path.dirname(p), exist_ok=True)
        with open(p, 'w') as f:
            f.write(text)
    w('main.c', 'int main(void) { return 0; }\n')
    w('s1.c', 'int s1(void) { return 1; }\n')
    w('data.txt', 'data\n')
    w('scr.py', '#!/usr/bin/env python3\n')
    os.chmod(os.path.join(src, 'scr.py'), 0o755)
    w('prog.exe', '')
    os.chmod(os.path.join(src, 'prog.exe'), 0o755)
    w('sub1/l1.c', 'int l1(void) { return 1; }\n')
    w('sub1/meson.build', "l1 = shared_library('l1', 'l1.c')\n")
    w('sub2/l2.c', 'int l2(void) { return 2; }\n')
    w('sub2/meson.build', "l2 = shared_library('l2', 'l2.c', link_with: l1)\nm1 = shared_module('m1', 'l2.c')\n")
    w('sub3/deep/main3.c', 'int main(void) { return 0; }\n')
    w('sub3/deep/meson.build', "e3 = executable('e3', 'main3.c', link_with: l2)\nct3 = custom_target('ct3', output: 'ct3.out', command: [py, '-c', 'pass'])\n")
    w('sub3/meson.build', "subdir('deep')\n")
    lines = [
        "project('ser', 'c', version: '1')",
        "py = find_program('python3')",
        "subdir('sub1')", "subdir('sub2')",
        "s1 = static_library('s1', 's1.c', link_with: l2)",
        "l3 = shared_library('l3', 's1.c')",
        "e0 = executable('e0', 'main.c')",
        "e1 = executable('e1', 'main.c', link_with: l1)",
        "e2 = executable('e2', 'main.c', link_with: s1)",
        "e4 = executable('e4', 'main.c', link_with: [l3, l1])",
        "subdir('sub3')",
        "scr = find_program('scr.py')",
        "pexe = find_program('prog.exe')",
        "ct1 = custom_target('ct1', output: 'ct1.out', command: [py, '-c', 'pass'])",
        "ct2 = custom_target('ct2', output: ['ct2a.out', 'ct2b.out'], command: [py, '-c', 'pass'])",
        "cf = configure_file(output: 'cf.txt', configuration: {'a': 1})",
        "f1 = files('data.txt')[0]",
        "meson.override_find_program('ovr', e1)",
        "ovr = find_program('ovr')",
        "meson.override_find_program('ovs', files('scr.py'))",
        "ovs = find_program('ovs')",
    ]
    # environment objects: E<k> are shared between tests; EU<k> unset LD_LIBRARY_PATH (only used by benchmarks)
    names = ['A', 'B', 'LD_LIBRARY_PATH', 'PATH', 'x y']
    vals = ["'v'", "'a b'", "''", "'/p/q'", "'1', '2'"]
    seps = ["':'", "';'", "''", "', '"]
    envs = []
    for k in range(4):
        lines.append(f"E{k} = environment()")
        for _ in range(rng.randint(0, 4)):
            lines.append(f"E{k}.{rng.choice(['set', 'append', 'prepend'])}('{rng.choice(names)}', {rng.choice(vals)}, separator: {rng.choice(seps)})")
        envs.append(f'E{k}')
    lines.append("EZ = environment({'A': '1'})")
    lines.append("EZ.unset('ZZ')")
    envs.append('EZ')
    lines.append("EU = environment()")
    lines.append("EU.unset('LD_LIBRARY_PATH')")
    lines.append("EU.set('K', 'u')")
    envs += ["{'A': '1', 'B': 'x y'}", "['A=1', 'B=2']", "'A=1'", None, None]
    exes = ['e0', 'e1', 'e2', 'e3', 'e4', 'scr', 'py', 'pexe', 'ct1', 'ct2[0]', 'ct3', 'ovr', 'ovs', "files('scr.py')"]
    args = ["'a'", "''", "'x y'", "'--opt=1'", 'f1', 'cf', 'e1', 'e3', 'l1', 'l2', 'l3', 's1', 'm1', 'ct1', 'ct2', 'ct2[1]', 'ct2[1]', 'ct3', 'ovr', 'ovs', 'py', 'scr']
    deps = ['l1', 'l2', 'l3', 'e2', 'e4', 'ct1', 'ct2[0]', 'ct2[0]', 'ct3', 'm1', 's1', 'ovr']
    workdirs = [None, None, None, 'meson.current_build_dir()', 'meson.current_source_dir()', "meson.project_build_root() / 'sub1'", "'/tmp'",
                "meson.current_build_dir() / 'x' / '..' / 'sub2' / '.'", "meson.project_build_root() / 'sub3' / 'deep'", "'/'"]
    for n in range(ntests):
        bench = n % 4 == 3
        kw = []
        a = [rng.choice(args) for _ in range(rng.choice([0, 0, 1, 2, 4]))]
        if a:
            kw.append(f"args: [{', '.join(a)}]")
        d = [rng.choice(deps) for _ in range(rng.choice([0, 0, 1, 2, 3]))]
        if d:
            kw.append(f"depends: [{', '.join(d)}]")
        e = rng.choice(envs + (['EU', 'EU'] if bench and rng.random() < 0.5 else []))
        if e:
            kw.append(f'env: {e}')
        wd = rng.choice(workdirs)
        if wd:
            kw.append(f'workdir: {wd}')
        if rng.random() < 0.6:
            kw.append(f'priority: {rng.randint(-3, 3)}')
        if rng.random() < 0.3:
            kw.append(f'timeout: {rng.choice([0, 5, 600, -1])}')
        if rng.random() < 0.3 and not bench:
            kw.append(f"is_parallel: {rng.choice(['true', 'false'])}")
        if rng.random() < 0.3:
            kw.append(f"protocol: '{rng.choice(['exitcode', 'tap', 'gtest', 'rust'])}'")
        if rng.random() < 0.4 and not bench:
            kw.append("suite: " + rng.choice(["'s1'", "['s1', 's2']", "[]"]))
        lines.append(f"{'benchmark' if bench else 'test'}('t{n}', {rng.choice(exes)}, {', '.join(kw)})")
    w('meson.build', '\n'.join(lines) + '\n')


def render(v: T.Any) -> str:
    return str(v)


class Describer:
    """the abstract test table of the Lean model, read off the real objects"""

    def __init__(self, backend: T.Any) -> None:
        from mesonbuild import build, mesonlib, programs
        self.b, self.m, self.p = build, mesonlib, programs
        self.backend = backend
        self.targets: T.List[dict] = []
        self.tix: T.Dict[int, int] = {}
        self.objs: T.List[T.List[int]] = []
        self.oix: T.Dict[int, int] = {}
        self.cells: T.List[dict] = []
        self.cix: T.Dict[int, int] = {}
        self.keep: T.List[T.Any] = []

    def kind(self, t: T.Any) -> str:
        b = self.b
        for cls, k in ((b.Executable, 'e'), (b.SharedLibrary, 'h'), (b.StaticLibrary, 'a'), (b.BuildTarget, 'b'), (b.CustomTarget, 'c'), (b.CustomTargetIndex, 'i')):
            if isinstance(t, cls):
                return k
        raise TypeError(f'target kind {type(t).__name__}')

    def target(self, t: T.Any) -> int:
        if id(t) in self.tix:
            return self.tix[id(t)]
        self.keep.append(t)
        k = self.kind(t)
        isb = isinstance(t, self.b.BuildTarget)
        d = {'obj': len(self.targets), 'id': t.get_id(), 'kind': k, 'dir': self.backend.get_target_dir(t),
             'filename': t.get_filename() if isb else '', 'outputs': list(t.get_outputs()),
             'linkdeps': [[self.kind(l), l.get_builddir()] for l in t.get_all_link_deps()] if isb else []}
        self.tix[id(t)] = len(self.targets)
        self.targets.append(d)
        return self.tix[id(t)]

    def obj(self, o: T.Any) -> list:
        if isinstance(o, self.b.LocalProgram):
            inner = self.obj(o.program)
            return ['l' + inner[0], inner[1]]
        if isinstance(o, str):
            return ['s', o]
        if isinstance(o, self.m.File):
            return ['f', o.rel_to_builddir(self.backend.build_to_src)]
        if isinstance(o, (self.b.BuildTarget, self.b.CustomTarget, self.b.CustomTargetIndex)):
            return ['t', self.target(o)]
        if isinstance(o, self.p.ExternalProgram):
            return ['x', list(o.get_command())]
        return ['o', type(o).__name__]

    def cell(self, x: T.Any, ops: T.List[list], names: T.List[str]) -> int:
        if id(x) not in self.cix:
            self.keep.append(x)
            self.cix[id(x)] = len(self.cells)
            self.cells.append({'ops': ops, 'names': names})
        return self.cix[id(x)]

    def env(self, e: T.Any) -> int:
        if id(e) not in self.oix:
            self.keep.append(e)
            ops = [[m.__name__.lstrip('_'), n, list(v), s] for m, n, v, s in e.envvars]
            a = self.cell(e.envvars, ops, [])
            u = self.cell(e.unset_vars, [], sorted(e.unset_vars))
            self.oix[id(e)] = len(self.objs)
            self.objs.append([a, u])
        return self.oix[id(e)]

    def test(self, t: T.Any) -> dict:
        return {'name': t.get_name(), 'suite': list(t.suite), 'exe': self.obj(t.get_exe()), 'args': [self.obj(a) for a in t.cmd_args],
                'depends': [self.target(d) for d in t.depends], 'env': self.env(t.env), 'is_parallel': render(t.is_parallel),
                'timeout': render(t.timeout), 'workdir': t.workdir, 'protocol': str(t.protocol), 'priority': t.priority}


def ser_record(t: T.Any) -> dict:
    env = t.env
    ops = [[m.__name__.lstrip('_'), n, list(v), s] for m, n, v, s in env.envvars]
    return {'name': t.name, 'fname': [t.fname] if isinstance(t.fname, str) else list(t.fname), 'cmd_args': list(t.cmd_args), 'env': ops,
            'unset': sorted(env.unset_vars), 'workdir': render(t.workdir), 'timeout': render(t.timeout), 'suite': list(t.suite),
            'is_parallel': render(t.is_parallel), 'priority': render(t.priority), 'protocol': str(t.protocol), 'depends': list(t.depends),
            'extra_paths': list(t.extra_paths)}


def intro_record(i: dict) -> dict:
    return {'name': i['name'], 'cmd': list(i['cmd']), 'env': [[k, v] for k, v in i['env'].items()], 'workdir': render(i['workdir']),
            'timeout': render(i['timeout']), 'suite': list(i['suite']), 'is_parallel': render(i['is_parallel']), 'priority': render(i['priority']),
            'protocol': str(i['protocol']), 'depends': list(i['depends']), 'extra_paths': list(i['extra_paths'])}


def outcome_of(ex: BaseException) -> str:
    msg = str(ex)
    if 'prepend to unset variable' in msg:
        return 'ERR:prepend-to-unset'
    if 'Bad object in test command' in msg:
        return 'ERR:bad-object'
    return f'ERR:other:{type(ex).__name__}'


def main() -> None:
    job = json.load(sys.stdin)
    rng = random.Random(job['seed'])
    root = job['root']
    src, bld = os.path.join(root, 'src'), os.path.join(root, 'bld')
    os.makedirs(src)
    os.makedirs(bld)
    gen_project(rng, src, job['ntests'])
    from mesonbuild import build, environment, mintro, mlog, msetup
    from mesonbuild.interpreter import Interpreter
    from mesonbuild.utils import universal as U
    res: dict = {'ok': False, 'tables': []}
    real_stdout = sys.stdout
    sys.stdout = io.StringIO()
    try:
        mlog._logger.log_disable_stdout = True
        p = argparse.ArgumentParser()
        msetup.add_arguments(p)
        opts = p.parse_args([src, bld])
        if U._meson_command is None:
            U.set_meson_command(job['meson'])
        env = environment.Environment(src, bld, opts)
        b = build.Build(env)
        intr = Interpreter(b, user_defined_options=opts)
        intr.run()
        backend = intr.backend
        m = env.machines.host
        res['machine'] = {'windows': bool(m.is_windows() or m.is_cygwin()), 'darwin': bool(m.is_darwin()), 'cross': bool(env.is_cross_build()),
                          'need_wrapper': bool(env.need_exe_wrapper()), 'wsl': bool(U.is_wsl())}
        res['build_dir'] = env.get_build_dir()
        tests, benches = list(b.get_tests()), list(b.get_benchmarks())
        allt = tests + benches
        tables: T.List[T.Tuple[str, T.List[T.Any]]] = [('tests', tests), ('benchmarks', benches)]
        for k in range(job['subtables']):
            n = rng.randint(0, min(6, len(allt)))
            tables.append((f'sub{k}', [rng.choice(allt) for _ in range(n)] if k % 2 else rng.sample(allt, n)))
        for label, table in tables:
            d = Describer(backend)
            entry: dict = {'label': label}
            try:
                entry['tests'] = [d.test(t) for t in table]
                entry.update({'objs': d.objs, 'cells': d.cells, 'targets': d.targets})
            except Exception as ex:
                entry['describe_error'] = f'{type(ex).__name__}: {ex}'
                res['tables'].append(entry)
                continue
            before = [[[mm.__name__, n, list(v), s] for mm, n, v, s in t.env.envvars] for t in table]
            try:
                if label == 'tests':
                    f = io.BytesIO()
                    backend.write_test_file(f)
                    blob = f.getvalue()
                    intro = mintro.list_tests(env.coredata, b, backend)
                elif label == 'benchmarks':
                    f = io.BytesIO()
                    backend.write_benchmark_file(f)
                    blob = f.getvalue()
                    intro = mintro.list_benchmarks(env.coredata, b, backend)
                else:
                    blob = pickle.dumps(backend.create_test_serialisation(table))
                    intro = mintro.get_test_list(backend.create_test_serialisation(table))
                entry['pickled'] = [ser_record(t) for t in pickle.loads(blob)]
                entry['intro'] = [intro_record(i) for i in intro]
                entry['outcome'] = 'OK'
            except Exception as ex:
                entry['outcome'] = outcome_of(ex)
                entry['message'] = str(ex)[:300]
            after = [[[mm.__name__, n, list(v), s] for mm, n, v, s in t.env.envvars] for t in table]
            entry['table_env_changed'] = [t.get_name() for t, x, y in zip(table, before, after) if x != y]
            res['tables'].append(entry)
        res['ok'] = True
    except BaseException as ex:
        import traceback
        res['error'] = ''.join(traceback.format_exception(type(ex), ex, ex.__traceback__))[-2500:]
    finally:
        sys.stdout = real_stdout
    with open(os.path.join(src, 'meson.build')) as fh:
        res['meson_build'] = fh.read()
    json.dump(res, sys.stdout)


if __name__ == '__main__':
    main()
