"""C06 in-process worker: runs the real emitters on the cases read from stdin (JSON), under the
PYTHONHASHSEED the parent chose for this process.  For every case it answers

    {'id': …, 'line': <request line for mvdriver-det>, 'impl': <canonical implementation answer>,
     'out': <what the emitter produced, for the cross-seed / cross-order oracle>}

Unordered inputs are built *here* as real Python sets/dicts in the insertion order the case gives;
the iteration order the process then observes is what the model is asked about.
"""
from __future__ import annotations

import copy
import io
import json
import os
import sys
import types

os.environ.setdefault('MESON_RSP_THRESHOLD', '300')

HERE = os.path.dirname(os.path.abspath(__file__))
sys.path.insert(0, os.path.dirname(HERE))
from harness import common  # noqa: E402  (puts common.REPO first on sys.path)
from harness.common import enc, enc_list  # noqa: E402


def mkset(items):
    s = set()
    for i in items:
        s.add(i)
    return s


class Collect:
    def __init__(self):
        self.b = b''

    def update(self, x):
        self.b += x


class NoLt:
    """payload that cannot be ordered: mirrors UserOption values in `sorted(opts.items())`"""
    def __init__(self, i):
        self.i = i


def k_sorted(c):
    s = mkset(c['items'])
    it = list(s)
    out = sorted(s)
    return f'sorted {enc_list(it)}', enc_list(out), out


def k_sortedlist(c):
    out = sorted(c['items'])
    return f'sorted {enc_list(c["items"])}', enc_list(out), out


def k_quote(c):
    from mesonbuild.backend import ninjabackend as N
    from mesonbuild.mesonlib import MesonException
    try:
        r = 'OK:' + enc(N.ninja_quote(c['text'], c['build']))
    except MesonException:
        r = 'ERR:newline'
    return f'quote {int(c["build"])}|{enc(c["text"])}', r, r


def k_buildline(c):
    from mesonbuild.backend import ninjabackend as N
    from mesonbuild.mesonlib import MesonException
    el = N.NinjaBuildElement(set(), list(c['outs']), c['rule'], list(c['ins']), list(c['imp']) or None)
    if c['rule'] != 'phony':
        el.rule = N.NinjaRule(c['rule'], ['cc'], ['$ARGS', '$in'], 'desc', rspable=c['rspable'])
    # populated in the given order, one at a time and in bulk, like the backend does
    for d in c['deps']:
        el.add_dep(d)
    el.add_orderdep(list(c['orderdeps']))
    deps_it, od_it = list(el.deps), list(el.orderdeps)
    try:
        rsp = bool(el._should_use_rspfile)
        f = io.StringIO()
        el.write(f)
        first = f.getvalue().split('\n', 1)[0] + '\n'
        r = 'OK:' + enc(first)
    except MesonException:
        rsp = False
        r = 'ERR:newline'
    line = 'buildline ' + '|'.join([enc_list(c['outs']), enc_list(c['imp']), enc(c['rule']), str(int(rsp)),
                                    enc_list(c['ins']), enc_list(deps_it), enc_list(od_it)])
    return line, r, r


def k_envhash(c):
    """EnvironmentVariables.hash: repr((operations in program order, sorted(unset_vars)))"""
    import ast
    from mesonbuild.utils.core import EnvironmentVariables
    env = EnvironmentVariables()
    for op, k, v in c['ops']:
        getattr(env, op)(k, [v])
    for k in c['unset']:
        env.unset(k)
    h = Collect()
    env.hash(h)
    out = h.b.decode('utf-8')
    hashed_unset = list(ast.literal_eval(out)[1])
    return f'envhash {enc_list(list(env.unset_vars))}', enc_list(hashed_unset), out


def k_cheader(c):
    from mesonbuild.utils import universal as U
    from mesonbuild.build import ConfigurationData
    cd = ConfigurationData()
    kinds, vals = [], []
    for k, kind, v, d in c['entries']:
        pv = {0: False, 1: True, 2: int(v) if kind == 2 else 0, 3: v, 4: [v]}[kind]
        cd.values[k] = (pv, d or None)
        kinds.append(kind)
        vals.append(v)
    f = io.StringIO()
    try:
        U._dump_c_header(f, cd, 'nasm' if c['nasm'] else 'c', c['macro'] or None)
        r = 'OK:' + enc(f.getvalue())
    except U.MesonException as e:
        bad = str(e).split('configuration file entry: ', 1)[1]
        r = 'ERR:conftype:' + enc(bad)
    ents = c['entries']
    line = 'cheader ' + '|'.join([str(int(c['nasm'])), enc(c['macro']), enc_list([e[0] for e in ents]),
                                  ','.join(map(str, kinds)), enc_list(vals), enc_list([e[3] for e in ents])])
    return line, r, r


def mk_key(spec):
    from mesonbuild.options import OptionKey
    from mesonbuild.mesonlib import MachineChoice
    name, sub, mach = spec
    return OptionKey(name, sub, MachineChoice.BUILD if mach == 0 else MachineChoice.HOST)


def key_fields(keys):
    sf = ','.join('0' if k.subproject is None else '1' for k in keys)
    subs = enc_list([k.subproject or '' for k in keys])
    ms = ','.join(str(int(k.machine)) for k in keys)
    ns = enc_list([k.name for k in keys])
    return f'{sf}|{subs}|{ms}|{ns}'


def k_optsort(c):
    keys = [mk_key(s) for s in c['keys']]
    items = [(k, NoLt(i)) for i, k in enumerate(keys)]
    out = [p[1].i for p in sorted(items)]
    r = ','.join(map(str, out))
    return f'optsort {key_fields(keys)}', r, [str(keys[i]) for i in out]


def k_optstr(c):
    keys = [mk_key(s) for s in c['keys']]
    out = [str(k) for k in keys]
    return f'optstr {key_fields(keys)}', enc_list(out), out


class StubCompiler:
    def __init__(self, base):
        from mesonbuild.mesonlib import MachineChoice
        self.base_options = base
        self.for_machine = MachineChoice.HOST

    def get_options(self):
        return {}

    def init_from_options(self):
        pass


def k_buildopts(c):
    """real OptionStore + real CoreData.process_compiler_options (base options arrive by iterating the
    set comp.base_options) + real mintro._list_buildoptions"""
    from mesonbuild import options as O, coredata as CD, mintro
    store = O.OptionStore(False)
    for cat, spec in c['store']:
        key = mk_key(spec)
        opt = O.UserStringOption(key.name, 'd', 'v')
        if cat == 'builtin':
            store.add_system_option(key, copy.copy(O.BUILTIN_OPTIONS.get(key.evolve(subproject=None), opt)))
        elif cat == 'compiler':
            store.add_compiler_option(key.name.split('_')[0], key, opt)
        elif cat == 'project':
            store.add_project_option(key, opt)
        else:
            store.add_system_option(key, opt)
    for nm in ('c_args', 'c_link_args'):
        store.add_compiler_option('c', O.OptionKey(nm), O.UserStringArrayOption(nm, 'd', []))
    before = list(store.items())
    cd = CD.CoreData.__new__(CD.CoreData)
    cd.optstore = store
    cd.cross_files = []
    base = mkset(mk_key(s) for s in c['base'])
    base_it = list(base)
    CD.CoreData.process_compiler_options(cd, 'c', StubCompiler(base), '')
    rows = [(d['name'], d['section']) for d in mintro._list_buildoptions(cd)]

    dirnames = set(O.BUILTIN_DIR_OPTIONS)
    testnames = {O.OptionKey('errorlogs'), O.OptionKey('stdsplit')}

    def kind(k):
        if k in dirnames:
            return 0
        if k in testnames:
            return 1
        if store.is_builtin_option(k):
            return 2
        if store.is_backend_option(k):
            return 3
        if store.is_base_option(k):
            return 4
        if store.is_compiler_option(k):
            return 5
        if store.is_project_option(k):
            return 6
        return 7
    keys = [k for k, _ in before]
    line = f'buildopts {key_fields(keys)}|{",".join(str(kind(k)) for k in keys)}|{key_fields(base_it)}'
    r = ';'.join(enc(n) + '/' + enc(s) for n, s in rows)
    return line, r, rows


_TS = {}


def _testser_classes():
    """stand-ins that satisfy the isinstance checks of the real Backend.create_test_serialisation"""
    if _TS:
        return _TS
    from mesonbuild import build

    class FakeSL(build.SharedLibrary):
        def __init__(self, d):
            self._d = d

        def get_builddir(self):
            return self._d

        def __hash__(self):
            return hash(self._d)

        def __eq__(self, o):
            return self is o

    class FakeBT(build.BuildTarget):
        def __init__(self, i, libs):
            self._i = i
            self._libs = libs

        def type_suffix(self):
            return '@fake'

        def get_id(self):
            return self._i

        def get_all_link_deps(self):
            return self._libs

        def __hash__(self):
            return hash(self._i)

        def __eq__(self, o):
            return self is o
    _TS.update(SL=FakeSL, BT=FakeBT)
    return _TS


def k_testser(c):
    """the real Backend.create_test_serialisation (collects `depends` and the shared-library directories
    in sets) followed by the real mintro.get_test_list"""
    from mesonbuild import mintro, programs
    from mesonbuild.backend.backends import Backend, TestProtocol
    from mesonbuild.utils.core import EnvironmentVariables
    K = _testser_classes()
    mach = types.SimpleNamespace(is_windows=lambda: False, is_cygwin=lambda: False, is_darwin=lambda: False,
                                 get_exe_suffix=lambda: '')

    class Machines:
        def __getitem__(self, k):
            return mach

        def matches_build_machine(self, m):
            return True
    env = types.SimpleNamespace(get_build_dir=lambda: '/b', is_cross_build=lambda m=None: False,
                                get_exe_wrapper=lambda: None, machines=Machines(), need_exe_wrapper=lambda *a: False,
                                coredata=types.SimpleNamespace(version='1.0'))
    be = object.__new__(Backend)
    be.environment = env
    exe = programs.ExternalProgram('prog', command=['/bin/true'], silent=True)
    libs = {d: K['SL'](d) for d in c['libdirs']}
    deps = [K['BT'](i, [libs[d] for d in ls]) for i, ls in c['deps']]
    t = types.SimpleNamespace(priority=0, get_exe=lambda: exe, cmd_args=[], depends=deps, env=EnvironmentVariables(),
                              is_parallel=True, expected_fail=False, expected_exitcode=0, timeout=30, workdir=None,
                              protocol=TestProtocol.EXITCODE, verbose=False, get_name=lambda: 'n', project_name='p',
                              suite=['s'])
    r = mintro.get_test_list(Backend.create_test_serialisation(be, [t]))[0]
    ld = r['env'].get('LD_LIBRARY_PATH', '')
    used = []
    for _i, ls in c['deps']:
        for d in ls:
            if os.path.join('/b', d) not in used:
                used.append(os.path.join('/b', d))
    line = f'testser {enc_list([i for i, _ in c["deps"]])}|{enc_list(used)}'
    return line, enc_list(r['depends']) + '#' + enc(ld), [r['depends'], ld]


def k_depnames(c):
    """`Dependency.__init__` mints `name = f'dep{uuid4().int}'`; finders overwrite it for named deps"""
    from mesonbuild.dependencies.base import Dependency

    def build():
        ds = []
        for nm in c['deps']:
            d = Dependency({})
            if nm is not None:
                d.name = nm
            ds.append(d)
        return ds
    ds = build()
    out = [d.name for d in ds]                          # what list_targets puts in 'dependencies'
    flags = ','.join('0' if nm is None else '1' for nm in c['deps'])
    fld = enc_list([str(d._id) if nm is None else nm for d, nm in zip(ds, c['deps'])])
    return f'depnames {flags}|{fld}', enc_list(out), {'first': out, 'again': [d.name for d in build()]}


def k_depfile(c):
    """real DepFile (parse + dict of Target(deps=set)) and get_all_dependencies; the model is asked about the
    dict / set iteration orders this process observes"""
    from mesonbuild.depfile import DepFile
    df = DepFile(c['lines'])
    out = df.get_all_dependencies(c['name'])
    keys = list(df.depfile)
    deps = [list(df.depfile[k].deps) for k in keys]
    line = f'depfile {enc_list(keys)}|{";".join(enc_list(d) for d in deps)}|{enc(c["name"])}'
    return line, enc_list(out) + '#' + enc_list(out), out


def k_formatreqs(c):
    """real DependenciesHelper.add_version_reqs / format_reqs (version_reqs is a dict of sets)"""
    from collections import defaultdict
    from mesonbuild.modules.pkgconfig import DependenciesHelper
    h = object.__new__(DependenciesHelper)
    h.version_reqs = defaultdict(set)
    for name, vs in c['vreqs']:
        for v in vs:                      # one at a time and in bulk, in the given order
            h.add_version_reqs(name, [v])
        h.add_version_reqs(name, list(vs))
    out = h.format_reqs(list(c['reqs']))
    names = [n for n in h.version_reqs if h.version_reqs[n]]
    line = f'formatreqs {enc_list(c["reqs"])}|{enc_list(names)}|{";".join(enc_list(list(h.version_reqs[n])) for n in names)}'
    return line, enc(out), out


def k_depid(c):
    """real get_dep_identifier: the cache-key component of a list-valued keyword"""
    from mesonbuild.dependencies.detect import get_dep_identifier
    ident = dict(get_dep_identifier('zlib', {'modules': list(c['items']), 'static': True}))
    out = list(ident['modules'])
    return f'depid {enc_list(c["items"])}', enc_list(out), out


def k_genlistdeps(c):
    """real GeneratedList: `depends` after adding targets in the given order, then Backend.get_target_deps"""
    from mesonbuild import build
    from mesonbuild.backend.backends import Backend
    K = _testser_classes()
    tg = {i: K['BT'](i, []) for i in dict.fromkeys(c['items'])}
    gen = types.SimpleNamespace(exe=types.SimpleNamespace(get_path=lambda: 'tool', found=lambda: True), depends=[])
    gl = build.GeneratedList(gen, '', None, [], None, [])
    gl.get_generator = lambda: gen
    for i in c['items']:
        gl.depends.add(tg[i])
    deps = Backend.get_target_deps(object.__new__(Backend), {'x': _GenlistUser(gl)})
    out = list(deps)
    return f'genlistdeps {enc_list(c["items"])}', enc_list(out), out


def _GenlistUser(gl):
    """a BuildTarget stand-in whose only generated source is the GeneratedList"""
    K = _testser_classes()
    t = K['BT']('user@exe', [])
    t.link_targets = []
    t.link_whole_targets = []
    t.link_depends = []
    t.objects = []
    t.get_generated_sources = lambda: [gl]
    return t


def k_gnuarg(c):
    """a real CompileResult goes through pickle (what coredata.dat does to compiler_check_cache) and the real
    GnuLikeCompiler.has_arguments judges the fresh and the unpickled result"""
    import contextlib
    import pickle
    from mesonbuild.compilers.compilers import CompileResult, RunResult
    from mesonbuild.compilers.mixins.gnu import GnuCompiler
    r = CompileResult(c['stdout'], c['stderr'], ['cc', '-c', 'x.c'], c['rc'], 'x.c')
    r2 = pickle.loads(pickle.dumps(r))
    rr = RunResult(True, c['rc'], c['stdout'], c['stderr'])
    rr2 = pickle.loads(pickle.dumps(rr))

    def verdict(res):
        @contextlib.contextmanager
        def wrapper(code, args, deps, mode):
            yield res
        stub = types.SimpleNamespace(language='c' if c['is_c'] else 'cpp', _build_wrapper=wrapper)
        return GnuCompiler.has_arguments(stub, ['-Wx'], 'int i;', None)[0]
    fields = lambda x: [x.stdout, x.stderr, x.returncode]  # noqa: E731
    out = {'fresh': verdict(r), 'cached': verdict(r2), 'same_fields': fields(r) == fields(r2) and r.command == r2.command
           and fields(rr) == fields(rr2) and rr.compiled == rr2.compiled}
    return f'gnuarg {int(c["is_c"])}|{c["rc"]}|{enc(c["stderr"])}', f'{int(out["fresh"])}{int(out["cached"])}', out


def k_excludes(c):
    from mesonbuild import mintro
    from mesonbuild.backend.backends import SubdirInstallData
    files, dirs = mkset(c['files']), mkset(c['dirs'])
    f_it, d_it = list(files), list(dirs)
    sd = SubdirInstallData('/src/tree', 'share/x', '{datadir}/x', None, (files, dirs), '', tag=None, data_type=None)
    idata = types.SimpleNamespace(build_dir='/b', targets=[], data=[], man=[], headers=[], install_subdirs=[sd])
    backend = types.SimpleNamespace(create_install_data=lambda: idata)
    plan = mintro.list_install_plan(None, None, backend)
    e = plan['install_subdirs']['/src/tree']
    r = enc_list(e['exclude_dirs']) + '|' + enc_list(e['exclude_files'])
    return f'excludes {enc_list(f_it)}|{enc_list(d_it)}', r, [e['exclude_dirs'], e['exclude_files']]


def k_fs(c):
    """sequences of writes through the real writers on real files.  Paths in c['fam_b'] are
    introspection files (`x` = real mintro.write_intro_info); the others are plain outputs (`r` = real
    replace_if_different or, when c['via_header'], real dump_conf_header; `x` = tmp + os.replace as at
    the end of NinjaBackend.generate; `w` = in-place rewrite as the pkg-config module does)."""
    from mesonbuild.utils import universal as U
    from mesonbuild import mintro
    from mesonbuild.build import ConfigurationData
    OLD = 1_000_000_000
    fam_b = set(c['fam_b'])
    via_header = c['via_header']
    d = common.scratch_dir('c06fs-')

    def fname(i):
        return f'intro-p{i}.json' if i in fam_b else f'p{i}'

    def text(i, content):
        if i in fam_b:
            return json.dumps(content, indent=2)
        if via_header:
            return json.dumps({'K': content}, sort_keys=True)
        return content

    def canon_name(fn):
        return fn[len('intro-'):-len('.json')] if fn.startswith('intro-') else fn

    def read(fn):
        data = open(os.path.join(d, fn), encoding='utf-8').read()
        if fn.startswith('intro-'):
            return json.loads(data)
        if via_header and not fn.endswith('~'):
            return json.loads(data)['K']
        return data
    MODES = [0o644, 0o755, 0o444, 0o600]
    os.umask(0o022)
    tdir = common.scratch_dir('c06tpl-')

    def modes():
        return {canon_name(fn): os.stat(os.path.join(d, fn)).st_mode & 0o777 for fn in os.listdir(d)}
    try:
        touched_all = []
        oracle = []
        for opt in c['ops']:
            op, i, cn = opt[0], opt[1], opt[2]
            tmode = MODES[opt[3]] if len(opt) > 3 else 0o644
            content = f'c{cn}'
            for fn in os.listdir(d):
                os.utime(os.path.join(d, fn), (OLD, OLD))
            before = {canon_name(fn): read(fn) for fn in os.listdir(d)}
            mbefore = modes()
            p = os.path.join(d, fname(i))
            if op == 'w':
                with open(p, 'w', encoding='utf-8') as f:
                    f.write(text(i, content))
            elif op == 't':
                # real do_conf_file from a template with the given permission bits
                tpl = os.path.join(tdir, 'tpl.in')
                if os.path.exists(tpl):
                    os.chmod(tpl, 0o644)
                with open(tpl, 'w', encoding='utf-8') as f:
                    f.write(text(i, content))
                os.chmod(tpl, tmode)
                U.do_conf_file(tpl, p, ConfigurationData(), 'meson')
            elif op == 'r':
                if via_header and i not in fam_b:
                    cdata = ConfigurationData()
                    cdata.values['K'] = (content, None)
                    U.dump_conf_header(p, cdata, 'json', None)
                else:
                    with open(p + '~', 'w', encoding='utf-8') as f:
                        f.write(text(i, content))
                    U.replace_if_different(p, p + '~')
            elif i in fam_b:
                mintro.write_intro_info([(f'p{i}', content)], d)
            else:
                with open(p + '~', 'w', encoding='utf-8') as f:
                    f.write(text(i, content))
                os.replace(p + '~', p)
            touched = sorted(canon_name(fn) for fn in os.listdir(d)
                             if os.stat(os.path.join(d, fn)).st_mtime_ns != OLD * 10**9)
            after = {canon_name(fn): read(fn) for fn in os.listdir(d)}
            touched_all.append(','.join(touched))
            oracle.append({'op': op, 'path': f'p{i}', 'content': content, 'before': before, 'after': after,
                           'touched': touched, 'real_writer': op in ('r', 't') or (op == 'x' and i in fam_b),
                           'mode_before': mbefore, 'mode_after': modes(), 'tmode': tmode})
        ms = modes()
        final = sorted(f'{canon_name(fn)}={read(fn)}@{ms[canon_name(fn)]}' for fn in os.listdir(d))
        r = ';'.join(touched_all) + '#' + ','.join(final)
    finally:
        common.rmtree(d)
        common.rmtree(tdir)
    return 'fs ' + ','.join(':'.join(str(x) for x in opt) for opt in c['ops']), r, oracle


def _okey(machine, name):
    from mesonbuild.options import OptionKey
    from mesonbuild.mesonlib import MachineChoice
    return OptionKey(name, machine=MachineChoice.BUILD if machine == 0 else MachineChoice.HOST)


def _show_dict(items):
    return ';'.join(f'{int(k.machine)}:{enc(k.name)}={enc_list(v)}' for k, v in items)


def k_envargs(c):
    """real Environment._set_default_options_from_env under an os.environ populated in the order the case gives,
    then real Environment.add_lang_args for every query; the tables, the iteration orders of the two language
    sets this process observes and split_args (as a table) go to the model"""
    from mesonbuild import environment as E, options as O
    from mesonbuild.compilers import compilers as CC
    from mesonbuild.mesonlib import MachineChoice
    from mesonbuild.utils.universal import split_args
    saved = dict(os.environ)
    try:
        os.environ.clear()
        for k, v in c['env']:
            os.environ[k] = v
        seen_env = list(os.environ.items())
        mach = {MachineChoice.BUILD: types.SimpleNamespace(is_windows=lambda: bool(c['win'][0])),
                MachineChoice.HOST: types.SimpleNamespace(is_windows=lambda: bool(c['win'][1]))}
        opts = {_okey(m, n): ['pre'] for m, n in c['options']}
        pre = list(opts.items())
        stub = types.SimpleNamespace(is_cross_build=lambda: bool(c['cross']), machines=mach,
                                     first_invocation=bool(c['first']), options=opts, env_opts={})
        E.Environment._set_default_options_from_env(stub)
    finally:
        os.environ.clear()
        os.environ.update(saved)
    allopts = list(stub.options.items())
    additions = allopts[len(pre):]
    envopts = list(stub.env_opts.items())
    results = []
    for lang, m, drv, pa, pl in c['queries']:
        store = O.OptionStore(bool(c['cross']))
        akey, lkey = _okey(m, f'{lang}_args'), _okey(m, f'{lang}_link_args')
        if pa is not None:
            store.pending_options[store.ensure_and_validate_key(akey)] = list(pa)
        if pl is not None:
            store.pending_options[store.ensure_and_validate_key(lkey)] = list(pl)
        stub2 = types.SimpleNamespace(coredata=types.SimpleNamespace(optstore=store), env_opts=stub.env_opts)
        comp = types.SimpleNamespace(USED_FOR_SEPARATE_LINKING_STEP=bool(drv))
        E.Environment.add_lang_args(stub2, lang, comp, MachineChoice.BUILD if m == 0 else MachineChoice.HOST)
        results.append([list(store.options[store.ensure_and_validate_key(akey)].value),
                        list(store.options[store.ensure_and_validate_key(lkey)].value)])
    impl = ('PREFIX-CHANGED#' if allopts[:len(pre)] != pre else '') + _show_dict(additions) + '#' + _show_dict(envopts) + '#' + \
        '!'.join(enc_list(a) + '/' + enc_list(b) for a, b in results)
    lf = list(CC.CFLAGS_MAPPING.items())
    nl = list(E.NON_LANG_ENV_OPTIONS)
    vals = list(dict.fromkeys(v for _k, v in seen_env))
    queries = ';'.join(':'.join([enc(lang), str(m), str(int(bool(drv))), '0' if pa is None else '1', enc_list(pa or []),
                                 '0' if pl is None else '1', enc_list(pl or [])]) for lang, m, drv, pa, pl in c['queries'])
    line = 'envargs ' + '|'.join([
        str(int(bool(c['cross']))), str(int(bool(c['first']))), str(int(bool(c['win'][0]))), str(int(bool(c['win'][1]))),
        enc_list([k for k, _ in lf]), enc_list([v for _, v in lf]), enc_list([v for v, _ in nl]), enc_list([k for _, k in nl]),
        enc_list(list(CC.LANGUAGES_USING_LDFLAGS)), enc_list(list(CC.LANGUAGES_USING_CPPFLAGS)),
        enc_list([k for k, _ in seen_env]), enc_list([v for _, v in seen_env]),
        enc_list(vals), ';'.join(enc_list(split_args(v)) for v in vals),
        ','.join(str(m) for m, _ in c['options']), enc_list([n for _, n in c['options']]), queries])
    out = {'options': [[int(k.machine), k.name, list(v)] for k, v in additions], 'args': results}
    return line, impl, out


def k_buildrpaths(c):
    """real mintro.list_install_plan: `build_rpaths` of an installed target (a set of bytes)"""
    from mesonbuild import mintro
    s = mkset(x.encode('utf-8') for x in c['items'])
    it = [x.decode('utf-8') for x in s]
    t = types.SimpleNamespace(fname='libx.so', out_name='{libdir}/libx.so', tag=None, subproject='', install_rpath='',
                              rpath_dirs_to_remove=s)
    idata = types.SimpleNamespace(build_dir='/b', targets=[t], data=[], man=[], headers=[], install_subdirs=[])
    plan = mintro.list_install_plan(None, None, types.SimpleNamespace(create_install_data=lambda: idata))
    out = plan['targets']['/b/libx.so']['build_rpaths']
    return f'buildrpaths {enc_list(it)}', enc_list(out), out


def k_depacc(c):
    """real NinjaBackend.generate_dependency_scan_target on a stand-in backend: the `depaccumulate` statement"""
    from mesonbuild.backend import ninjabackend as N
    from mesonbuild.mesonlib import MesonException
    K = _testser_classes()

    def mk(name, dyn, fortran):
        t = K['BT'](name, [])
        t.name = name
        t._dyn = dyn
        t.uses_fortran = lambda: fortran
        return t
    linked = [mk(n, dyn, False) for n, dyn in c['linked']]
    od = [mk(n, True, f) for n, f in c['od']]
    builds = []
    d = common.scratch_dir('c06dep-')
    try:
        stub = types.SimpleNamespace(
            should_use_dyndeps_for_target=lambda t: t._dyn, _uses_dyndeps=False,
            get_dep_scan_file_for=lambda t: (t.name + '.json', t.name + '.dd'),
            get_target_private_dir=lambda t: 'priv', get_target_private_dir_abs=lambda t: d,
            select_sources_to_scan=lambda srcs: [], all_outputs=set(), order_deps_to_strings=lambda t, o: [],
            add_build=builds.append, flatten_object_list=lambda t: ([], od))
        target = mk(c['name'], True, False)
        target.get_all_linked_targets = lambda: linked
        N.NinjaBackend.generate_dependency_scan_target(stub, target, [], {}, [])
    finally:
        common.rmtree(d)
    el = builds[-1]
    el.rule = N.NinjaRule('depaccumulate', ['x'], ['$in'], 'desc')
    try:
        f = io.StringIO()
        el.write(f)
        r = 'OK:' + enc(f.getvalue().split('\n', 1)[0] + '\n')
    except MesonException:
        r = 'ERR:newline'
    line = 'depacc ' + '|'.join([enc(c['name'] + '.dd'), enc(c['name'] + '.json'),
                                 enc_list([n + '.json' for n, dyn in c['linked'] if dyn]),
                                 enc_list([n + '.json' for n, f in c['od'] if f])])
    return line, r, r


KINDS = {n[2:]: f for n, f in list(globals().items()) if n.startswith('k_')}


def main() -> int:
    cases = json.load(sys.stdin)
    real_stdout = sys.stdout
    sys.stdout = sys.stderr          # anything the implementation prints must not corrupt the answer
    out = []
    for c in cases:
        try:
            line, impl, o = KINDS[c['kind']](c)
            out.append({'id': c['id'], 'line': line, 'impl': impl, 'out': o})
        except Exception as e:  # an escaping exception is reported, never hidden
            out.append({'id': c['id'], 'line': None, 'impl': f'EXC:{type(e).__name__}:{e}', 'out': None})
    json.dump(out, real_stdout)
    return 0


if __name__ == '__main__':
    sys.exit(main())
