"""C08 runner: executes one lifecycle history with the REAL meson commands (one process per command) on a
tree of a top-level project and its subprojects (top + subprojects/sub + any further ones, e.g. subprojects/alt:
projects may declare options of the same name, with the same definition, yielding or not) and reads the persisted
state back after every step.

A history is a list of commands (JSON-able dicts):

  {'op': 'setup',       'D': [[key, val], ...]}          meson setup --backend=none -Dkey=val ... <bd> <src>
  {'op': 'configure',   'D': [...], 'U': [key, ...]}     meson configure -D... -U... <bd>
  {'op': 'reconfigure', 'D': [...]}                      meson setup --reconfigure -D... <bd> <src>
  {'op': 'wipe'}                                         meson setup --wipe <bd> <src>
  {'op': 'edit', 'proj': 'top'|'sub', 'name': n, 'spec': spec|None}    rewrite the option file (None removes n)
  {'op': 'corrupt'}                                      truncate coredata.dat (next --reconfigure regenerates)
  {'op': 'file', 'proj': p, 'state': 'options'|'txt'|None}   the option file is meson.options / meson_options.txt / deleted
  (an 'edit' may carry 'style': how a file without declarations is written: empty / comment / blank / noop)

`key` is written as on the command line: `t_str`, `sub:s_str`, `warning_level`, `sub:warning_level`.
An option spec is {'t': 'string'|'boolean'|'combo'|'integer'|'array', 'd': default, ['c': choices (array: may be
None)], ['min','max'], ['y': True]}.

Observation after every step (all values canonical strings: true/false, decimal, text):
  rc       'ok' | 'fail'
  msgs     {'top:name' | 'sub:name': value}     what get_option() returned during this (re)configure (None for
                                                configure / edit)
  core     None (no coredata.dat) | {'eff': {k: v | '!ExcName'}, 'own': {k: v}, 'aug': {k: v}, 'yield': {k: bool},
                                    'stale': [k]  (options whose .parent is not the registered top-level object)}
  cmdline  None (no cmd_line.txt) | [[key, val], ...]          the [options] section, in file order
  intro    None | {'name' | 'sub:name': value}                  meson-info/intro-buildoptions.json (what
                                                                `meson introspect --buildoptions` prints)
  introspect  same as intro, from a real `meson introspect --buildoptions` process (only on sampled steps)
"""
from __future__ import annotations

import configparser
import json
import os
import re
import subprocess
import sys
import typing as T

from . import common

BUILTIN = 'warning_level'        # a builtin option that can be overridden per subproject (augment)
FIXED_TOP = ['boom', 'boom_late']  # failure switches, always present in the top-level option file


# ---------------------------------------------------------------- source tree

def fmt_lit(v: T.Any) -> str:
    if isinstance(v, list):
        return '[' + ', '.join(fmt_lit(x) for x in v) + ']'
    if isinstance(v, bool):
        return 'true' if v else 'false'
    if isinstance(v, int):
        return str(v)
    return "'" + str(v) + "'"


def option_line(name: str, sp: dict) -> str:
    parts = [f"'{name}'", f"type: '{sp['t']}'"]
    if sp['t'] == 'combo' or (sp['t'] == 'array' and sp.get('c') is not None):
        parts.append('choices: [' + ', '.join(fmt_lit(c) for c in sp['c']) + ']')
    if sp['t'] == 'integer':
        if sp.get('min') is not None:
            parts.append(f"min: {sp['min']}")
        if sp.get('max') is not None:
            parts.append(f"max: {sp['max']}")
    parts.append('value: ' + fmt_lit(sp['d']))
    if sp.get('y'):
        parts.append('yield: true')
    return 'option(' + ', '.join(parts) + ')\n'


# default_options of the build files (fixed; the options they name are never removed by a history)
PDO_TOP = ['shared=b', 'sub:warning_level=2']     # project('top', default_options: …)
PDO_SUB = ['s_fix=frompdo']                       # project('sub', default_options: …)
SPCALL = ['s_fix2=fromcall']                      # subproject('sub', default_options: …)
# further subprojects (any project name but 'top' / 'sub'): project(p, default_options:) / subproject(p, default_options:)
PDO_MORE: T.Dict[str, T.List[str]] = {'alt': ['a_fix=frompdo']}
SPCALL_MORE: T.Dict[str, T.List[str]] = {'alt': ['a_fix2=fromcall']}


def projects(files: T.Dict[str, T.Any]) -> T.List[str]:
    """'top', 'sub', then the further subprojects in the order of the dict (= order of the subproject() calls)"""
    return ['top', 'sub'] + [p for p in files if p not in ('top', 'sub')]


def pdo_of(proj: str) -> T.List[str]:
    return PDO_TOP if proj == 'top' else PDO_SUB if proj == 'sub' else PDO_MORE.get(proj, [])


def spcall_of(proj: str) -> T.List[str]:
    return SPCALL if proj == 'sub' else SPCALL_MORE.get(proj, [])


def _dol(l: T.List[str]) -> str:
    return '[' + ', '.join("'" + x + "'" for x in l) + ']'


FILE_NAMES = {'options': 'meson.options', 'txt': 'meson_options.txt'}
# what a file without declarations looks like (all are read as "no options")
EMPTY_STYLES = {'empty': '', 'comment': '# no options any more\n', 'blank': '\n   \n\t\n',
                'noop': "# a syntax-valid no-op\n\n# end\n"}


def write_tree(src: str, files: T.Dict[str, T.Dict[str, dict]], fstate: T.Optional[T.Dict[str, T.Optional[str]]] = None,
               style: str = 'empty') -> None:
    """(re)write option files and the meson.build files that print every option of the current files.
    `fstate[proj]`: 'options' (meson.options), 'txt' (meson_options.txt) or None (no option file)."""
    projs = projects(files)
    fstate = dict({p: 'options' for p in projs}, **(fstate or {}))
    eff = {p: (files[p] if fstate[p] is not None else {}) for p in projs}
    for proj in projs:
        d = src if proj == 'top' else os.path.join(src, 'subprojects', proj)
        os.makedirs(d, exist_ok=True)
        names = list(eff[proj])
        # default_options only name options the option file declares (plus builtin / sub:builtin entries)
        own = pdo_of(proj)
        pdo = [x for x in own if ':' in x.split('=')[0] or x.split('=')[0] in names]
        body = [f"project('{proj}', meson_version: '>=1.1', default_options: {_dol(pdo)})\n"]
        for n in names + [BUILTIN]:
            body.append(f"message('OPT {proj}:{n} = @0@'.format(get_option('{n}')))\n")
        if proj == 'top':
            if 'boom' in names:
                body.append("if get_option('boom')\n  error('boom')\nendif\n")
            if 'boom_late' in names:
                body.append("if get_option('boom_late')\n  meson.add_postconf_script('false')\nendif\n")
            for sp_ in projs[1:]:
                spc = [x for x in spcall_of(sp_) if x.split('=')[0] in eff[sp_]]
                body.append(f"subproject('{sp_}', default_options: {_dol(spc)})\n")
        with open(os.path.join(d, 'meson.build'), 'w') as f:
            f.write(''.join(body))
        for st, fn in FILE_NAMES.items():
            path = os.path.join(d, fn)
            if fstate[proj] == st:
                text = ''.join(option_line(n, files[proj][n]) for n in files[proj])
                with open(path, 'w') as f:
                    f.write(text if files[proj] else EMPTY_STYLES[style])
            elif os.path.exists(path):
                os.remove(path)


# ---------------------------------------------------------------- real commands

def meson_argv(cmd: dict, bd: str, src: str) -> T.List[str]:
    m = [sys.executable, os.path.join(common.REPO, 'meson.py')]
    dargs = [f'-D{k}={v}' for k, v in cmd.get('D', [])]
    uargs = [f'-U{k}' for k in cmd.get('U', [])]
    op = cmd['op']
    if op == 'setup':
        return m + ['setup', '--backend=none'] + dargs + [bd, src]
    if op == 'reconfigure':
        return m + ['setup', '--reconfigure', '--backend=none'] + dargs + [bd, src]
    if op == 'wipe':
        return m + ['setup', '--wipe', '--backend=none'] + dargs + [bd, src]
    if op == 'configure':
        return m + ['configure'] + dargs + uargs + [bd]
    raise ValueError(op)


def child_env() -> T.Dict[str, str]:
    env = dict(os.environ)
    env['PYTHONPATH'] = common.REPO
    env['PYTHONDONTWRITEBYTECODE'] = '1'
    env.pop('MESON_PACKAGE_CACHE_DIR', None)
    env['LC_ALL'] = 'C.UTF-8'
    return env


MSG_RE = re.compile(r'^(?:\w+\| )?Message: OPT (\w+):(\S+) =(?: (.*))?$')


def canon(v: T.Any) -> str:
    if isinstance(v, bool):
        return 'true' if v else 'false'
    if isinstance(v, list):
        return '[' + ', '.join(canon(x) for x in v) + ']'
    return str(v)


def read_cmdline(bd: str) -> T.Optional[T.List[T.List[str]]]:
    fn = os.path.join(bd, 'meson-private', 'cmd_line.txt')
    if not os.path.isfile(fn):
        return None
    cp = configparser.ConfigParser(delimiters=['='], interpolation=None)
    cp.optionxform = lambda s: s  # type: ignore
    try:
        cp.read(fn, encoding='utf-8')
        return [[k, v] for k, v in cp['options'].items() if k != 'backend']
    except Exception as e:  # torn file
        return [['!' + type(e).__name__, '']]


def intro_rows(rows: T.List[dict]) -> T.Dict[str, str]:
    out = {}
    for o in rows:
        n = o['name']
        if o['section'] == 'user' or n == BUILTIN or n.endswith(':' + BUILTIN):
            out[n] = canon(o['value'])
    return out


def read_intro(bd: str) -> T.Optional[T.Dict[str, str]]:
    fn = os.path.join(bd, 'meson-info', 'intro-buildoptions.json')
    if not os.path.isfile(fn):
        return None
    try:
        return intro_rows(json.load(open(fn)))
    except Exception as e:
        return {'!' + type(e).__name__: ''}


def read_core(bd: str, subs: T.Sequence[str] = ('sub',)) -> T.Optional[dict]:
    """unpickle coredata.dat with the implementation's own classes and ask the store for effective values"""
    fn = os.path.join(bd, 'meson-private', 'coredata.dat')
    if not os.path.isfile(fn):
        return None
    import pickle
    from mesonbuild.options import OptionKey
    try:
        with open(fn, 'rb') as f:
            cd = pickle.load(f)
    except (pickle.UnpicklingError, EOFError):
        return {'corrupt': True}
    st = cd.optstore
    eff: T.Dict[str, str] = {}
    own: T.Dict[str, str] = {}
    yl: T.Dict[str, bool] = {}
    keys = [(k, ('top' if k.subproject == '' else k.subproject) + ':' + k.name)
            for k in st.options if st.is_project_option(k)]
    keys += [(OptionKey(BUILTIN, ''), 'top:' + BUILTIN)] + [(OptionKey(BUILTIN, p), p + ':' + BUILTIN) for p in subs]
    for k, name in keys:
        try:
            eff[name] = canon(st.get_value_for(k))
        except Exception as e:
            eff[name] = '!' + type(e).__name__
        if k in st.options:
            o = st.options[k]
            own[name] = canon(o.value)
            yl[name] = bool(o.yielding)
    aug = {str(k): canon(v) for k, v in st.augments.items()}
    # children whose .parent is not the object registered under the top-level key
    stale = [name for k, name in keys if k in st.options and st.options[k].parent is not None and
             st.options.get(k.as_root()) is not st.options[k].parent]
    return {'eff': eff, 'own': own, 'aug': aug, 'yield': yl, 'stale': stale}


def real_introspect(bd: str) -> T.Optional[T.Dict[str, str]]:
    p = subprocess.run([sys.executable, os.path.join(common.REPO, 'meson.py'), 'introspect', '--buildoptions', bd],
                       stdout=subprocess.PIPE, stderr=subprocess.PIPE, text=True, env=child_env(), timeout=120)
    if p.returncode != 0:
        return None
    try:
        return intro_rows(json.loads(p.stdout))
    except Exception as e:
        return {'!' + type(e).__name__: ''}


def observe(bd: str, subs: T.Sequence[str] = ('sub',)) -> dict:
    return {'core': read_core(bd, subs), 'cmdline': read_cmdline(bd), 'intro': read_intro(bd)}


def run_history(init_files: T.Dict[str, T.Dict[str, dict]], hist: T.List[dict], introspect_steps: T.Iterable[int] = (),
                keep: T.Optional[str] = None) -> T.List[dict]:
    """run one history in its own scratch directory; one observation per step"""
    root = keep or common.scratch_dir('mverif-c08-')
    src = os.path.join(root, 'src')
    bd = os.path.join(root, 'b')
    files = {p: dict(d) for p, d in init_files.items()}
    fstate: T.Dict[str, T.Optional[str]] = {p: 'options' for p in projects(files)}
    subs = projects(files)[1:]
    style = 'empty'
    isteps = set(introspect_steps)
    out = []
    try:
        os.makedirs(src, exist_ok=True)
        write_tree(src, files, fstate, style)
        for i, cmd in enumerate(hist):
            ob: T.Dict[str, T.Any] = {'rc': 'ok', 'msgs': None}
            if cmd['op'] == 'corrupt':
                # coredata.dat is damaged behind meson's back (truncated to nothing)
                cdf = os.path.join(bd, 'meson-private', 'coredata.dat')
                if os.path.isfile(cdf):
                    open(cdf, 'w').close()
            elif cmd['op'] == 'file':
                # delete / re-create / rename the option file of a project
                fstate[cmd['proj']] = cmd['state']
                write_tree(src, files, fstate, style)
            elif cmd['op'] == 'edit':
                if cmd['spec'] is None:
                    files[cmd['proj']].pop(cmd['name'], None)
                else:
                    files[cmd['proj']][cmd['name']] = cmd['spec']
                style = cmd.get('style', style)
                write_tree(src, files, fstate, style)
            else:
                p = subprocess.run(meson_argv(cmd, bd, src), stdout=subprocess.PIPE, stderr=subprocess.STDOUT,
                                   text=True, env=child_env(), timeout=300, cwd=root)
                ob['rc'] = 'ok' if p.returncode == 0 else 'fail'
                ob['code'] = p.returncode
                if p.returncode != 0:
                    errs = [l for l in p.stdout.split('\n') if 'ERROR' in l or 'Error' in l]
                    ob['err'] = (errs[-1] if errs else p.stdout[-200:])[:200]
                if cmd['op'] != 'configure':
                    msgs = {}
                    for line in p.stdout.split('\n'):
                        m = MSG_RE.match(line.strip())
                        if m:
                            # an array is printed as ['x', 'y']; canonical form [x, y]
                            msgs[m.group(1) + ':' + m.group(2)] = (m.group(3) or '').replace("'", '')
                    ob['msgs'] = msgs
            ob.update(observe(bd, subs))
            if i in isteps:
                ob['introspect'] = real_introspect(bd)
            out.append(ob)
    finally:
        if not keep:
            common.rmtree(root)
    return out
