"""C20 — consumers of the matcher / of cfg() that work on values: `_api_of`/`api` against caret semantics,
Cargo.lock listing and resolution (`CargoLock.named`, `_resolve_package`, `resolve_package`, `_dep_package`),
the merge of `[target.'<condition>'.dependencies]` in `Interpreter._prepare_package`, and
`SystemDependency.meson_version` checked with meson's `version_compare_many`.

Every stream does three things per case: runs the real function, hands the same input to the Lean model
(`add(kind, input, driver line, implementation answer)`), and judges the implementation's answer with a
Python predicate written from the documented behaviour (no model in the loop).
"""
from __future__ import annotations

import itertools
import os
import types
import typing as T

from . import common
from .common import Ctx, enc, enc_list

KINDS = ('apiof', 'named', 'resolve', 'resolveapi', 'deppin', 'merge', 'mergehist', 'mesonver', 'sysdep')


def H():
    from . import c20
    return c20


# ------------------------------------------------------------------ documented behaviour (oracle side)

def doc_api(v: T.Tuple[int, ...]) -> str:
    """documented api of a release version: major, '0.<minor>' below 1.0, '0' below 0.1"""
    if v[0] != 0:
        return str(v[0])
    if len(v) >= 2 and v[1] != 0:
        return '0.%d' % v[1]
    return '0'


def caret_range(v: T.Tuple[int, int, int], w: T.Tuple[int, int, int]) -> bool:
    """Cargo: ^I.J.K allows changes that do not modify the left-most non-zero component (pinned deviation:
    ^0.0.0 means < 1.0.0)"""
    if w < v:
        return False
    if v[0] != 0:
        return w[0] == v[0]
    if v[1] != 0:
        return w[0] == 0 and w[1] == v[1]
    if v[2] != 0:
        return w == v
    return w[0] == 0


def wire_lock(lock: T.Optional[T.Sequence[T.Tuple[str, str]]]) -> str:
    if lock is None:
        return 'NOLOCK'
    return ','.join(enc(n) + '=' + enc(v) for n, v in lock)


def wire_deps(d: T.Iterable[T.Tuple[str, str]]) -> str:
    return ','.join(enc(k) + '=' + enc(v) for k, v in d)


def wire_targets(ts: T.Sequence[T.Tuple[str, T.Sequence[T.Tuple[str, str]]]]) -> str:
    return ';'.join(enc(c) + ':' + wire_deps(d) for c, d in ts)


def show_api(f: T.Callable[[], str], mex) -> str:
    try:
        return 'OK:' + enc(f())
    except mex:
        return 'ERR:MesonException'
    except ValueError:
        return 'ERR:ValueError'
    except Exception as e:
        return f'ERR:PythonInternal({type(e).__name__})'


def cond_expect(cond: str, triple: str, cfgs: T.Dict[str, str]) -> T.Union[bool, str, None]:
    """what the condition of a [target.'<cond>'] table means: the literal target triple, or a cfg() expression
    with the value of its structure; 'raise' for a malformed cfg(); None where the property does not decide
    (a bare all/any/not used as a name)"""
    c = H()
    if cond == triple:
        return True
    if not (cond.startswith('cfg(') and cond.endswith(')')):
        return False
    inner = cond[4:-1]
    toks = c.cfg_tokens(inner)
    if toks is None:
        return 'raise'
    ambiguous = any(k == 'W' and v in ('all', 'any', 'not') and (i + 1 >= len(toks) or toks[i + 1][0] != 'L')
                    for i, (k, v) in enumerate(toks))
    tree = c.cfg_recognize(c.kw(toks, bare_keyword_is_name=True))
    if tree is None:
        return 'raise'
    if ambiguous:
        return None
    return c.truth(tree, cfgs)


# ------------------------------------------------------------------ A. api strings and caret requirements

def api_cases(ctx: Ctx, V, mex, add, viol, n_junk: int) -> None:
    c = H()
    rng = ctx.rng
    api_of = getattr(V, '_api_of', None)
    if api_of is None:
        ctx.obligation_failed('consumers:_api_of', 'mesonbuild.cargo.version has no _api_of any more')
        return
    rel = list(itertools.product(c.VERS, repeat=3))
    texts: T.List[T.Tuple[str, T.Tuple[int, ...]]] = [('%d.%d.%d' % v, v) for v in rel]
    texts += [('.'.join(map(str, p)), p) for p in c.partials() if len(p) < 3]
    apis: T.Dict[T.Tuple[int, ...], str] = {}
    for s, v in texts:
        got = show_api(lambda: api_of(s), mex)
        add('apiof', s, f'apiof {enc(s)}', got)
        ctx.tag('consumers:api-of')
        want = 'OK:' + enc(doc_api(v))
        if got != want:
            viol((f'api:of:{s}', f'_api_of({s!r}) -> {got}, documented api is {doc_api(v)!r}'), {'consumer': 'apiof', 'version': s})
        if len(v) == 3:
            apis[v] = got
            for form in (s, '=' + s, '^' + s, '>=' + s, '~' + s):
                g2 = show_api(lambda: V.api(form), mex)
                if g2 != want:
                    viol((f'api:req:{form}', f'api({form!r}) -> {g2}, documented api of {s} is {doc_api(v)!r}'),
                         {'consumer': 'api', 'req': form})
    for _ in range(n_junk):
        s = c.rand_verish(rng) if rng.random() < 0.7 else c.rand_junk(rng, c.JUNKV)
        add('apiof', s, f'apiof {enc(s)}', show_api(lambda: api_of(s), mex))
    # caret requirement of v accepts w  <->  same api and w >= v   (v >= 0.1.0);   never leaves the api (v != 0.0.0)
    for v in rel:
        vs = '%d.%d.%d' % v
        f = V.cargo_parse(vs)
        fa = V.cargo_parse(doc_api(v))
        for w in rel:
            ws = '%d.%d.%d' % w
            ctx.count()
            acc = bool(f(ws))
            same = apis[v] == apis[w]
            if acc != caret_range(v, w):
                viol((f'req:{vs}:{ws}', f'cargo_parse({vs!r})({ws!r}) = {acc}, caret range says {caret_range(v, w)}'),
                     {'req': vs, 'ver': ws})
            elif (v[0] or v[1]) and acc != (same and w >= v):
                viol((f'api:caret:{vs}:{ws}', f'{ws} {"is" if acc else "is not"} in the caret range of {vs} but '
                      f'_api_of gives {apis[v]} / {apis[w]} (OK:<code points>)'), {'consumer': 'api-caret', 'a': vs, 'b': ws})
            elif acc and v != (0, 0, 0) and not same:
                viol((f'api:caret:{vs}:{ws}', f'{ws} satisfies ^{vs} but the two get different apis'),
                     {'consumer': 'api-caret', 'a': vs, 'b': ws})
            # the api string read back as a requirement (Interpreter.resolve_package)
            acc_api = bool(fa(ws))
            want_api = (w[0] == 0) if doc_api(v) == '0' else (doc_api(w) == doc_api(v))
            if acc_api != want_api:
                viol((f'api:as-req:{doc_api(v)}:{ws}', f'cargo_parse({doc_api(v)!r})({ws!r}) = {acc_api}; versions of api '
                      f'{doc_api(v)!r} expected' + (' (any 0.y.z)' if doc_api(v) == '0' else '')),
                     {'req': doc_api(v), 'ver': ws})


# ------------------------------------------------------------------ B. Cargo.lock listing and resolution

def lock_pool(rng) -> T.List[str]:
    c = H()
    pool = list(c.GRID) + ['1.2.3+a', '1.2.3+b', '1.2.3-rc.1+x', '1.2.3-rc.2', '1.2.3-alpha', '0.4.0', '0.4.9', '0.0.7',
                           '1.10.0', '1.9.9', '2.0.0-alpha.1', '2.0.0-alpha.beta', '10.0.0-rc.1']
    return pool


def check_listing(lock: T.Sequence[T.Tuple[str, str]], name: str, got: T.Sequence[str]) -> T.Optional[str]:
    c = H()
    mine = [v for n, v in lock if n == name]
    if sorted(got) != sorted(mine):
        return f'named({name!r}) lists {list(got)}, Cargo.lock has {mine} under that name'
    if any(c.semver_fields(v) is None for v in mine):
        return None
    import functools
    # list.sort(reverse=True) is stable: newest first, entries of equal precedence (build metadata only) in lock order
    want = sorted(mine, key=functools.cmp_to_key(c.semver_prec), reverse=True)
    if list(got) != want:
        return f'named({name!r}) = {list(got)}; newest first with lock order among equal precedence is {want}'
    return None


def lock_cases(ctx: Ctx, V, M, mex, add, viol, n: int) -> None:
    c = H()
    rng = ctx.rng
    try:
        from mesonbuild.cargo.interpreter import Interpreter, PackageConfiguration
        from mesonbuild.mesonlib import MachineChoice
    except ImportError as e:
        ctx.obligation_failed('consumers:interpreter-import', str(e))
        return
    pool = lock_pool(rng)
    parts = c.partials()
    incompatible = 0
    driven = 0
    for _ in range(n):
        k = rng.randint(0, 7)
        entries = [(rng.choice(['foo', 'foo', 'foo', 'bar']), rng.choice(pool)) for _ in range(k)]
        if rng.random() < 0.08:
            entries.append(('foo', c.rand_verish(rng)))
        nolock = not entries and rng.random() < 0.5
        lockobj = None if nolock else M.CargoLock(package=[M.CargoLockPackage(nm, v) for nm, v in entries])
        wl = wire_lock(None if nolock else entries)
        name = rng.choice(['foo', 'foo', 'bar', 'baz'])
        case = {'consumer': 'lock', 'lock': None if nolock else entries, 'name': name}
        # listing
        if lockobj is not None:
            try:
                listed = [p.version for p in lockobj.named(name)]
            except (AttributeError, TypeError) as e:
                incompatible += 1
                continue
            add('named', (entries, name), f'named {wl}|{enc(name)}', enc_list(listed))
            ctx.tag('consumers:lock-listing')
            msg = check_listing(entries, name, listed)
            if msg:
                viol((f'lock:named:{name}:{",".join(v for _n, v in entries)}', msg), case)
        # resolution
        req = c.rand_requirement(rng, parts)
        stub = types.SimpleNamespace(cargolock=lockobj)
        try:
            got_pkg = Interpreter._resolve_package(stub, name, V.cargo_parse(req))
        except (AttributeError, TypeError) as e:
            incompatible += 1
            continue
        driven += 1
        got_v = None if got_pkg is None else got_pkg.version
        add('resolve', (entries, name, req), f'resolve {wl}|{enc(name)}|{enc(req)}', 'NONE' if got_v is None else 'V:' + enc(got_v))
        ctx.tag('consumers:lock-resolve')
        mine = [v for nm, v in entries if nm == name]
        if not nolock and c.req_pieces(req) is not None and all(c.semver_fields(v) for v in mine):
            best = None
            for v in mine:
                if c.accepts_spec(req, v) and (best is None or c.semver_prec(v, best) > 0):
                    best = v
            if got_v != best:
                viol((f'lock:resolve:{req}:{name}:{",".join(mine)}',
                      f'_resolve_package({name!r}, {req!r}) picks {got_v!r} from {mine}; newest accepted is {best!r}'),
                     dict(case, req=req))
        # resolve_package(name, api): the api string read as a requirement, then the api of the pick
        apistr = rng.choice(['1', '2', '0', '0.4', '0.1', '10', '', '0.0', '3'])
        fetched: T.List[T.Tuple[str, str]] = []
        stub2 = types.SimpleNamespace(cargolock=lockobj)
        stub2._resolve_package = lambda nm, a: Interpreter._resolve_package(stub2, nm, a)
        stub2._fetch_package = lambda nm, api: (fetched.append((nm, api)), 'PKG')[1]
        try:
            r = Interpreter.resolve_package(stub2, name, apistr)
        except (AttributeError, TypeError):
            incompatible += 1
            r = 'skip'
        except (mex, ValueError) as e:
            r = 'raise:' + type(e).__name__
        if r != 'skip':
            if r is None:
                ans = 'NONE'
            elif isinstance(r, str) and r.startswith('raise:'):
                ans = 'ERR:MesonException' if r != 'raise:ValueError' else 'ERR:ValueError'
            else:
                ans = 'OK:' + enc(fetched[0][1]) if fetched else 'OK?'
            add('resolveapi', (entries, name, apistr), f'resolveapi {wl}|{enc(name)}|{enc(apistr)}', ans)
            ctx.tag('consumers:resolve-package')
            if fetched and fetched[0][0] != name:
                viol((f'lock:resolve_package:{name}:{apistr}', f'_fetch_package asked for crate {fetched[0][0]!r}'), case)
        # _dep_package, registry branch: pin to the lock version, fetch under the api of that version
        dep = M.Dependency.from_raw(name, req if rng.random() < 0.5 else {'version': req})
        seen: T.List[T.Tuple[str, str, str]] = []
        pkg_version = rng.choice(c.GRID[:16])
        fake = types.SimpleNamespace(manifest=types.SimpleNamespace(package=types.SimpleNamespace(version=pkg_version)))
        stub3 = types.SimpleNamespace(cargolock=lockobj)
        stub3._resolve_package = lambda nm, a: Interpreter._resolve_package(stub3, nm, a)

        def fetch(nm, api, dep=dep, seen=seen, fake=fake):
            seen.append((nm, api, dep.version))
            return fake
        stub3._fetch_package = fetch
        try:
            Interpreter._dep_package(stub3, None, dep, PackageConfiguration(for_machine=MachineChoice.HOST))
            outcome = 'ok'
        except mex:
            outcome = 'mex'
        except ValueError:
            outcome = 'value'
        except (AttributeError, TypeError, KeyError, AssertionError):
            incompatible += 1
            continue
        if seen:
            ans = 'R:' + enc(seen[0][2]) + ';OK:' + enc(seen[0][1])
        else:
            # dep.api raised before the fetch: the requirement at that point is what update_version left
            ans = 'R:' + enc(dep.version) + (';ERR:MesonException' if outcome == 'mex' else ';ERR:ValueError')
        add('deppin', (entries, name, req), f'deppin {wl}|{enc(name)}|{enc(req)}', ans)
        ctx.tag('consumers:dep-package')
        if seen and got_v is not None and c.semver_fields(got_v) and not c.semver_fields(got_v)[1]:
            core = c.semver_fields(got_v)[0]
            if seen[0][2] != '=' + got_v or seen[0][1] != doc_api(core):
                viol((f'lock:dep_package:{req}:{name}:{",".join(mine)}',
                      f'_dep_package pins {name} {req!r} to {seen[0][2]!r} and fetches api {seen[0][1]!r}; Cargo.lock resolution '
                      f'gives {got_v}, whose api is {doc_api(core)!r}'), dict(case, req=req))
    if incompatible:
        ctx.notes.append(f'consumers: {incompatible} lock drives skipped (stub no longer fits the interpreter)')
        ctx.tag('consumers:lock-stub-incompatible', incompatible)
    if n and not driven:
        ctx.obligation_failed('consumers:lock-resolution-undriven', 'no _resolve_package call could be made through the stub')


# ------------------------------------------------------------------ C. target-specific dependency tables

TRIPLES = ['x86_64-unknown-linux-gnu', 'x86_64-pc-windows-msvc', 'aarch64-apple-darwin']
CFG_NAMES = ['unix', 'windows', 'target_os', 'target_arch', 'feature', 'a']
CFG_VALUES = ['linux', 'windows', 'x86_64', 'x y', '', 'a,b']
SECOND_MACHINE_KEY = 'target:second-machine-inherits-the-first-machines-target-dependencies'
MALFORMED = ['cfg(all(unix windows))', 'cfg(not(unix, windows))', 'cfg(any(unix,))', 'cfg(unix', 'cfg()', 'cfg(target_os = linux)',
             'cfg(target_os = "linux)', 'cfg(not())', 'cfg((unix))', 'cfg(unix) ', 'cfg(all(unix)))']


def rand_condition(rng, triple: str) -> str:
    c = H()
    r = rng.random()
    if r < 0.12:
        return triple
    if r < 0.2:
        return rng.choice(TRIPLES)
    if r < 0.3:
        return rng.choice(MALFORMED)
    t = c.rand_tree(rng, 3, CFG_NAMES, CFG_VALUES[:4] + [''])
    return 'cfg(' + c.render_tree(t, lambda: rng.choice(['', '', ' '])) + ')'


def make_manifest(M, base, targets, path: str, via_toml: bool):
    raw: T.Dict[str, T.Any] = {'package': {'name': 'crate', 'version': '1.0.0'}}
    if base:
        raw['dependencies'] = {k: v for k, v in base}
    if targets:
        raw['target'] = {cond: {'dependencies': {k: v for k, v in deps}} for cond, deps in targets}
    if via_toml:
        from mesonbuild.cargo.toml import load_toml
        lines = ['[package]', 'name = "crate"', 'version = "1.0.0"', '']
        if base:
            lines.append('[dependencies]')
            lines += [f'{k} = "{v}"' for k, v in base]
        for cond, deps in targets:
            lines.append('')
            lines.append("[target.'%s'.dependencies]" % cond)
            lines += [f'{k} = "{v}"' for k, v in deps]
        os.makedirs(path, exist_ok=True)
        fn = os.path.join(path, 'Cargo.toml')
        with open(fn, 'w', encoding='utf-8') as f:
            f.write('\n'.join(lines) + '\n')
        raw = load_toml(fn)
    return M.Manifest.from_raw(raw, path)


def merge_cases(ctx: Ctx, C, M, mex, add, viol, n: int) -> None:
    c = H()
    rng = ctx.rng
    try:
        from mesonbuild.cargo.interpreter import Interpreter, PackageState, PackageKey
        from mesonbuild.mesonlib import MachineChoice, PerMachine
    except ImportError as e:
        ctx.obligation_failed('consumers:interpreter-import', str(e))
        return
    scratch = common.scratch_dir()
    incompatible = 0
    driven = 0
    depnames = ['libc', 'winapi', 'log', 'serde', 'nix']
    try:
        for it in range(n):
            base = [(k, rng.choice(['1', '0.2', '1.4.0'])) for k in rng.sample(depnames, rng.randint(0, 3))]
            machines = [MachineChoice.HOST] if rng.random() < 0.7 else [MachineChoice.HOST, MachineChoice.BUILD]
            if rng.random() < 0.5:
                machines.reverse()
            triples = {m: rng.choice(TRIPLES) for m in (MachineChoice.HOST, MachineChoice.BUILD)}
            cfgs = {m: {nm: (rng.choice(CFG_VALUES) if rng.random() < 0.5 else '') for nm in rng.sample(CFG_NAMES, rng.randint(0, 4))}
                    for m in (MachineChoice.HOST, MachineChoice.BUILD)}
            targets = []
            used: T.Set[str] = set()
            for _i in range(rng.randint(0, 4)):
                cond = rand_condition(rng, triples[machines[0]])
                if cond in used or "'" in cond or '\n' in cond:
                    continue
                used.add(cond)
                targets.append((cond, [(k, rng.choice(['2', '0.3', '=1.2.3', '>=1, <3'])) for k in rng.sample(depnames, rng.randint(0, 3))]))
            via_toml = it % 12 == 0 and all('"' not in v for _c, d in targets for _k, v in d) and \
                all('\t' not in cnd for cnd, _d in targets)
            try:
                man = make_manifest(M, base, targets, os.path.join(scratch, 'm%d' % it), via_toml)
                pkg = PackageState(man)
                added: T.List[T.Tuple[T.Any, str]] = []
                rust = {m: types.SimpleNamespace(get_target_triple=lambda m=m: triples[m]) for m in triples}
                stub = types.SimpleNamespace(
                    packages={PackageKey(man.package.name, man.package.api): pkg},
                    environment=types.SimpleNamespace(coredata=types.SimpleNamespace(
                        compilers=PerMachine({'rust': rust[MachineChoice.BUILD]}, {'rust': rust[MachineChoice.HOST]}))),
                    _get_cfgs=lambda machine, subp: dict(cfgs[machine]),
                    _add_dependency=lambda p, depname, machine: added.append((machine, depname)))
                if [(k, d.version) for k, d in man.dependencies.items()] != base or \
                        [(cnd, [(k, d.version) for k, d in ds.items()]) for cnd, ds in man.target.items()] != targets:
                    viol((f'target:manifest:{it}', f'Manifest.from_raw reads dependencies {base} / target tables {targets} as '
                          f'{[(k, d.version) for k, d in man.dependencies.items()]} / '
                          f'{[(cnd, [(k, d.version) for k, d in ds.items()]) for cnd, ds in man.target.items()]}'),
                         {'consumer': 'manifest', 'base': base, 'targets': targets})
                    continue
            except (AttributeError, TypeError, KeyError) as e:
                incompatible += 1
                continue
            outs: T.List[str] = []
            err = None
            first_ok = False
            expected = dict(base)
            first = True
            for m in machines:
                before = len(added)
                try:
                    Interpreter._prepare_package(stub, pkg, m)
                except mex:
                    err = 'ERR'
                except (AttributeError, TypeError, KeyError, AssertionError) as e:
                    err = 'incompatible'
                if err == 'incompatible':
                    break
                got = None if err else [(k, d.version) for k, d in pkg.manifest.dependencies.items()]
                if first:
                    # ---- oracle (first call on a fresh manifest): exactly the enabled tables are merged
                    undecided = False
                    want_raise = False
                    for cond, deps in targets:
                        e = cond_expect(cond, triples[m], cfgs[m])
                        if e is None:
                            undecided = True
                            break
                        if e == 'raise':
                            want_raise = True
                            break
                        if e:
                            expected.update(dict(deps))
                    case = {'consumer': 'target-deps', 'base': base, 'targets': targets, 'triple': triples[m], 'cfgs': cfgs[m]}
                    key = f'target:{triples[m]}:{sorted(cfgs[m].items())}:{targets}'
                    if not undecided:
                        if want_raise and not err:
                            viol((key, f'_prepare_package merges {got} although a target condition is malformed '
                                  f'({[cnd for cnd, _ in targets]})'), case)
                        elif not want_raise and err:
                            viol((key, f'_prepare_package raises on well-formed target conditions {[cnd for cnd, _ in targets]}'), case)
                        elif not want_raise and dict(got) != expected:
                            viol((key, f'_prepare_package leaves dependencies {dict(got)}; [dependencies] {dict(base)} + the tables '
                                  f'whose condition holds for {triples[m]} / {cfgs[m]} give {expected}'), case)
                        elif not want_raise and {d for mm, d in added[before:]} != set(expected):
                            viol((key, f'_prepare_package resolves {[d for _m, d in added[before:]]}, selected are {sorted(expected)}'), case)
                    line = (f'merge {enc(triples[m])}|{c.enc_cfgs(cfgs[m])}|{wire_deps(base)}|{wire_targets(targets)}')
                    add('merge', (triples[m], cfgs[m], base, targets), line, 'ERR' if err else 'OK:' + wire_deps(got))
                    ctx.tag('consumers:target-merge')
                    driven += 1
                    first = False
                    first_ok = not undecided and not want_raise and not err
                elif not err and first_ok:
                    # ---- second machine on the SAME manifest: the statement (dependencies of machine m = [dependencies] +
                    # the tables whose condition holds for m) is judged per machine
                    exps = [cond_expect(cond, triples[m], cfgs[m]) for cond, _d in targets]
                    if all(isinstance(e, bool) for e in exps):
                        fresh = dict(base)
                        carried = dict(expected)
                        for (cond, deps), e in zip(targets, exps):
                            if e:
                                fresh.update(dict(deps))
                                carried.update(dict(deps))
                        if dict(got) != fresh:
                            case = {'consumer': 'target-deps-2', 'base': base, 'targets': targets,
                                    'calls': [(triples[x], cfgs[x]) for x in machines]}
                            key = (SECOND_MACHINE_KEY if dict(got) == carried else
                                   f'target2:{[(triples[x], sorted(cfgs[x].items())) for x in machines]}:{targets}')
                            viol((key, f'_prepare_package for the second machine ({triples[m]} / {cfgs[m]}) leaves dependencies {dict(got)}; '
                                  f'[dependencies] {dict(base)} + the tables whose condition holds for that machine give {fresh} '
                                  f'(the first machine was {triples[machines[0]]} / {cfgs[machines[0]]})'), case)
                if err:
                    break
                outs.append(wire_deps(got))
            if err == 'incompatible':
                incompatible += 1
                continue
            if len(machines) == 2:
                calls = ';'.join(enc(triples[m]) + ':' + c.enc_cfgs(cfgs[m]) for m in machines)
                add('mergehist', (base, targets, [(triples[m], cfgs[m]) for m in machines]),
                    f'mergehist {wire_deps(base)}|{wire_targets(targets)}|{calls}', 'ERR' if err else 'OK:' + ';'.join(outs))
                ctx.tag('consumers:target-merge-two-machines')
    finally:
        import shutil
        shutil.rmtree(scratch, ignore_errors=True)
    if incompatible:
        ctx.notes.append(f'consumers: {incompatible} _prepare_package drives skipped (stub no longer fits the interpreter)')
        ctx.tag('consumers:target-stub-incompatible', incompatible)
    if n and not driven:
        ctx.obligation_failed('consumers:target-merge-undriven', 'no _prepare_package call could be made through the stub')


# ------------------------------------------------------------------ D. SystemDependency.meson_version

def tup(v: str) -> T.Tuple[int, ...]:
    return tuple(int(x) for x in v.split('.'))


OPF: T.Dict[str, T.Callable[[T.Any, T.Any], bool]] = {
    '>=': lambda a, b: a >= b, '<=': lambda a, b: a <= b, '>': lambda a, b: a > b, '<': lambda a, b: a < b,
    '=': lambda a, b: a == b, '==': lambda a, b: a == b}


def sysdep_cases(ctx: Ctx, M, add, viol, n: int) -> None:
    c = H()
    rng = ctx.rng
    try:
        from mesonbuild.mesonlib import version_compare_many
    except ImportError as e:
        ctx.obligation_failed('consumers:version_compare_many-import', str(e))
        return
    nums = ['0', '1', '1.2', '1.2.0', '1.10', '2', '2.0.1', '0.9', '10.1']
    incompatible = 0
    for _ in range(n):
        r = rng.random()
        pieces: T.Optional[T.List[T.Tuple[str, str]]] = []
        if r < 0.75:
            k = rng.choice([0, 1, 1, 2, 3])
            pieces = [(rng.choice(['', '', '>=', '<', '<=', '>', '=', '==']), rng.choice(nums)) for _i in range(k)]
            text = ','.join(rng.choice(c.WS) + op + rng.choice(['', ' ']) + v + rng.choice(c.WS) for op, v in pieces)
            if k == 0:
                text = ''
        elif r < 0.85:
            pieces = None
            text = rng.choice(['1.2,', ',', ' ', '1, ,2', '\t'])
        else:
            pieces = None
            text = ','.join(rng.choice(c.WS) + c.rand_verish(rng) for _i in range(rng.randint(1, 3)))
        try:
            sd = M.SystemDependency('dep', version=text)
        except (AttributeError, TypeError):
            incompatible += 1
            continue
        try:
            mv = list(sd.meson_version)
            ans = 'OK:' + enc_list(mv)
        except IndexError:
            mv = None
            ans = 'ERR:IndexError'
        except AttributeError:
            incompatible += 1
            continue
        add('mesonver', text, f'mesonver {enc(text)}', ans)
        ctx.tag('consumers:meson-version')
        if mv is None:
            continue
        found = rng.choice(nums)
        acc = bool(version_compare_many(found, mv)[0])
        add('sysdep', (text, found), f'sysdep {enc(text)}|{enc(found)}', str(int(acc)))
        if pieces is not None:
            # system-deps: a bare version is a minimum version; an explicit operator is kept
            want = all(OPF[op or '>='](tup(found), tup(v)) for op, v in pieces)
            if acc != want:
                viol((f'sysdep:{text}:{found}', f'system-deps version {text!r} becomes {mv}; found version {found} is '
                      f'{"accepted" if acc else "rejected"}, the requirement says {"accept" if want else "reject"}'),
                     {'consumer': 'sysdep', 'version': text, 'found': found})
    if incompatible:
        ctx.notes.append(f'consumers: {incompatible} SystemDependency drives skipped')
        ctx.tag('consumers:sysdep-incompatible', incompatible)


# ------------------------------------------------------------------ entry points

def run_consumers(ctx: Ctx, V, C, mex, add, scale: int = 1) -> None:
    from mesonbuild.cargo import manifest as M

    def viol(hit, case):
        if hit:
            ctx.violation(hit[0], hit[1], case)
    api_cases(ctx, V, mex, add, viol, ctx.scale(1500, 15000) * scale)
    lock_cases(ctx, V, M, mex, add, viol, ctx.scale(2500, 25000) * scale)
    merge_cases(ctx, C, M, mex, add, viol, ctx.scale(2500, 25000) * scale)
    sysdep_cases(ctx, M, add, viol, ctx.scale(3000, 30000) * scale)


def search_consumers(ctx: Ctx, kinds: T.Set[str]) -> None:
    """model and implementation differ on a consumer stream: run the oracles of those streams again, larger"""
    c = H()
    V, C, mex = c.impl()

    def add(*a):
        pass
    if kinds & set(KINDS):
        run_consumers(ctx, V, C, mex, add, scale=4)


def replay_consumer(ctx: Ctx, case: dict) -> bool:
    c = H()
    V, C, mex = c.impl()
    from mesonbuild.cargo import manifest as M
    kind = case.get('consumer')
    if kind is None:
        return False
    print('consumer case:', case)
    if kind == 'apiof':
        s = case['version']
        print('impl :', show_api(lambda: V._api_of(s), mex))
        print('model:', ctx.driver('cargo', [f'apiof {enc(s)}']))
    elif kind == 'api':
        r = case['req']
        print('impl :', show_api(lambda: V.api(r), mex))
        print('model:', ctx.driver('cargo', [f'api {enc(r)}']))
    elif kind == 'api-caret':
        a, b = case['a'], case['b']
        print('impl : ^%s accepts %s:' % (a, b), V.cargo_parse(a)(b), ' apis:', V._api_of(a), V._api_of(b))
        print('model:', ctx.driver('cargo', [f'match {enc(a)}|{enc(b)}', f'apiof {enc(a)}', f'apiof {enc(b)}']))
    elif kind == 'lock':
        entries, name = case['lock'], case['name']
        if entries is not None:
            entries = [tuple(e) for e in entries]
            lock = M.CargoLock(package=[M.CargoLockPackage(n, v) for n, v in entries])
            print('impl  named:', [p.version for p in lock.named(name)])
            print('model named:', ctx.driver('cargo', [f'named {wire_lock(entries)}|{enc(name)}']))
            if 'req' in case:
                from mesonbuild.cargo.interpreter import Interpreter
                stub = types.SimpleNamespace(cargolock=lock)
                r = Interpreter._resolve_package(stub, name, V.cargo_parse(case['req']))
                print('impl  resolve:', None if r is None else r.version)
                print('model resolve:', ctx.driver('cargo', [f'resolve {wire_lock(entries)}|{enc(name)}|{enc(case["req"])}']))
    elif kind == 'target-deps':
        base = [tuple(x) for x in case['base']]
        targets = [(cnd, [tuple(x) for x in d]) for cnd, d in case['targets']]
        print('model:', ctx.driver('cargo', [f'merge {enc(case["triple"])}|{c.enc_cfgs(case["cfgs"])}|{wire_deps(base)}|'
                                             f'{wire_targets(targets)}']))
        for cnd, _d in targets:
            print('  condition', repr(cnd), '->', cond_expect(cnd, case['triple'], case['cfgs']))
    elif kind == 'target-deps-2':
        base = [tuple(x) for x in case['base']]
        targets = [(cnd, [tuple(x) for x in d]) for cnd, d in case['targets']]
        calls = ';'.join(enc(t) + ':' + c.enc_cfgs(cf) for t, cf in case['calls'])
        print('model (mirrors the in-place update):', ctx.driver('cargo', [f'mergehist {wire_deps(base)}|{wire_targets(targets)}|{calls}']))
        for t, cf in case['calls']:
            print('  machine', t, cf, '->', [(cnd, cond_expect(cnd, t, cf)) for cnd, _d in targets])
    elif kind == 'sysdep':
        from mesonbuild.mesonlib import version_compare_many
        mv = M.SystemDependency('dep', version=case['version']).meson_version
        print('impl :', mv, version_compare_many(case['found'], mv)[0])
        print('model:', ctx.driver('cargo', [f'mesonver {enc(case["version"])}', f'sysdep {enc(case["version"])}|{enc(case["found"])}']))
    return True
