"""C17 — rewriter edits are local and keep everything else meaning the same.

Translation validation per run: generated projects, every rewriter command kind and sequences of <= 3 commands run
in-process through the real `mesonbuild.rewriter.run`; an oracle written from the property statement over real
parse results (c17_real.py); the Lean model (astPrint, apply_changes splice, tree comparison) is run on the same
serialised trees and must agree with both the implementation's output and the Python oracle's verdicts.
"""
from __future__ import annotations

import json
import multiprocessing as mp_
import os
import re
import typing as T

from . import common, c17_gen as G, c17_real as R, c17_tables, c17_flow as F, c17_ops as O, c17_intro as I
from .common import Ctx, enc, dec, enc_list

ID = 'C17'
LEVEL = 'translation_validation'
LEAN_TARGETS = ['MesonModel.Props.C17']
AREAS = ['rewrite']
PINS = [
    'mesonbuild.ast.printer:precedence_level',
    'mesonbuild.ast.printer:AstPrinter',
    'mesonbuild.rewriter:Rewriter.apply_changes',
    'mesonbuild.rewriter:Rewriter.process_kwargs',
    'mesonbuild.rewriter:Rewriter.process_default_options',
    'mesonbuild.rewriter:Rewriter.process_target',
    'mesonbuild.rewriter:Rewriter.add_src_or_extra',
    'mesonbuild.rewriter:Rewriter.rm_src_or_extra',
    'mesonbuild.rewriter:Rewriter.get_relto',
    'mesonbuild.rewriter:MTypeList',
    'mesonbuild.rewriter:MTypeStrList',
    'mesonbuild.rewriter:MTypeIDList',
    'mesonbuild.rewriter:run',
    'mesonbuild.rewriter:Rewriter.process',
    'mesonbuild.rewriter:Rewriter.analyze_meson',
    'mesonbuild.ast.postprocess:AstIndentationGenerator',
    'mesonbuild.mparser:StringNode',
    'mesonbuild.mparser:Lexer.lex',
    'mesonbuild.ast.interpreter:AstInterpreter.evaluate_if',
    'mesonbuild.ast.interpreter:AstInterpreter.evaluate_foreach',
    'mesonbuild.ast.interpreter:AstInterpreter.evaluate_plusassign',
    'mesonbuild.ast.interpreter:AstInterpreter.assignment',
    'mesonbuild.ast.interpreter:AstInterpreter.get_cur_value_if_defined',
    'mesonbuild.ast.interpreter:AstInterpreter.node_to_runtime_value',
    'mesonbuild.ast.introspection:IntrospectionInterpreter.build_target',
    'mesonbuild.rewriter:Rewriter.find_target',
]
TRUSTED = [
    'the real mparser.Parser / Lexer are used by the oracle to read files back (spans, token stream, trees)',
    'CPython str.splitlines / str.isspace / re `\\s` tables are re-extracted per run into Generated/PrecTable.lean',
    'node selection (dataflow DAG, add_src_or_extra / rm_src_or_extra choice of node) is not modelled: validated per run by the value oracle',
    'domain: generated projects of one directory and trees with 1-3 subdir()s (targets in subdirs, lists built in one directory and '
    'consumed in another, same basenames in several directories, ../ paths), LF line ends, source lists given inline / by variable / '
    'by files(); right operands of and/or are never a parenthesised and/or of the same kind',
    'path semantics used by the value oracle (meson): a plain string is relative to the directory of the target that consumes it, '
    'a string inside files(...) to the directory of the meson.build holding that call; command paths are relative to the source root',
]



# ================================================================================================ oracle (implementation only)

def _norm_list(v: T.Any) -> T.Any:
    if v is None:
        return []
    if isinstance(v, list):
        return v
    if isinstance(v, tuple) and v == ('complex',):
        return v
    return [v]


def _line_index(lines: T.List[T.Tuple[int, str]], lineno: int) -> int:
    idx = -1
    for i, (start, _t) in enumerate(lines):
        if start <= lineno:
            idx = i
    return idx


def oracle_step(bf: T.Any, af: T.Any, cmd: T.Dict[str, T.Any], status: str, meta: T.Dict[str, T.Any],
                cap_applied: bool = False, nested: bool = False, cwd_root: bool = True) -> T.Dict[str, T.Any]:
    """checks of ONE command over EVERY build file of the tree (`bf` / `af`: {path relative to the source root: text}):
    returns violations [(key, what)], tags, statement pairs for the Lean comparison"""
    bfiles: T.Dict[str, str] = {'meson.build': bf} if isinstance(bf, str) else dict(bf)
    afiles: T.Dict[str, str] = {'meson.build': af} if isinstance(af, str) else dict(af)
    bf, af = bfiles, afiles
    viol: T.List[T.Tuple[str, str]] = []
    tags: T.List[str] = []
    pairs: T.List[T.Dict[str, T.Any]] = []
    res = {'viol': viol, 'tags': tags, 'pairs': pairs, 'expected_files': None, 'target': None, 'what': None,
           'listops': [], 'lists_after': {}}
    typ = cmd.get('type')
    op = cmd.get('operation')
    kind = f'{typ}:{op}'
    tags.append('cmd:' + kind)
    alldirs = sorted({os.path.dirname(f) for f in bfiles})
    pool_all = set(meta['pool']) | set(meta['extra_pool']) | {'new0.c', 'new1.c', 'new2.c', 'newe0.txt', 'newe1.txt'} | \
        set(meta.get('allfiles', []))

    def spellings(path: str) -> T.Set[str]:
        # every way a list in some directory of the tree can name the file `path` (relative to the source root)
        return {path} | {os.path.relpath(path, d or '.') for d in alldirs}
    uni: T.Set[str] = set()
    for p_ in pool_all:
        uni |= spellings(p_)
    AD: T.Dict[str, T.Any] = {}

    try:
        bv = R.View(bfiles)
        bst = bv.stmts
    except Exception as e:   # an earlier command of the sequence already broke the file (reported there)
        tags.append('before-unparseable:' + type(e).__name__)
        return res
    if status.startswith('EXC') and not status.endswith(':meson'):
        exc = status[4:]
        ordering = any(isinstance(n, R.mp().ComparisonNode) and n.ctype in ('<', '<=', '>', '>=')
                       for st in bst for n, _p in R.walk(st))
        if exc == 'IndexError' and R.exotic_separators(''.join(bfiles.values())):
            viol.append(('splice:line-separator-other-than-LF-before-edit',
                         f'{kind}: offsets computed with splitlines() point past the text (IndexError)'))
        elif exc == 'TypeError' and R.string_plus_list(bst):
            viol.append(('extra_files_add:plain-string-plus-list',
                         f'{kind}: the build file holds <string> + [list] written by an earlier extra_files_add; analysis raises TypeError'))
        elif exc == 'MesonBugException' and ordering and not cap_applied:
            viol.append(('analysis:MesonBugException-on-ordering-comparison',
                         f'{kind}: the rewriter aborts with MesonBugException(Unhandled node type) before editing anything'))
        else:
            viol.append((f'crash:{exc}:{kind}', f'{kind} raised {exc}'))
        return res
    if status.endswith(':meson'):
        tags.append('rejected:' + kind)
        if af != bf:
            viol.append(('rejected-command-changed-files', f'{kind} was rejected but the build file changed'))
        return res
    if op == 'info':
        if af != bf:
            viol.append(('info-changed-files', 'an info command changed the build file'))
        return res

    blines = {f: R.logical_lines(bfiles[f]) for f in bv.per_file}
    seps = R.exotic_separators(''.join(bfiles.values()))
    rawnl = any(R.raw_newline_string_tokens(t) for t in bfiles.values())

    # ---- which statement is addressed, what may change, what value is requested
    allowed: T.Set[int] = set()
    keys: T.Set[str] = set()
    cf: T.Set[str] = set()
    addressed: T.Optional[int] = None
    value_check: T.Optional[T.Callable[[T.List[T.Any]], T.Optional[str]]] = None
    structural = 'modify'
    if typ == 'target':
        name = cmd['target']
        tb = R.find_target(bst, name)
        files = list(cmd.get('sources', []))
        if op in ('src_add', 'src_rm', 'extra_files_add', 'extra_files_rm'):
            if tb is None:
                structural = 'unchanged'
            else:
                what = 'src' if op.startswith('src') else 'extra'
                addressed = tb[0]
                used: T.Set[int] = set()
                fb = R.target_files(bst, tb[1], what, used, bv.dirs, bv.dirs[tb[0]])
                allowed = {addressed} | used
                req = {os.path.normpath(f_) for f_ in files}
                for f_ in req:
                    cf |= spellings(f_)
                if what == 'extra':
                    keys = {'extra_files'}
                shared = name in meta.get('shared', []) or meta.get('hazard') == 'flow'   # flow family: judged by ground truth
                scalar_extra = what == 'extra' and isinstance(R.kwarg(tb[1], 'extra_files'), R.mp().StringNode)
                exp = (set(fb) | req) if op.endswith('add') else (set(fb) - req)
                res['target'] = name
                res['what'] = what

                def vc(ast_: T.List[T.Any], name=name, what=what, fb=fb, exp=exp, shared=shared, scalar_extra=scalar_extra, op=op) -> T.Optional[str]:
                    ta = R.find_target(ast_, name)
                    if ta is None:
                        return f'target {name} disappeared'
                    fa = R.target_files(ast_, ta[1], what, set(), AD['dirs'], AD['dirs'][ta[0]])
                    if R.UNKNOWN in fb or R.UNKNOWN in fa:
                        tags.append('value-unknown')
                        return None
                    if shared:
                        tags.append('value-skipped:shared-variable')
                        return None
                    if scalar_extra and op == 'extra_files_add' and R.string_plus_list(ast_):
                        return 'STRING+LIST'
                    if scalar_extra and op == 'extra_files_rm' and set(fa) == set(fb):
                        tags.append('declined:extra_files-is-a-plain-string')
                        return None
                    res['expected_files'] = sorted(exp)
                    if set(fa) != exp:
                        return f'{what} files are {sorted(set(fa))}, requested {sorted(exp)}'
                    if len(fa) != len(set(fa)) and len(fb) == len(set(fb)):
                        return f'{what} files are listed twice: {sorted(fa)}'
                    return None
                value_check = vc
        elif op == 'target_add':
            exists = tb is not None
            if exists:
                structural = 'unchanged'
            else:
                structural = 'append'
                exp = {os.path.normpath(f_) for f_ in files}
                res['target'] = name
                res['what'] = 'src'
                res['expected_files'] = sorted(exp)

                def vc2(ast_: T.List[T.Any], name=name, exp=exp) -> T.Optional[str]:
                    ta = R.find_target(ast_, name)
                    if ta is None:
                        return f'target {name} was not added'
                    fa = R.target_files(ast_, ta[1], 'src', set(), AD['dirs'], AD['dirs'][ta[0]])
                    if set(fa) != exp:
                        return f'new target has sources {fa}, requested {sorted(exp)}'
                    if ta[1].func_name.value != cmd.get('target_type', 'executable'):
                        return f'new target is a {ta[1].func_name.value}, requested {cmd.get("target_type")}'
                    return None
                value_check = vc2
        elif op == 'target_rm':
            if tb is None:
                structural = 'unchanged'
            else:
                structural = 'remove'
                addressed = tb[0]

                def vc3(ast_: T.List[T.Any], name=name) -> T.Optional[str]:
                    return f'target {name} is still defined' if R.find_target(ast_, name) is not None else None
                value_check = vc3
    elif typ == 'kwargs':
        fn = cmd['function']
        if fn == 'project':
            loc = R.find_func(bst, 'project')
        elif fn == 'target':
            loc = R.find_target(bst, cmd['id'])
        else:
            loc = R.find_func(bst, 'dependency', cmd['id'])
        if loc is None:
            structural = 'unchanged'
        else:
            addressed = loc[0]
            allowed = {addressed}
            keys = set(cmd['kwargs'])
            from mesonbuild import rewriter as RW
            kdef = RW.rewriter_func_kwargs[fn]
            expect: T.Dict[str, T.Any] = {}
            for k, v in cmd['kwargs'].items():
                cls = kdef[k].__name__
                el = (lambda x: ('id', x)) if cls == 'MTypeIDList' else (lambda x: x)
                before = R.lit(R.kwarg(loc[1], k))
                if op == 'set':
                    expect[k] = ('exact', [el(x) for x in v] if isinstance(v, list) else (el(v) if cls in ('MTypeIDList', 'MTypeStrList', 'MTypeStr') else v))
                elif op == 'delete':
                    expect[k] = ('exact', None)
                else:
                    b = _norm_list(before)
                    if cls not in ('MTypeIDList', 'MTypeStrList'):
                        expect[k] = ('same', before)
                    elif isinstance(b, tuple) or any(isinstance(x, tuple) and x == ('complex',) for x in b) or \
                            any((isinstance(x, tuple)) != (cls == 'MTypeIDList') for x in b):
                        expect[k] = ('skip', None)      # "too complex to modify"
                    else:
                        vals = [el(x) for x in (v if isinstance(v, list) else [v])]
                        if op == 'add':
                            want = b + vals                               # appended, nothing else changes
                        elif op == 'remove':
                            want = [x for x in b if x not in vals]        # exactly equal elements go
                        else:                                             # remove_regex: matched FROM THE START
                            if cls == 'MTypeIDList':
                                want = list(b)                            # (ids are never matched by a regex)
                            else:
                                want = [x for x in b if not any(re.match(rx, x) for rx in vals)]
                        expect[k] = ('list', want)
                        if cls == 'MTypeStrList' and op in ('add', 'remove'):
                            res['listops'].append(('addv' if op == 'add' else 'rmeq', vals, b, k))

            def vc4(ast_: T.List[T.Any], fn=fn, expect=expect) -> T.Optional[str]:
                if fn == 'project':
                    la = R.find_func(ast_, 'project')
                elif fn == 'target':
                    la = R.find_target(ast_, cmd['id'])
                else:
                    la = R.find_func(ast_, 'dependency', cmd['id'])
                if la is None:
                    return f'{fn} {cmd["id"]} disappeared'
                for k, (mode, want) in sorted(expect.items()):
                    got = R.lit(R.kwarg(la[1], k))
                    if mode == 'skip':
                        tags.append('value-skipped:complex-kwarg')
                        continue
                    if mode in ('exact', 'same'):
                        if got != want:
                            return f'keyword {k} is {got!r}, requested {want!r}'
                    else:
                        res['lists_after'][k] = _norm_list(got)
                        tags.append('list-edit:' + op)
                        if _norm_list(got) != want:
                            return f'keyword {k} is {got!r}, requested list {want!r}'
                return None
            value_check = vc4
    elif typ == 'default_options':
        loc = R.find_func(bst, 'project')
        if loc is None:
            structural = 'unchanged'
        else:
            addressed = loc[0]
            allowed = {addressed}
            keys = {'default_options'}
            b = _norm_list(R.lit(R.kwarg(loc[1], 'default_options')))
            opts = cmd['options']
            if isinstance(b, list) and all(isinstance(x, str) for x in b):
                res['listops'].append(('dodel', sorted(opts), b, 'default_options'))

            def vc5(ast_: T.List[T.Any], b=b, opts=opts) -> T.Optional[str]:
                la = R.find_func(ast_, 'project')
                if la is None:
                    return 'project() disappeared'
                if isinstance(b, tuple) or any(not isinstance(x, str) for x in b):
                    tags.append('value-skipped:complex-kwarg')
                    return None
                got = _norm_list(R.lit(R.kwarg(la[1], 'default_options')))
                if isinstance(got, tuple) or any(not isinstance(x, str) for x in got):
                    return f'default_options is {got!r}'
                # set = replace the entries with exactly that key (append), delete = remove exactly that key;
                # an entry belongs to key k when its text before the first `=` IS k
                def key_of(x: str) -> T.Optional[str]:
                    return x.split('=', 1)[0] if '=' in x else None
                keep = [x for x in b if key_of(x) not in opts]
                res['lists_after']['default_options'] = got
                tags.append('list-edit:default_options-' + op)
                if len(keep) != len(b):
                    tags.append('list-edit:default_options-removed-entry')
                if any(k in x and key_of(x) != k for x in b for k in opts):
                    tags.append('list-edit:near-collision-present')
                if got[:len(keep)] != keep:
                    return f'default_options {got!r} does not keep exactly {keep!r} (before {b!r}, keys {sorted(opts)!r})'
                rest = got[len(keep):]
                if op == 'delete':
                    return None if not rest else f'default_options has extra entries {rest!r}'
                want = sorted(opts)
                if [key_of(x) for x in rest] != want:
                    return f'default_options tail {rest!r}, requested keys {want!r}'
                for x in rest:
                    k, v = x.split('=', 1)
                    if v.lower() != str(opts[k]).lower():
                        return f'default option {k} is {v!r}, requested {opts[k]!r}'
                return None
            value_check = vc5

    if structural == 'unchanged':
        tags.append('pointless:' + kind)
        if af != bf:
            viol.append(('pointless-command-changed-files', f'{kind} addressed nothing but the build file changed'))
        return res

    # process_target.rel_source: run inside the source root, a file that EXISTS is made relative to the target's
    # subdir and then resolved from the root again (known finding) — only for targets defined in a subdirectory
    subdir_target = typ == 'target' and op in ('src_add', 'src_rm', 'extra_files_add', 'extra_files_rm') and \
        addressed is not None and bv.dirs[addressed] != '' and cwd_root

    def whole_file_cause() -> T.Optional[str]:
        if subdir_target:
            return 'subdir-target:existing-path-made-relative-to-subdir-then-resolved-from-root'
        if nested:
            return 'splice:edited-node-inside-another-edited-node'
        if seps:
            return 'splice:line-separator-other-than-LF-before-edit'
        if rawnl:
            return 'splice:newline-inside-single-quoted-string-before-edit'
        return None

    # ---- (1) the touched file still parses
    try:
        av = R.View(afiles)
        ast_ = av.stmts
        AD['dirs'] = av.dirs
    except Exception as e:
        cause = whole_file_cause()
        hz: T.Set[str] = set()
        for i in sorted(allowed | ({addressed} if addressed is not None else set())):
            hz |= R.hazards_in(bfiles[bv.where[i][0]], bv.where[i][1])
        what = f'after {kind} the build file no longer parses ({type(e).__name__})'
        if cause:
            viol.append((cause, what))
        elif hz:
            for k in sorted(hz):
                viol.append((k, what))
        else:
            viol.append(('rewrite:file-no-longer-parses', what))
        return res
    # ---- (2) every statement other than the edited one is textually unchanged — in EVERY build file of the tree
    loc_bad: T.Optional[str] = None
    if set(av.per_file) != set(bv.per_file):
        loc_bad = f'build files {sorted(bv.per_file)} became {sorted(av.per_file)}'
    touched = {bv.where[i][0] for i in allowed} | ({bv.where[addressed][0]} if addressed is not None else set())
    if structural == 'append':
        touched = {'meson.build'}
    for fname in sorted(bv.per_file):
        if loc_bad:
            break
        if fname not in touched:
            if afiles.get(fname) != bfiles.get(fname):
                loc_bad = f'build file {fname} was not addressed but changed'
            continue
        fbl = blines[fname]
        bt = [t for _l, t in fbl]
        at = [t for _l, t in R.logical_lines(afiles[fname])]
        if structural == 'modify':
            allowed_lines = {_line_index(fbl, bst[i].lineno) for i in allowed if bv.where[i][0] == fname}
            if len(bt) != len(at):
                loc_bad = f'{fname}: {len(bt)} logical lines before, {len(at)} after'
            else:
                for i, (x, y) in enumerate(zip(bt, at)):
                    if x != y and i not in allowed_lines:
                        loc_bad = f'{fname}: logical line {i} changed: {x[:60]!r} -> {y[:60]!r}'
                        break
        elif structural == 'append':
            if at[:len(bt)] != bt:
                loc_bad = 'an existing line changed when a target was added'
            elif len(at) - len(bt) != 2:
                loc_bad = f'{len(at) - len(bt)} lines appended for a new target'
        elif structural == 'remove':
            assert addressed is not None
            li = _line_index(fbl, bst[addressed].lineno)
            tail = len(bt) - li - 1
            mid = at[li:len(at) - tail] if tail else at[li:]
            if at[:li] != bt[:li] or (tail and at[len(at) - tail:] != bt[li + 1:]):
                loc_bad = f'{fname}: a line other than the removed target changed'
            elif any(not m.lstrip().startswith('#') for m in mid):
                loc_bad = f'{fname}: removing the target left {mid!r}'
    if loc_bad:
        viol.append((whole_file_cause() or 'locality:other-statement-changed', f'{kind}: {loc_bad}'))

    # ---- (3) the addressed target / keyword has exactly the requested value
    if value_check is not None and not loc_bad:
        msg = value_check(ast_)
        if msg == 'STRING+LIST':
            viol.append(('extra_files_add:plain-string-plus-list',
                         f"{kind}: extra_files: '<file>' became '<file>' + [...] (string + list is not a valid meson expression)"))
        elif msg:
            # a value the command itself introduces goes through the same AstPrinter.escape / post_process as a re-printed one
            ih = sorted(I.introduced_hazards(cmd))
            for k_ in ([whole_file_cause()] if whole_file_cause() else (ih or [f'value:{kind}'])):
                viol.append((k_, f'{kind}: {msg}'))

    # ---- (4) every other argument of a re-printed statement is structurally the same
    for fname in sorted(bv.per_file):
        fb_st, fa_st = bv.per_file[fname], av.per_file.get(fname, [])
        if structural != 'modify' or len(fb_st) != len(fa_st):
            continue
        for i, (x, y) in enumerate(zip(fb_st, fa_st)):
            k_i = keys if addressed is not None and bv.where[addressed] == (fname, i) else set()
            try:
                sx, sy = R.ser(x), R.ser(y)
            except R.Unsupported:
                continue
            if sx == sy:
                continue
            ok, diffs = R.same_except(x, y, uni, cf, k_i)
            pairs.append({'uni': sorted(uni), 'cf': sorted(cf), 'keys': sorted(k_i), 'before': sx, 'after': sy, 'py': ok})
            tags.append('reprinted-statement')
            if fname != 'meson.build':
                tags.append('reprinted-statement:in-subdir')
            if not ok:
                hz = R.hazards_in(bfiles[fname], i, diffs)
                cause = whole_file_cause()
                what = f'{kind}: {fname} statement {i} differs at {diffs[:3]}'
                ih = I.introduced_hazards(cmd)
                if ih and not cause and all(d_ and d_[-1] == 'strings' for d_ in diffs):
                    hz = ih       # the introduced file name itself is what differs
                if subdir_target and cause:
                    viol.append((cause, what))
                elif hz:
                    for k in sorted(hz):
                        viol.append((k, what))
                elif cause:
                    viol.append((cause, what))
                else:
                    viol.append(('reprint:other-argument-changed', what))
    return res


# ================================================================================================ worker

def run_case(case: T.Dict[str, T.Any]) -> T.Dict[str, T.Any]:
    """one project, its command sequence: real rewriter, oracle, and the requests for the Lean model"""
    files = case['files']
    cmds = case['cmds']
    meta = case['meta']
    mode = case.get('mode', 'single')
    out: T.Dict[str, T.Any] = {'viol': [], 'tags': [], 'lean': [], 'steps': 0, 'prints': []}
    R.quiet()
    root = common.scratch_dir('c17-')
    cap = R.Capture()
    restore = R.install_hook(cap)
    cwd = os.getcwd()
    try:
        R.write_tree(root, files)
        # Rewriter.md: run inside the project root, or anywhere with --sourcedir. `outside`: a directory where none of the
        # named files exists (process_target.rel_source then leaves the root-relative paths alone)
        if case.get('cwd') == 'outside':
            outside = os.path.join(root, '.elsewhere')
            os.makedirs(outside, exist_ok=True)
            os.chdir(outside)
        else:
            os.chdir(root)
        # printer tie: every statement of the project as the rewriter would print it
        if case.get('prints', True):
            try:
                from mesonbuild.ast import AstIndentationGenerator, AstPrinter
                block = R.parse(files['meson.build'])
                block.accept(AstIndentationGenerator())
                for st in R.flat_statements(block):
                    try:
                        tree = R.ser(st)
                    except R.Unsupported:
                        continue
                    p = AstPrinter()
                    st.accept(p)
                    raw = p.result
                    p.post_process()
                    out['prints'].append((tree, raw, p.result.strip()))
            except Exception as e:
                out['tags'].append('project-unparseable:' + type(e).__name__)
                return out
        groups = [cmds] if mode == 'batch' else [[c] for c in cmds]
        ci = 0
        statuses: T.List[str] = []
        snapshots: T.List[T.Dict[str, str]] = [R.read_tree(root)]
        info_merged: T.Dict[str, T.Any] = {}
        for group in groups:
            before_all = R.read_tree(root)
            n0 = len(cap.applies)
            r0 = len(cap.removals)
            status, sout, serr = R.run_rewriter(root, group)
            # per command of the group: before/after texts. In batch mode intermediate texts are reconstructed
            # from the hook records (text before each apply_changes is what the previous one wrote).
            after_all = R.read_tree(root)
            recs = cap.applies[n0:]
            statuses.append(status)
            snapshots.append(after_all)
            if status == 'ok' and sout.strip():
                try:
                    for k_, v_ in json.loads(sout).items():
                        info_merged.setdefault(k_, {}).update(v_)
                except Exception:
                    info_merged['unreadable'] = True
            if mode == 'single':
                # the rewriter (and meson) read build files with universal newlines; what it wrote is compared raw
                bf = {f: R.as_read(t) for f, t in before_all.items()}
                af_raw = dict(after_all)
                af = {f: R.as_read(t) for f, t in after_all.items()}
                step = oracle_step(bf, af, group[0], status, meta, cap_applied=bool(recs),
                                   nested=any(R.nested_works(r['works']) for r in recs),
                                   cwd_root=case.get('cwd', 'root') != 'outside')
                if case.get('optable') and status == 'ok':
                    # the untouched keyword value must still EVALUATE to what it did (concrete evaluator on real trees)
                    try:
                        vb = O.ev(R.kwarg(R.find_target(R.View(bf).stmts, 't0')[1], 'objects').args.arguments[0], OPS_ENV)
                        try:
                            va = O.ev(R.kwarg(R.find_target(R.View(af).stmts, 't0')[1], 'objects').args.arguments[0], OPS_ENV)
                        except Exception as e_:
                            va = 'ERR:' + type(e_).__name__
                        out['tags'].append('optable:rewrite-evaluated')
                        if va != vb:
                            step['viol'].append((case['optable'], f'untouched keyword value evaluates to {va!r} after the command, {vb!r} before'))
                    except Exception as e_:
                        out['tags'].append('optable:not-evaluated:' + type(e_).__name__)
                if case.get('flow') and not step['viol']:
                    # ground truth: the build files executed for every configuration of the branch conditions
                    fv, ft = F.flow_oracle(bf, af, group[0], status)
                    step['viol'] += fv[:3]
                    step['tags'] += ft
                _collect(out, step, case, ci, group[0], bf, af, status)
                _lean_apply(out, recs, bf, af_raw, root)
                _lean_kwcmd(out, group[0], recs, bf, af_raw, root, status, _case_of(case, ci))
                _lean_srccmd(out, group[0], recs, bf, af_raw, root, status, _case_of(case, ci))
                if case.get('flow') and status == 'ok' and not step['viol'] and group[0].get('type') == 'target' and \
                        group[0].get('operation') != 'target_rm':
                    # `info` is judged only where the real list does not depend on the configuration
                    tn = group[0]['target']
                    for what_, field_ in (('src', 'sources'), ('extra', 'extra_files')):
                        want_ = F.config_independent(af, tn, what_)
                        if want_ is None:
                            out['tags'].append('flow:info-skipped:configuration-dependent')
                            continue
                        st3, so3, _se3 = R.run_rewriter(root, [{'type': 'target', 'target': tn, 'operation': 'info'}])
                        try:
                            ent_ = list(json.loads(so3)['target'].values())[0]
                            got_ = sorted(os.path.normpath(x) for x in ent_[field_])
                            out['tags'].append('flow:info-checked')
                            if 'unknown' in got_:
                                out['tags'].append('flow:info-reports-unknown')
                            elif got_ != sorted(want_):
                                out['viol'].append(('flow:info-differs-from-real-value',
                                                    f'info reports {field_} {got_} for {tn}; executed in every configuration: {want_}',
                                                    _case_of(case, ci)))
                        except Exception as e:
                            out['viol'].append(('info:unreadable', f'info on {tn}: {st3} {type(e).__name__}', _case_of(case, ci)))
                for rec_ in recs:
                    for w_ in rec_['works']:
                        m_ = [int(x) for x in w_['meta'].split(',')]
                        rel_ = os.path.relpath(w_['file'], os.path.realpath(root))
                        if m_[0] == 2 or rel_ not in bf:
                            continue
                        for a_ in R.adjacent_tokens(bf[rel_], (m_[2], m_[3], m_[4], m_[5])):
                            out['tags'].append('adjacent:' + a_)
                for rm in cap.removals[r0:]:
                    if rm['cands'] is None or rm['removed'] is None or not rm['cands']:
                        continue
                    flat: T.List[str] = []
                    for c_ in rm['cands']:
                        flat += [enc(c_['relto']), enc_list(c_['strings'])]
                    if any(s_ == '' for c_ in rm['cands'] for s_ in c_['strings']):
                        continue
                    for src in rm['srcs']:
                        out['lean'].append(('pmatch', 'pmatch ' + '|'.join([enc(rm['root']), enc(src)] + flat), '',
                                            {'rm': rm, 'src': src, 'case': _case_of(case, ci)}))
                # `info` reports the value
                if step['expected_files'] is not None and not step['viol'] and status == 'ok':
                    st2, so2, _se2 = R.run_rewriter(root, [{'type': 'target', 'target': step['target'], 'operation': 'info'}])
                    try:
                        info = json.loads(so2)['target']
                        ent = list(info.values())[0]
                        got = set(ent['sources'] if step['what'] == 'src' else ent['extra_files'])
                        if got != set(step['expected_files']):
                            out['viol'].append(('info:does-not-report-requested-value',
                                                f'info reports {sorted(got)}, requested {step["expected_files"]}',
                                                _case_of(case, ci)))
                        out['tags'].append('info-checked')
                    except Exception as e:
                        out['viol'].append(('info:unreadable', f'info after {group[0].get("operation")}: {st2} {type(e).__name__}',
                                            _case_of(case, ci)))
                if case.get('intro'):
                    out['tags'].append('introduced:' + case['intro'].split(':')[0] + ':' + case.get('intro_class', '?'))
                    _intro_kwargs_info(out, case, ci, group[0], step, status, root)
                ci += 1
                if step['viol']:
                    out['tags'].append('sequence-stopped-after-violation')
                    break     # the project is damaged: later commands would only report consequences
            else:
                # batch: only the end state can be observed on disk; check the whole-run facts
                af = after_all.get('meson.build', '')
                out['tags'].append('batch-run')
                out['batch_final'] = af
                ci += len(group)
            out['steps'] += 1
        # ---- script mode (Rewriter.md: `meson rewrite command '<json list>'`): the SAME sequence as one script on a fresh
        # copy must end in the same tree and print the same `info` as one invocation per command; a script stops at its
        # first failing command, so it is compared with the state reached before that command
        if mode == 'single' and not out['viol'] and len(statuses) == len(cmds) and cmds and case.get('script', True):
            out['script'] = _script_mode(case, cmds, statuses, snapshots, info_merged)
            out['tags'].append('script-mode-compared')
            if len(cmds) > 1:
                out['tags'].append('script-mode-compared:%d-commands' % len(cmds))
            for key, what in out['script']:
                out['viol'].append((key, what, _case_of(case, len(cmds) - 1)))
    finally:
        os.chdir(cwd)
        restore()
        common.rmtree(root)
    return out


def _intro_kwargs_info(out: T.Dict[str, T.Any], case: T.Dict[str, T.Any], ci: int, cmd: T.Dict[str, T.Any], step: T.Dict[str, T.Any],
                       status: str, root: str) -> None:
    """`kwargs info` must report the value a `kwargs set` just introduced (the property: "... and `info` reports it")"""
    if cmd.get('type') != 'kwargs' or cmd.get('operation') != 'set' or status != 'ok' or step['viol']:
        return
    st2, so2, _se2 = R.run_rewriter(root, [{'type': 'kwargs', 'function': cmd['function'], 'id': cmd['id'], 'operation': 'info', 'kwargs': {}}])
    try:
        ent = json.loads(so2)['kwargs'][f"{cmd['function']}#{cmd['id']}"]
        out['tags'].append('kwargs-info-checked')
        for k, v in sorted(cmd['kwargs'].items()):
            if ent.get(k) != v:
                out['viol'].append(('info:does-not-report-requested-value',
                                    f'kwargs info reports {k} = {ent.get(k)!r}, requested {v!r}', _case_of(case, ci)))
    except Exception as e:
        out['viol'].append(('info:unreadable', f'kwargs info after set: {st2} {type(e).__name__}', _case_of(case, ci)))


def _script_mode(case: T.Dict[str, T.Any], cmds: T.List[T.Dict[str, T.Any]], statuses: T.List[str],
                 snapshots: T.List[T.Dict[str, str]], info_merged: T.Dict[str, T.Any]) -> T.List[T.Tuple[str, str]]:
    viol: T.List[T.Tuple[str, str]] = []
    root2 = common.scratch_dir('c17s-')
    here = os.getcwd()
    try:
        R.write_tree(root2, case['files'])
        if case.get('cwd') == 'outside':
            os.makedirs(os.path.join(root2, '.elsewhere'), exist_ok=True)
            os.chdir(os.path.join(root2, '.elsewhere'))
        else:
            os.chdir(root2)
        st, so, _se = R.run_rewriter(root2, cmds)
        tree = R.read_tree(root2)
    finally:
        os.chdir(here)
        common.rmtree(root2)
    k = next((i for i, x in enumerate(statuses) if x != 'ok'), None)
    want_status = 'ok' if k is None else statuses[k]
    want_tree = snapshots[-1] if k is None else snapshots[k]
    ops = [f"{c.get('type')}:{c.get('operation')}" for c in cmds]
    key = 'script-mode:differs-from-one-invocation-per-command'
    if st != want_status:
        viol.append((key, f'script {ops} ends with {st}; one invocation per command: {statuses}'))
    elif tree != want_tree:
        bad = sorted(f for f in set(tree) | set(want_tree) if tree.get(f) != want_tree.get(f))
        viol.append((key, f'script {ops} leaves {bad} different from one invocation per command (stopping at command {k})'))
    elif k is None:
        try:
            got = json.loads(so) if so.strip() else {}
        except Exception:
            got = {'unreadable': True}
        if got != info_merged:
            viol.append((key, f'script {ops} prints info {json.dumps(got)[:200]}; separately {json.dumps(info_merged)[:200]}'))
    return viol


def _case_of(case: T.Dict[str, T.Any], upto: int) -> T.Dict[str, T.Any]:
    return {'files': {f: t for f, t in case['files'].items() if os.path.basename(f) == 'meson.build'},
            'cmds': case['cmds'][:upto + 1], 'cwd': case.get('cwd', 'root'), 'flow': bool(case.get('flow')),
            'optable': case.get('optable'), 'intro': case.get('intro'), 'intro_class': case.get('intro_class'),
            'meta': {k: case['meta'][k] for k in ('pool', 'extra_pool', 'shared', 'allfiles') if k in case['meta']}, 'mode': 'single'}


def _collect(out: T.Dict[str, T.Any], step: T.Dict[str, T.Any], case: T.Dict[str, T.Any], ci: int, cmd: T.Dict[str, T.Any],
             bf: str, af: str, status: str) -> None:
    for key, what in step['viol']:
        out['viol'].append((key, what, _case_of(case, ci)))
    out['tags'] += step['tags']
    if af != bf:
        out['tags'].append('file-changed')
    if not step['viol']:
        for cmdname, vals, before, key in step['listops']:
            after = step['lists_after'].get(key)
            if after is None or any(not isinstance(x, str) or x == '' for x in list(vals) + list(before) + list(after)):
                continue
            if cmdname == 'dodel':
                # the model gives the kept part; `set` appends len(keys) entries behind it
                exp = after if cmd.get('operation') == 'delete' else after[:max(0, len(after) - len(vals))]
            else:
                exp = after
            out['lean'].append(('listop', f'{cmdname} {enc_list(vals)}|{enc_list(before)}', enc_list(exp), _case_of(case, ci)))
    for p in step['pairs']:
        line = 'same ' + '|'.join([enc_list(p['uni']), enc_list(p['cf']), enc_list(p['keys']), p['before'], p['after']])
        out['lean'].append(('same', line, '1' if p['py'] else '0', _case_of(case, ci)))


def _lean_apply(out: T.Dict[str, T.Any], recs: T.List[T.Dict[str, T.Any]], bf: T.Dict[str, str], af: T.Dict[str, str], root: str) -> None:
    """the model's apply_changes on what the real one was given, build file by build file"""
    for rec in recs:
        if any(w['tree'] is None for w in rec['works']) or len(recs) != 1:
            out['tags'].append('apply-not-modelled')
            continue
        byfile: T.Dict[str, T.List[int]] = {}
        for i, w in enumerate(rec['works']):
            byfile.setdefault(os.path.relpath(w['file'], os.path.realpath(root)), []).append(i)
        if len(byfile) > 1:
            out['tags'].append('apply:several-build-files')
        for rel, idxs in sorted(byfile.items()):
            if rel not in bf or rel not in af:
                out['tags'].append('apply-not-modelled')
                continue
            if rel != 'meson.build':
                out['tags'].append('apply:subdir-build-file')
            works = [rec['works'][i] for i in idxs]
            nm = sum(1 for i in idxs if i < rec['nm'])
            nr = sum(1 for i in idxs if rec['nm'] <= i < rec['nm'] + rec['nr'])
            fields = [enc(bf[rel]), str(nm), str(nr)]
            for w in works:
                fields += [w['meta'], w['tree']]
            expected = ('ERR:' + rec['exc']) if rec['exc'] else enc(af[rel])
            out['lean'].append(('apply', 'apply ' + '|'.join(fields), expected, {'before': bf[rel], 'works': works}))
        works = rec['works']
        # the order in which the real apply_changes handled the printed work items vs the model's sorted order
        if rec['order'] is not None and -1 not in rec['order'] and not rec['exc']:
            printed = [i for i, w in enumerate(works) if not w['meta'].startswith('1,')]
            line = 'order ' + '|'.join([str(rec['nm']), str(rec['nr'])] + [w['meta'] for w in works])
            out['lean'].append(('order', line, ','.join(str(i) for i in rec['order']), {'before': '', 'works': works, 'printed': printed}))
            if len(rec['order']) > 1:
                out['tags'].append('multi-node-apply')
                ms = [[int(x) for x in works[i]['meta'].split(',')] + [works[i]['file']] for i in rec['order']
                      if works[i]['meta'].startswith('0,')]
                if any(a[2] == b[2] and a[-1] == b[-1] for a, b in zip(ms, ms[1:])):
                    out['tags'].append('multi-node-apply:same-line')


def _lean_kwcmd(out: T.Dict[str, T.Any], cmd: T.Dict[str, T.Any], recs: T.List[T.Dict[str, T.Any]], bf: T.Dict[str, str],
                af: T.Dict[str, str], root: str, status: str, case: T.Dict[str, T.Any]) -> None:
    """a whole `kwargs set / delete` command through the model (Rewrite/Command.lean applyKw): the node AS PARSED from the
    BEFORE text + the command -> the model edits the keyword dictionary, prints, splices; must equal the file the real
    command left (also when the real command changed nothing)"""
    if cmd.get('type') != 'kwargs' or cmd.get('operation') not in ('set', 'delete') or status != 'ok' or len(recs) > 1:
        return
    if any(r_['exc'] for r_ in recs):
        return
    try:
        from mesonbuild import rewriter as RW
        from mesonbuild.ast import AstIndentationGenerator
        kdef = RW.rewriter_func_kwargs.get(cmd.get('function'), {})
        kvs: T.List[str] = []
        for k, v in cmd.get('kwargs', {}).items():
            cls = kdef[k].__name__ if k in kdef else None
            if cmd['operation'] == 'delete':
                kind, val = 'b', '0'
                if cls is None:
                    raise KeyError(k)
            elif cls == 'MTypeStr':
                kind, val = 's', enc(str('' if v is None else v))
            elif cls == 'MTypeBool':
                kind, val = 'b', '1' if bool(v) else '0'
            elif cls in ('MTypeStrList', 'MTypeIDList'):
                if isinstance(v, list):
                    if any(str(x) == '' for x in v):
                        raise KeyError('empty element')
                    kind, val = ('S' if cls == 'MTypeStrList' else 'I'), enc_list(str(x) for x in v)
                else:
                    kind, val = ('s' if cls == 'MTypeStrList' else 'i'), enc(str(v))
            else:
                raise KeyError(k)
            kvs += [enc(k), kind, val]
        # the addressed call in the BEFORE text, with the levels AstIndentationGenerator gives it
        hit = None
        for rel in ['meson.build'] + sorted(f for f in bf if f != 'meson.build'):
            block = R.parse(bf[rel])
            block.accept(AstIndentationGenerator())
            stmts = R.flat_statements(block)
            if cmd['function'] == 'project':
                loc = R.find_func(stmts, 'project')
            elif cmd['function'] == 'target':
                loc = R.find_target(stmts, cmd['id'])
            else:
                loc = R.find_func(stmts, 'dependency', cmd['id'])
            if loc is not None:
                hit = (rel, loc[1])
                break
        if hit is None:
            return
        rel, node = hit
        works = [w for r_ in recs for w in r_['works']]
        span = R._span(node)
        if works:
            m_ = [int(x) for x in works[0]['meta'].split(',')]
            if len(works) != 1 or m_[0] != 0 or m_[1] != 0 or tuple(m_[2:6]) != span or \
                    os.path.relpath(works[0]['file'], os.path.realpath(root)) != rel:
                out['tags'].append('kwcmd-not-modelled')
                return
        tree = R.ser(node)
    except (KeyError, R.Unsupported):
        out['tags'].append('kwcmd-not-modelled')
        return
    except Exception as e:
        out['tags'].append('kwcmd-not-modelled:' + type(e).__name__)
        return
    fields = [enc(bf[rel]), ','.join(str(x) for x in span), tree, '1' if cmd['operation'] == 'delete' else '0'] + kvs
    out['lean'].append(('kwcmd', 'kwcmd ' + '|'.join(fields), enc(af.get(rel, '')), case))
    out['tags'].append('kwcmd:' + cmd['operation'] + (':unchanged' if not works else ''))


def _py_fold_domain(x: str) -> bool:
    """the model folds case / reads digits for ASCII only (pathname_sort_key uses str.lower / str.isdigit)"""
    return all(ord(c) < 128 or (c.lower() == c and not c.isdigit()) for c in x)


def _lean_srccmd(out: T.Dict[str, T.Any], cmd: T.Dict[str, T.Any], recs: T.List[T.Dict[str, T.Any]], bf: T.Dict[str, str],
                 af: T.Dict[str, str], root: str, status: str, case: T.Dict[str, T.Any]) -> None:
    """a whole `target add / rm (extra) files` command through the model (Rewrite/SrcCommand.lean applySrc) for the literal-list
    case in a single-directory project: the list node the real command worked on, AS PARSED from the BEFORE text, + the target's
    files + the command -> appended / removed strings, pathname sort, print, splice; must equal the file the real command left"""
    op = cmd.get('operation')
    if cmd.get('type') != 'target' or op not in ('src_add', 'src_rm', 'extra_files_add', 'extra_files_rm') or status != 'ok':
        return
    if len(recs) != 1 or recs[0]['exc'] or len(bf) != 1 or 'meson.build' not in bf:
        return
    works = recs[0]['works']
    try:
        if len(works) != 1:
            raise KeyError('works')
        m_ = [int(x) for x in works[0]['meta'].split(',')]
        if m_[0] != 0 or m_[1] != 0 or os.path.relpath(works[0]['file'], os.path.realpath(root)) != 'meson.build':
            raise KeyError('work kind')
        span = tuple(m_[2:6])
        from mesonbuild.ast import AstIndentationGenerator
        M = R.mp()
        block = R.parse(bf['meson.build'])
        block.accept(AstIndentationGenerator())
        stmts = R.flat_statements(block)
        node = None
        for st in stmts:
            for n_, _p in R.walk(st):
                if isinstance(n_, (M.FunctionNode, M.ArrayNode)) and R._span(n_) == span:
                    node = n_
        tb = R.find_target(stmts, cmd['target'])
        if node is None or tb is None:
            raise KeyError('node')
        what = 'src' if op.startswith('src') else 'extra'
        if node is tb[1]:
            if what == 'extra':
                if op != 'extra_files_add' or R.kwarg(tb[1], 'extra_files') is not None:
                    raise KeyError('extra on call')
                kind = '2'
            else:
                kind = '1'
        else:
            kind = '0'
        old = [] if kind == '2' else R.target_files(stmts, tb[1], what, set(), None, '')
        files = [str(x) for x in cmd.get('sources', [])]
        strs = [a_.value for a_ in node.args.arguments if isinstance(a_, M.StringNode)]
        if any(o is R.UNKNOWN for o in old):
            raise KeyError('unknown')
        for x in files:
            if x == '' or os.path.normpath(x) != x or x.startswith('/') or x.startswith('..'):
                raise KeyError('path domain')
        for x in list(old) + strs:
            if x == '' or x.startswith('/') or x.startswith('..'):
                raise KeyError('path domain')
        if not all(_py_fold_domain(x) for x in files + list(old) + strs):
            raise KeyError('fold domain')
        tree = R.ser(node)
    except (KeyError, R.Unsupported):
        out['tags'].append('srccmd-not-modelled')
        return
    except Exception as e:
        out['tags'].append('srccmd-not-modelled:' + type(e).__name__)
        return
    fields = [enc(bf['meson.build']), ','.join(str(x) for x in span), tree, kind, '1' if op.endswith('rm') else '0', enc('/r'),
              enc_list(old), enc_list(files)]
    out['lean'].append(('srccmd', 'srccmd ' + '|'.join(fields), enc(af.get('meson.build', '')), case))
    out['tags'].append('srccmd:' + op + ':' + {'0': 'list', '1': 'target-call', '2': 'new-extra_files'}[kind])


# ================================================================================================ case generation

def make_case(rng: T.Any, hazard: T.Optional[str], ncmd: int, mode: str = 'single') -> T.Dict[str, T.Any]:
    proj = G.gen_project(rng, hazard)
    meta = proj['meta']
    meta['shared'] = sorted(t for t, m in meta['targets'].items() if m['shared'])
    cmds = G.gen_commands(rng, meta, ncmd)
    return {'files': proj['files'], 'cmds': cmds, 'meta': meta, 'mode': mode}


CORPUS_MESON = [
    # (build file, commands)  — regression inputs, always run first
    ("project('p')\nx = true\ny = false\nt0 = executable('t0', 's0.c', install: not (x and y))\n",
     [{'type': 'target', 'target': 't0', 'operation': 'src_add', 'sources': ['new0.c']}]),
    ("project('p')\nx = true\ny = false\nt0 = executable('t0', 's0.c', build_by_default: (x or y) and y)\n",
     [{'type': 'kwargs', 'function': 'target', 'id': 't0', 'operation': 'set', 'kwargs': {'install': True}}]),
    ("project('p')\nn = 1\nt0 = executable('t0', 's0.c', c_args: ['-DX=' + (n + 2).to_string()])\n",
     [{'type': 'target', 'target': 't0', 'operation': 'src_rm', 'sources': ['s0.c']}]),
    ("project('p')\nt0 = executable('t0', 's0.c', c_args: ['-DNAME=\\'x\\''])\n",
     [{'type': 'target', 'target': 't0', 'operation': 'src_add', 'sources': ['new0.c']}]),
    ("project('p')\n# page\x0cbreak\nt0 = executable('t0', 's0.c')\n",
     [{'type': 'target', 'target': 't0', 'operation': 'src_add', 'sources': ['new0.c']}]),
    ("project('p')\nn = 2\nt0 = executable('t0', 's0.c', d_module_versions: [-(n + 1), (n - 1) * 2, n - (n - 1)])\n",
     [{'type': 'target', 'target': 't0', 'operation': 'src_add', 'sources': ['new0.c']}]),
    ("project('p')\nx = true\ny = false\nlst = ['a']\nt0 = executable('t0', 's0.c', objects: [(lst + lst)[0]], native: (x and y) == y, pie: (x ? y : x) or y)\n",
     [{'type': 'target', 'target': 't0', 'operation': 'src_add', 'sources': ['new0.c']}]),
    ("project('p')\nn = 3\nt0 = executable('t0', 's0.c', d_module_versions: [n * (7 / 2), n * (7 % 4), n + (2 - 1), n * (2 * 3)])\n",
     [{'type': 'target', 'target': 't0', 'operation': 'src_add', 'sources': ['new0.c']}]),
    ("project('p')\nt0 = executable('t0', 's0.c', c_args: ['a\\rb'])\n",
     [{'type': 'target', 'target': 't0', 'operation': 'src_add', 'sources': ['new0.c']}]),
    ("project('p')\nx = true\ny = false\nt0 = executable('t0', 's0.c', pie: (x ? y : x) ? x : y)\n",
     [{'type': 'target', 'target': 't0', 'operation': 'src_add', 'sources': ['new0.c']}]),
    ("project('p')\nt0 = executable('t0', 's0.c', c_args: ['a\\nb'])\nt1 = executable('t1', 's1.c')\n",
     [{'type': 'target', 'target': 't0', 'operation': 'src_add', 'sources': ['new0.c']},
      {'type': 'target', 'target': 't1', 'operation': 'src_add', 'sources': ['new1.c']}]),
    ("project('p')\nn = 3\nm = 4\nt0 = executable('t0', 's0.c', native: n < m)\n",
     [{'type': 'target', 'target': 't0', 'operation': 'info'}]),
    ("project('p')\nt0 = executable('t0', 's0.c', extra_files: 'e0.txt')\nt1 = executable('t1', 's1.c')\n",
     [{'type': 'target', 'target': 't1', 'operation': 'extra_files_rm', 'sources': ['e1.txt']},
      {'type': 'target', 'target': 't0', 'operation': 'extra_files_add', 'sources': ['newe0.txt']},
      {'type': 'target', 'target': 't1', 'operation': 'target_rm'}]),
    ("project('p')\nprog = executable('prog', files('s0.c', 's1.c'), files('s2.c', 's3.c'), install: false) # trailing\nz = 1\n",
     [{'type': 'target', 'target': 'prog', 'operation': 'src_rm', 'sources': ['s0.c', 's2.c']},
      {'type': 'target', 'target': 'prog', 'operation': 'src_add', 'sources': ['new0.c']}]),
    ("project('p')\nprog = executable('prog', ['s0.c', 's1.c'], ['s2.c', 's3.c'], extra_files: [files('e0.txt'), files('e1.txt', 'e2.txt')])\nz = 1\n",
     [{'type': 'target', 'target': 'prog', 'operation': 'src_rm', 'sources': ['s3.c', 's1.c']},
      {'type': 'target', 'target': 'prog', 'operation': 'extra_files_rm', 'sources': ['e0.txt', 'e2.txt']}]),
    ("project('p')\nprog = executable('prog', 's0.c', 's1.c', files('s2.c', 's3.c'), install: false) # trailing\nz = 1\n",
     [{'type': 'target', 'target': 'prog', 'operation': 'src_rm', 'sources': ['s0.c', 's2.c']}]),
    ("project('p')\nt0 = executable('t0', 's0.c', c_args: ['a \\nb', '''ml  \nx'''])\n",
     [{'type': 'target', 'target': 't0', 'operation': 'src_add', 'sources': ['new0.c']}]),
    # create something, then address it in the same sequence (run one invocation per command AND as one script)
    ("project('p')\nt0 = executable('t0', 's0.c')\n",
     [{'type': 'target', 'target': 'nx', 'operation': 'target_add', 'sources': ['new0.c'], 'target_type': 'executable', 'subdir': ''},
      {'type': 'target', 'target': 'nx', 'operation': 'src_add', 'sources': ['new1.c']},
      {'type': 'target', 'target': 'nx', 'operation': 'info'}]),
    ("project('p')\nt0 = executable('t0', 's0.c')\n",
     [{'type': 'target', 'target': 'nx', 'operation': 'target_add', 'sources': ['new0.c'], 'target_type': 'library', 'subdir': ''},
      {'type': 'target', 'target': 'nx', 'operation': 'target_add', 'sources': ['new1.c'], 'target_type': 'library', 'subdir': ''},
      {'type': 'target', 'target': 't0', 'operation': 'src_add', 'sources': ['new2.c']}]),
    ("project('p')\nt0 = executable('t0', 's0.c')\n",
     [{'type': 'target', 'target': 'nx', 'operation': 'target_add', 'sources': ['new0.c'], 'target_type': 'executable', 'subdir': ''},
      {'type': 'kwargs', 'function': 'target', 'id': 'nx', 'operation': 'set', 'kwargs': {'install': True}},
      {'type': 'kwargs', 'function': 'target', 'id': 'nx', 'operation': 'info', 'kwargs': {}}]),
    ("project('p')\nt0 = executable('t0', 's0.c')\nz = 1\n",
     [{'type': 'target', 'target': 'nx', 'operation': 'target_add', 'sources': ['new0.c'], 'target_type': 'executable', 'subdir': ''},
      {'type': 'target', 'target': 'nx', 'operation': 'target_rm'}]),
    ("project('p', default_options: ['warning_level=1'])\nt0 = executable('t0', 's0.c')\n",
     [{'type': 'default_options', 'operation': 'set', 'options': {'warning_level': '3', 'werror': 'true'}},
      {'type': 'default_options', 'operation': 'delete', 'options': {'werror': None}}]),
    ("project('p')\nsrcs0 = files('s0.c', 's1.c')\nt0 = library('t0', srcs0)\nt1 = executable('t1', 's2.c', link_with: t0)\n",
     [{'type': 'target', 'target': 't0', 'operation': 'src_add', 'sources': ['new0.c']},
      {'type': 'target', 'target': 't0', 'operation': 'src_rm', 'sources': ['new0.c']},
      {'type': 'target', 'target': 't1', 'operation': 'target_rm'}]),
]


_TREE = {'meson.build': "project('demo')\nsubdir('lib')\nprog = executable('prog', 'main.c', lib_srcs, lib_names)\nsubdir('app')\n",
         'lib/meson.build': "lib_srcs = files('helper.c', 'util.c')\nlib_names = ['lib/main.c']\n",
         'app/meson.build': "tool = executable('tool', 'main.c', files('../lib/helper.c'), '../util.c')  # keep\n"}
CORPUS_TREES = [
    # sources reaching the target through a files() list of another directory; same basenames in several directories
    (_TREE, [{'type': 'target', 'target': 'prog', 'operation': 'src_rm', 'sources': ['lib/util.c']},
             {'type': 'target', 'target': 'prog', 'operation': 'src_add', 'sources': ['lib/util.c']},
             {'type': 'target', 'target': 'prog', 'operation': 'src_rm', 'sources': ['util.c']}], 'outside'),
    (_TREE, [{'type': 'target', 'target': 'prog', 'operation': 'src_add', 'sources': ['lib/new0.c', 'app/new0.c']},
             {'type': 'target', 'target': 'prog', 'operation': 'src_rm', 'sources': ['app/new0.c', 'lib/new0.c']},
             {'type': 'target', 'target': 'prog', 'operation': 'src_rm', 'sources': ['lib/main.c']}], 'root'),
    (_TREE, [{'type': 'target', 'target': 'tool', 'operation': 'src_rm', 'sources': ['lib/helper.c', 'util.c']},
             {'type': 'target', 'target': 'tool', 'operation': 'src_add', 'sources': ['lib/new0.c']},
             {'type': 'kwargs', 'function': 'target', 'id': 'tool', 'operation': 'set', 'kwargs': {'install': True}}], 'outside'),
    # run inside the source root on a target defined in a subdirectory (known finding)
    (_TREE, [{'type': 'target', 'target': 'tool', 'operation': 'src_add', 'sources': ['app/new0.c']}], 'root'),
    (_TREE, [{'type': 'target', 'target': 'tool', 'operation': 'src_rm', 'sources': ['app/main.c']}], 'root'),
]


_FLOW_HEAD = "project('demo')\nsrcs_a = ['f0.c']\nex_a = ['g0.txt']\n"
CORPUS_FLOW = [
    # a variable defined before the clause, re-assigned in one branch, consumed by a target in ANOTHER branch
    (_FLOW_HEAD + "if get_option('oa')\n  srcs_a = ['f1.c', 'f2.c']\n  ft0 = executable('ft0', srcs_a)\nelse\n  ft1 = executable('ft1', srcs_a, extra_files: ex_a)\nendif\n",
     [{'type': 'target', 'target': 'ft1', 'operation': 'src_add', 'sources': ['new0.c']},
      {'type': 'target', 'target': 'ft1', 'operation': 'info'}]),
    (_FLOW_HEAD + "if get_option('oa')\n  ft0 = executable('ft0', 'f3.c')\nelif get_option('ob')\n  srcs_a = ['f1.c']\n  ex_a = ['g1.txt']\nelse\n  ft1 = library('ft1', srcs_a, extra_files: ex_a)\nendif\nft2 = executable('ft2', 'f4.c')\n",
     [{'type': 'target', 'target': 'ft1', 'operation': 'info'},
      {'type': 'target', 'target': 'ft1', 'operation': 'extra_files_add', 'sources': ['newe0.txt']},
      {'type': 'target', 'target': 'ft1', 'operation': 'src_rm', 'sources': ['f0.c']}]),
    (_FLOW_HEAD + "if get_option('oa')\n  srcs_a += ['f1.c']\nelse\n  foreach it : ['p']\n    ft1 = executable('ft1', srcs_a)\n  endforeach\nendif\nft2 = executable('ft2', srcs_a, 'f5.c')\n",
     [{'type': 'target', 'target': 'ft1', 'operation': 'src_add', 'sources': ['new0.c']},
      {'type': 'target', 'target': 'ft2', 'operation': 'src_add', 'sources': ['new0.c']}]),
    # a list that also feeds targets in / after a foreach that writes the variable (known finding)
    (_FLOW_HEAD + "ft0 = static_library('ft0', srcs_a)\nforeach it : ['p']\n  srcs_a += ['f1.c']\n  ft1 = library('ft1', srcs_a)\nendforeach\nft2 = static_library('ft2', srcs_a)\n",
     [{'type': 'target', 'target': 'ft0', 'operation': 'src_rm', 'sources': ['f0.c']}]),
]


OPS_ENV = {'a': 7, 'b': 5, 'c': 3, 'p': True, 'q': False, 'r': True, 'lst': list(range(1, 41))}
_OPS_HEAD = ("project('demo')\na = 7\nb = 5\nc = 3\np = true\nq = false\nr = true\nlst = [" + ', '.join(str(i) for i in range(1, 41)) + "]\n")


def printer_table(ctx: Ctx) -> T.List[T.Tuple[str, str, str]]:
    """the operator table through the real AstPrinter, judged by value (implementation only); returns the trees for the
    model's print correspondence"""
    prints: T.List[T.Tuple[str, str, str]] = []
    for e in O.entries():
        for r in O.check_entry(e):
            ctx.count()
            ctx.tag('optable:' + r['variant'])
            if r['tree'] is not None:
                prints.append((r['tree'], r['printed'], re.sub(r'\s+\n', '\n', r['printed']).strip()))
            if not r['ok']:
                ctx.violation(O.key_of(e), f"{e['text']} ({r['variant']} operand) is printed as {r['printed']!r}: {r['why']}",
                              {'printer_entry': e, 'variant': r['variant']})
    return prints


def optable_cases() -> T.List[T.Dict[str, T.Any]]:
    """integration leg: every table entry as an UNTOUCHED keyword value of a statement that a real rewriter command re-prints"""
    M = R.mp()
    out = []
    pool = ['s%d.c' % i for i in range(8)]
    cmdsets = [
        [{'type': 'target', 'target': 't0', 'operation': 'src_add', 'sources': ['new0.c']}],
        [{'type': 'kwargs', 'function': 'target', 'id': 't0', 'operation': 'set', 'kwargs': {'install': True}}],
        [{'type': 'target', 'target': 't0', 'operation': 'src_rm', 'sources': ['s1.c']}],
        [{'type': 'target', 'target': 't0', 'operation': 'extra_files_add', 'sources': ['newe0.txt']}],
    ]
    for i, e in enumerate(O.entries()):
        if any(o in (e['outer'], e['inner'].split('[')[0]) for o in O.CMP_ORD):
            continue      # ordering comparisons abort the analysis (recorded finding); covered by the table leg
        try:
            O.ev(M.Parser('v = ' + e['text'] + '\n', 'ops').parse().lines[0].value, OPS_ENV)
        except Exception:
            continue
        files = {f: '' for f in pool + ['new0.c', 'newe0.txt']}
        files['meson.build'] = _OPS_HEAD + "t0 = executable('t0', 's0.c', 's1.c', objects: [%s], install: false)\nz = 1\n" % e['text']
        out.append({'files': files, 'cmds': cmdsets[i % len(cmdsets)], 'mode': 'single', 'prints': False, 'script': False,
                    'optable': O.key_of(e),
                    'meta': {'pool': pool, 'extra_pool': [], 'shared': [], 'targets': {}, 'deps': {}, 'project': {},
                             'hazard': 'optable'}})
    return out


def hostile_family() -> T.List[T.Dict[str, T.Any]]:
    """the layout-hostile family: every token kind of the live lexer whose text can span lines (plus escapes, non-ASCII,
    tabs, continuations, trailing comments, no newline at EOF) next to the start / end of the edited node, for each edit kind"""
    kinds = R.harvest_hostile_token_kinds()
    pool = ['s%d.c' % i for i in range(8)]
    epool = ['e%d.txt' % i for i in range(4)]
    out = []
    for label, text, cmds in G.hostile_cases(kinds):
        files = {f: '' for f in pool + epool + ['new0.c', 'new1.c', 'new2.c', 'newe0.txt', 'newe1.txt']}
        files['meson.build'] = text
        out.append({'files': files, 'cmds': cmds, 'mode': 'single', 'prints': False, 'label': label,
                    'meta': {'pool': pool, 'extra_pool': epool, 'shared': [], 'targets': {}, 'deps': {}, 'project': {},
                             'hazard': 'hostile-layout'}})
    return out


def introduced_family(ctx: Ctx) -> T.List[T.Dict[str, T.Any]]:
    """command kinds that introduce a string × hostile value alphabet (harness/c17_intro.py). Thorough: the full product.
    Quick: every kind × every CLASS of the alphabet (the representative of a class rotates with the seed) + a sample of the rest."""
    alpha = I.alphabet()
    if ctx.deep:
        return I.cases(alpha)
    by: T.Dict[str, T.List[T.Tuple[str, str]]] = {}
    for k, v in alpha:
        by.setdefault(k, []).append((k, v))
    reps = [ctx.rng.choice(l) for _k, l in sorted(by.items())]
    rest = [x for x in alpha if x not in reps]
    more = I.cases(rest)
    return I.cases(reps) + ctx.rng.sample(more, min(len(more), 160))


def corpus_cases() -> T.List[T.Dict[str, T.Any]]:
    out = []
    pool = ['s%d.c' % i for i in range(8)]
    epool = ['e%d.txt' % i for i in range(4)]
    for text, cmds in CORPUS_MESON:
        files = {f: '' for f in pool + epool + ['new0.c', 'new1.c', 'new2.c', 'newe0.txt', 'newe1.txt']}
        files['meson.build'] = text
        out.append({'files': files, 'cmds': cmds, 'meta': {'pool': pool, 'extra_pool': epool, 'shared': [], 'targets': {},
                                                           'deps': {}, 'project': {}, 'hazard': 'corpus'}, 'mode': 'single'})
    for tree, cmds, cwd in CORPUS_TREES:
        allf = sorted(os.path.join(d, b) for d in ('', 'lib', 'app') for b in ('main.c', 'helper.c', 'util.c', 'new0.c'))
        files = {f: '' for f in allf}
        files.update(tree)
        out.append({'files': files, 'cmds': cmds, 'mode': 'single', 'prints': False, 'cwd': cwd,
                    'meta': {'pool': [], 'extra_pool': [], 'shared': [], 'targets': {}, 'deps': {}, 'project': {},
                             'hazard': 'corpus', 'allfiles': allf}})
    cdir = os.path.join(common.VERIF, 'corpus', 'C17')
    if os.path.isdir(cdir):
        for f in sorted(os.listdir(cdir)):
            if f.endswith('.json'):
                try:
                    c = json.load(open(os.path.join(cdir, f)))
                    out.append(_inflate(c))
                except Exception:
                    pass
    return out


def _inflate(c: T.Dict[str, T.Any]) -> T.Dict[str, T.Any]:
    """a stored case (build file + commands) -> runnable case"""
    pool = c.get('meta', {}).get('pool') or ['s%d.c' % i for i in range(8)]
    epool = c.get('meta', {}).get('extra_pool') or ['e%d.txt' % i for i in range(4)]
    allfiles = c.get('meta', {}).get('allfiles', [])
    files = {f: '' for f in pool + epool + ['new0.c', 'new1.c', 'new2.c', 'newe0.txt', 'newe1.txt'] + list(allfiles)}
    files.update(c['files'])
    return {'files': files, 'cmds': c['cmds'], 'mode': c.get('mode', 'single'), 'prints': False, 'cwd': c.get('cwd', 'root'),
            'flow': bool(c.get('flow')), 'optable': c.get('optable'), 'intro': c.get('intro'), 'intro_class': c.get('intro_class'),
            'meta': {'pool': pool, 'extra_pool': epool, 'shared': c.get('meta', {}).get('shared', []), 'targets': {}, 'deps': {},
                     'project': {}, 'hazard': 'flow' if c.get('flow') else 'replay', 'allfiles': list(allfiles)}}


# ================================================================================================ model-only streams

def rand_text(rng: T.Any, alphabet: T.Sequence[str], maxlen: int) -> str:
    return ''.join(rng.choice(alphabet) for _ in range(rng.randint(0, maxlen)))


def stream_small(ctx: Ctx) -> None:
    """escape / string-literal decoding / line offsets / post_process / strip: model vs CPython + mesonbuild"""
    from mesonbuild.ast.printer import AstPrinter
    from mesonbuild import mparser
    rng = ctx.rng
    pr = AstPrinter()
    lines: T.List[str] = []
    exp: T.List[str] = []
    what: T.List[T.Tuple[str, str]] = []
    n = ctx.scale(1500, 12000)
    esc_alpha = list("ab'\\ \n\t\"é中") + ['\\'] * 2 + ["'"] * 2
    for _ in range(n):
        s = rand_text(rng, esc_alpha, 8)
        lines.append('esc ' + enc(s)); exp.append(enc(pr.escape(s))); what.append(('esc', s))
    raw_alpha = list("ab01789xuUN{}\\'ntr fFaAz") + ['\\'] * 4
    for _ in range(n):
        s = rand_text(rng, raw_alpha, 12)
        if re.search(r'\\N\{[^}]+\}', s) or re.search(r'\\[uU]', s):
            # \N{..} needs the Unicode name table; \u/\U may give surrogates / illegal code points: model says so
            try:
                v = mparser.StringNode(mparser.Token('string', '', 0, 0, 0, None, s)).value
                if any(0xD800 <= ord(c) <= 0xDFFF for c in v):
                    continue
            except Exception:
                continue
            if re.search(r'\\N\{[^}]+\}', s):
                continue
        else:
            v = mparser.StringNode(mparser.Token('string', '', 0, 0, 0, None, s)).value
        lines.append('decode ' + enc(s)); exp.append(('1 ' + enc(v)).rstrip() if v else '1 '); what.append(('decode', s))
    # whole literal: printed text of a value read back by the real lexer+parser
    for _ in range(n // 2):
        v = rand_text(rng, list("ab\\ é\t") + ['\\'], 6)
        lit = "'" + pr.escape(v) + "'"
        try:
            st = mparser.Parser('x = ' + lit + '\n', 'f').parse().lines[0]
            got = st.value.value if isinstance(st.value, mparser.StringNode) else None
        except Exception:
            got = None
        lines.append('lexstr ' + enc(lit)); exp.append(('1 ' + enc(got)) if got is not None else '0'); what.append(('lexstr', lit))
    sep_alpha = list('ab \n\n\r\x0b\x0c\x1c\x1d\x1e\x1f\x85\u2028\u2029\xa0#') + ['\n'] * 3
    for _ in range(n):
        s = rand_text(rng, sep_alpha, 14)
        offs, o = [], 0
        for l in s.splitlines(True):
            offs.append(o); o += len(l)
        lines.append('offsets ' + enc(s)); exp.append(','.join(str(x) for x in offs)); what.append(('offsets', s))
    ws_alpha = list('ab, \n\t\x0c\xa0\u2028x') + ['\n', ' '] * 2
    for _ in range(n):
        s = rand_text(rng, ws_alpha, 14)
        lines.append('post ' + enc(s)); exp.append(enc(re.sub(r'\s+\n', '\n', s))); what.append(('post', s))
        lines.append('strip ' + enc(s)); exp.append(enc(s.strip())); what.append(('strip', s))
    # pathname_sort_key (the order `target add / rm` leaves the file names in): model's `<` on keys vs the real key function
    from mesonbuild.mesonlib import pathname_sort_key
    name_alpha = list('abAB019/._-x') + ['/', '1', 'a']
    for _ in range(n):
        x, y = rand_text(rng, name_alpha, 7), (rand_text(rng, name_alpha, 7) if rng.random() < 0.8 else None)
        if y is None:
            y = x.swapcase() if rng.random() < 0.5 else x + rng.choice(['', '0', '/a', 'b'])
        try:
            e_ = '1' if pathname_sort_key(x) < pathname_sort_key(y) else '0'
        except Exception as e2:
            e_ = 'ERR:' + type(e2).__name__
        lines.append('sortkeylt ' + enc(x) + '|' + enc(y)); exp.append(e_); what.append(('sortkeylt', x + ' < ' + y))
    ans = ctx.driver('rewrite', lines)
    for a, e, (k, s) in zip(ans, exp, what):
        ctx.count()
        ctx.tag('stream:' + k)
        if a.strip() != e.strip():
            ctx.disagreement({'kind': k, 'input': s, 'model': a, 'impl': e})


def gen_stmt_texts(rng: T.Any, n: int) -> T.List[str]:
    out = []
    for _ in range(n):
        eg = G.ExprGen(rng, rng.choice([None, None, 'parens', 'quote']))
        d = rng.choice([1, 2, 3])
        r = rng.random()
        if r < 0.3:
            out.append('v = ' + eg.boolx(d))
        elif r < 0.5:
            out.append('v = ' + eg.intx(d))
        elif r < 0.7:
            out.append('v = ' + eg.strx(d))
        elif r < 0.8:
            out.append('f(' + ', '.join([eg.strx(d), eg.intx(d)] + ['k%d: %s' % (i, eg.boolx(d)) for i in range(rng.randint(0, 5))]) + ')')
        elif r < 0.9:
            out.append('v = ' + eg.listx(d, rng.choice(['str', 'int', 'bool'])))
        else:
            out.append('v = ' + eg.dictx(d))
    return out


def stream_print(ctx: Ctx, extra: T.List[T.Tuple[str, str, str]]) -> None:
    """AstPrinter vs astPrint on random statements (+ every statement of the generated projects), and the model's own
    reader (`parseText`) against the real parser on the source text"""
    from mesonbuild import mparser
    from mesonbuild.ast import AstIndentationGenerator, AstPrinter
    rng = ctx.rng
    items: T.List[T.Tuple[str, str, str, str]] = []
    for src in gen_stmt_texts(rng, ctx.scale(1200, 10000)):
        try:
            block = mparser.Parser(src + '\n', 'f').parse()
        except Exception:
            ctx.tag('stream:stmt-unparseable')
            continue
        block.accept(AstIndentationGenerator())
        st = block.lines[0]
        p = AstPrinter()
        st.accept(p)
        raw = p.result
        p.post_process()
        try:
            items.append((R.ser(st), raw, p.result.strip(), src))
        except R.Unsupported:
            continue
    lines, exp, what = [], [], []
    for tree, raw, nd in extra:
        lines.append('print ' + tree); exp.append(enc(raw)); what.append(('print', tree))
        lines.append('newdata ' + tree); exp.append(enc(nd)); what.append(('newdata', tree))
    for tree, raw, nd, src in items:
        lines.append('print ' + tree); exp.append(enc(raw)); what.append(('print', src))
        lines.append('newdata ' + tree); exp.append(enc(nd)); what.append(('newdata', src))
        # model's reader on the original text == real parser (erased)
        st = mparser.Parser(src + '\n', 'f').parse().lines[0]
        lines.append('parse ' + enc(src)); exp.append('1 ' + R.ser(st, erase=True)); what.append(('parse', src))
        # ... and on the printed text == real parser on the printed text (when it parses as ONE statement)
        try:
            blk = mparser.Parser(raw + '\n', 'f').parse()
            e2 = '1 ' + R.ser(blk.lines[0], erase=True) if len(blk.lines) == 1 else None
        except Exception:
            e2 = '0'
        if e2 is not None and '\n' not in src:
            lines.append('parse ' + enc(raw)); exp.append(e2); what.append(('parse-printed', raw))
    ans = ctx.driver('rewrite', lines)
    for a, e, (k, s) in zip(ans, exp, what):
        ctx.count()
        ctx.tag('stream:' + k)
        if a.strip() != e.strip():
            ctx.disagreement({'kind': k, 'input': s[:300], 'model': a[:300], 'impl': e[:300]})


# ================================================================================================ run / search / replay

def gen_tables(ctx: Ctx) -> None:
    c17_tables.write(ctx)


def _pool_map(cases: T.List[T.Dict[str, T.Any]]) -> T.List[T.Dict[str, T.Any]]:
    if len(cases) <= 2:
        return [run_case(c) for c in cases]
    nproc = min(16, os.cpu_count() or 4)
    with mp_.get_context('fork').Pool(nproc) as pool:
        return pool.map(run_case, cases, chunksize=4)


def _absorb(ctx: Ctx, cases: T.List[T.Dict[str, T.Any]], results: T.List[T.Dict[str, T.Any]]) -> T.List[T.Tuple[str, str, str]]:
    lean_lines: T.List[str] = []
    lean_exp: T.List[T.Tuple[str, str, T.Any]] = []
    prints: T.List[T.Tuple[str, str, str]] = []
    for case, res in zip(cases, results):
        ctx.extra['programs'] = ctx.extra.get('programs', 0) + 1
        ctx.count(max(1, res['steps']))
        for t in res['tags']:
            ctx.tag(t)
        if case['meta'].get('hazard'):
            ctx.tag('hazard:' + str(case['meta']['hazard']))
        else:
            ctx.tag('hazard:none')
        for key, what, c in res['viol']:
            ctx.violation(key, what, c)
        for kind, line, expected, c in res['lean']:
            lean_lines.append(line)
            lean_exp.append((kind, expected, c))
        prints += res['prints'][:40]
        sig = (tuple(sorted(set(t for t in res['tags'] if t.startswith('cmd:')))), case['meta'].get('hazard'),
               'reprinted-statement' in res['tags'])
        if 'file-changed' in res['tags']:
            ctx.seen_nontrivial((sig, hash(case['files']['meson.build'])))
        for ft_ in case['meta'].get('features', []):
            ctx.tag('flow-feature:' + ft_)
        if case.get('shared_case'):
            ctx.tag('shared-variable:' + ':'.join(case['shared_case'].split(':')[1:2]) + ':' + case['shared_case'].split(':')[-1])
        if case['meta'].get('hazard') == 'tree':
            ctx.tag('tree:cwd-' + case.get('cwd', 'root'))
        if len(ctx.samples) < 6 and 'file-changed' in res['tags']:
            ctx.sample({'meson.build': case['files']['meson.build'][:400], 'cmds': case['cmds']})
    if ctx.model_available and lean_lines:
        ans = ctx.driver('rewrite', lean_lines)
        for a, (kind, expected, c) in zip(ans, lean_exp):
            ctx.extra['disagreements_checked'] = ctx.extra.get('disagreements_checked', 0) + 1
            ctx.tag('lean:' + kind)
            if kind == 'pmatch':
                # the model's acceptable (list, element) positions for this requested file against what the real
                # rm_src_or_extra removed: a removed string must be acceptable; when every acceptable one is removable
                # (not shared with another target) exactly one of them must have gone
                rm = c['rm']
                model = [tuple(int(x) for x in p_.split(':')) for p_ in a.strip().split(',') if ':' in p_]
                removed = [tuple(x) for x in rm['removed']]
                mine = [x for x in removed if x in model]
                alln = True
                for (i_, j_) in model:
                    alln = alln and rm['cands'][i_]['removable'][j_]
                bad = None
                if model and alln and len(mine) != 1:
                    bad = f'model accepts {model}, the rewriter removed {mine}'
                elif not model and False:
                    bad = None
                elif len(mine) > 1:
                    bad = f'several strings removed for one file: {mine}'
                ctx.tag('lean:pmatch:' + ('match' if model else 'no-match'))
                if bad:
                    ctx.disagreement({'kind': 'lean-pmatch', 'what': bad, 'src': c['src'], 'cands': rm['cands'], 'case': c['case']})
                continue
            if kind == 'order':
                # the model lists every queued item; the hook saw only the printed ones (removals print nothing)
                a = ','.join(x for x in a.strip().split(',') if x.isdigit() and int(x) in c['printed'])
            if a.strip() != expected.strip():
                d = {'kind': 'lean-' + kind, 'model': a[:300], 'impl': expected[:300]}
                if kind in ('same', 'listop', 'kwcmd', 'srccmd'):
                    d['case'] = c
                else:
                    d['before'] = c['before'][:600]
                    d['works'] = [w['meta'] for w in c['works']]
                ctx.disagreement(d)
    return prints


def run(ctx: Ctx) -> None:
    ctx.rule = ('a case is non-trivial when at least one command changed the build file; distinct = distinct '
                '(command kinds, hazard class, build file text)')
    ctx.assumptions += [
        'generated projects: single directory and multi-directory trees, LF line ends, ASCII identifiers; strings may contain quotes, '
        'backslashes, tabs, non-ASCII; trees are run with the cwd outside the source root (3 of 4) or inside it (1 of 4)',
        'right operands of and/or are never a parenthesised and/or of the same kind (associativity is not a meaning change)',
        'commands that the rewriter rejects (unknown target / option, target exists) must leave the files untouched',
        'control-flow family: ground truth = the harness\'s concrete evaluator over all 8 configurations of three boolean get_option() '
        'conditions; a declined edit (files untouched) is tolerated there, an edit that reaches no configuration of the addressed '
        'target or changes another target is not; `info` is judged only for configuration-independent lists',
        'a declined edit is tolerated only where the rewriter documents it cannot decide (source list shared by two targets, '
        'keyword value too complex for add/remove, extra_files given as a plain string)',
    ]
    R.quiet()
    rng = ctx.rng
    cases = corpus_cases() + hostile_family() + optable_cases() + introduced_family(ctx)
    nproj = ctx.scale(420, 4000)
    hz_cycle = [None] * 7 + G.HAZARDS
    for i in range(nproj):
        hazard = hz_cycle[i % len(hz_cycle)] if i < 3 * len(hz_cycle) else rng.choice(hz_cycle)
        cases.append(make_case(rng, hazard, rng.choice([1, 2, 2, 3])))
    for _ in range(ctx.scale(160, 1500)):
        cases.append(G.gen_tree(rng, rng.choice([1, 2, 2, 3])))
    for text, cmds in CORPUS_FLOW:
        cases.append(_inflate({'files': {'meson.build': text}, 'cmds': cmds, 'flow': True, 'cwd': 'outside',
                               'meta': {'allfiles': ['f%d.c' % i for i in range(8)] + ['g0.txt', 'g1.txt', 'new0.c', 'newe0.txt']}}))
    for _ in range(ctx.scale(170, 1500)):
        cases.append(F.gen_flow(rng, rng.choice([1, 1, 2])))
    cases += F.shared_family()
    results = _pool_map(cases)
    prints = _absorb(ctx, cases, results)
    # every construct of the live AstInterpreter that scopes / merges variables must be known to the control-flow family
    # and must have occurred in a generated project
    seen_feats = {k[len('flow-feature:'):] for k in ctx.dist if k.startswith('flow-feature:')}
    ctx.extra['ast_interpreter_constructs'] = F.harvested_constructs()
    for m_ in F.harvested_constructs():
        if m_ not in F.CONSTRUCTS:
            ctx.obligation_failed('control-flow family', f'AstInterpreter.{m_} is not covered by the control-flow family (harness/c17_flow.py CONSTRUCTS)')
        elif F.CONSTRUCTS[m_] is not None and F.CONSTRUCTS[m_] not in seen_feats:
            ctx.obligation_failed('control-flow family', f'no generated project exercised {m_} ({F.CONSTRUCTS[m_]})')
    kinds = R.harvest_hostile_token_kinds()
    ctx.extra['hostile_token_kinds'] = sorted(kinds)
    for tid, recipe in sorted(G.hostile_snippets(kinds).items()):
        if recipe is None:
            ctx.obligation_failed('layout-hostile family', f'token kind {tid!r} of Lexer.token_specification can span lines but has no recipe')
            continue
        for pos in ('before-start', 'before-end'):
            if not ctx.dist.get(f'adjacent:{tid}:{pos}'):
                ctx.obligation_failed('layout-hostile family', f'no edited node had a {tid} token on its line ({pos})')
    table_prints = printer_table(ctx)
    if ctx.model_available:
        stream_small(ctx)
        stream_print(ctx, table_prints + prints[:ctx.scale(1500, 8000)])


def search(ctx: Ctx, disagreements: T.List[dict]) -> None:
    """something no longer checks: put the disagreeing expressions into a project and run real commands over them;
    then run more clean projects (the oracle needs no model)"""
    rng = ctx.rng
    cases: T.List[T.Dict[str, T.Any]] = []
    pool = ['s%d.c' % i for i in range(8)]
    epool = ['e%d.txt' % i for i in range(4)]
    for d in disagreements[:20]:
        src = d.get('input') if d.get('kind') in ('print', 'newdata') else None
        if d.get('kind') in ('lean-same', 'lean-listop', 'lean-pmatch', 'lean-kwcmd', 'lean-srccmd'):
            cases.append(_inflate(d['case']))
        if not src or not isinstance(src, str) or ';' in src[:3]:
            continue
        rhs = src.split('=', 1)[1].strip() if src.startswith('v = ') else src
        text = ("project('p')\nx = true\ny = false\nn = 3\nm = 4\ns = 'str'\nu = 'b-c'\nlst = ['a', 'b', 'c']\n"
                "t0 = executable('t0', 's0.c', objects: [" + rhs + "])\n")
        files = {f: '' for f in pool + epool + ['new0.c']}
        files['meson.build'] = text
        cases.append({'files': files, 'cmds': [{'type': 'target', 'target': 't0', 'operation': 'src_add', 'sources': ['new0.c']}],
                      'meta': {'pool': pool, 'extra_pool': epool, 'shared': [], 'targets': {}, 'deps': {}, 'project': {},
                               'hazard': 'search'}, 'mode': 'single', 'prints': False})
    for _ in range(ctx.scale(300, 1500)):
        cases.append(make_case(rng, None, rng.choice([1, 2, 3])))
    results = _pool_map(cases)
    for case, res in zip(cases, results):
        for key, what, c in res['viol']:
            ctx.violation(key, what, c)
    ctx.notes.append(f'search: {len(cases)} further projects run through the implementation-only oracle')


def replay(ctx: Ctx, rep: dict) -> None:
    case = rep.get('case') or rep
    if 'printer_entry' in case:
        e = case['printer_entry']
        for r in O.check_entry(e):
            if not r['ok']:
                ctx.violation(O.key_of(e), f"{e['text']} ({r['variant']}) is printed as {r['printed']!r}: {r['why']}", case)
        return
    if 'files' not in case:
        for d in rep.get('correspondence_disagreements', []):
            if 'case' in d:
                case = d['case']
                break
    if 'files' not in case:
        ctx.notes.append('replay file has no runnable case')
        return
    c = _inflate(case)
    res = run_case(c)
    _absorb(ctx, [c], [res])
