"""C08 reference: the property statement as a (non-deterministic) specification over lifecycle histories.

Written from the statement of C08 only — no Lean model, no meson code:

  * every option keeps the last value the user gave it, else the default it was created with;
  * a new option gets its default, a removed one vanishes, a changed choice list (or integer range) keeps the old
    value when still valid and otherwise falls back to the new default; a changed default alone changes nothing;
    a changed type is a removal followed by an addition;
  * a per-subproject override (`-Dsub:opt=v` on a builtin option, or on a `yield: true` project option) wins in the
    subproject; dropping it (`-Usub:opt`) returns the subproject to the inherited value (the current value of the
    global / top-level option), and an inheriting option follows its *current* parent;
  * `--wipe` = fresh configuration from the recorded command lines plus the current option files;
  * a command that fails leaves every persisted value exactly as it was.

Where the statement leaves an order open the reference returns several acceptable candidates (e.g. whether `-D`
arguments of `setup --reconfigure` are validated against the option file as it was or as it is now; whether
`meson configure` already picks up an edited option file; whether a recorded value that is no longer valid makes
`--wipe` fail (then: nothing may change) or fall back to the default).  An observation must match one candidate.
"""
from __future__ import annotations

import copy
import typing as T

BUILTIN = 'warning_level'
BUILTIN_CHOICES = ['0', '1', '2', '3', 'everything']
BUILTIN_DEFAULT = '1'
# the subprojects of the tree (set by the harness): any number; options of different projects may share a name
SUBS: T.List[str] = ['sub']


def proj_of(key: str) -> str:
    return key.partition(':')[0]


def name_of(key: str) -> str:
    return key.partition(':')[2]


def canon(v: T.Any) -> str:
    if isinstance(v, bool):
        return 'true' if v else 'false'
    if isinstance(v, list):
        return '[' + ', '.join(canon(x) for x in v) + ']'
    return str(v)


def validate(sp: dict, raw: str) -> T.Optional[str]:
    """canonical stored value of the command-line string `raw` for an option of spec `sp`; None = invalid"""
    t = sp['t']
    if t == 'string':
        return raw
    if t == 'boolean':
        return raw.lower() if raw.lower() in ('true', 'false') else None
    if t == 'combo':
        return raw if raw in sp['c'] else None
    if t == 'feature':
        return raw if raw in ('enabled', 'disabled', 'auto') else None
    if t == 'array':
        # command line: comma separated; a stored value ('[x, y]') is re-validated when the choices change
        body = raw[1:-1] if raw.startswith('[') and raw.endswith(']') else raw
        items = [x.strip() for x in body.split(',')] if body else []
        if sp.get('c') and any(x not in sp['c'] for x in items):
            return None
        return canon(items)
    if t == 'integer':
        try:
            n = int(raw)
        except ValueError:
            return None
        if sp.get('min') is not None and n < sp['min']:
            return None
        if sp.get('max') is not None and n > sp['max']:
            return None
        return str(n)
    raise ValueError(t)


def same_domain(a: dict, b: dict) -> bool:
    return a['t'] == b['t'] and a.get('c') == b.get('c') and a.get('min') == b.get('min') and a.get('max') == b.get('max')


class State:
    """what the user is entitled to expect of a configured build directory"""

    def __init__(self) -> None:
        self.configured = False
        self.corrupt = False                    # coredata.dat damaged: the next --reconfigure regenerates from the records
        self.spec: T.Dict[str, dict] = {}       # 'top:n' / '<subproject>:n' -> spec the option was last (re)read with
        self.val: T.Dict[str, str] = {}         # own value of every existing project option
        self.override: T.Dict[str, str] = {}    # 'sub:n' -> value set for the subproject only (yielding option / builtin)
        self.inherits: T.Dict[str, bool] = {}   # 'sub:n' -> option was created as inheriting from 'top:n'
        self.wl = BUILTIN_DEFAULT
        self.rec: T.Dict[str, str] = {}         # recorded command line (cmd_line.txt), key as typed by the user
        # bookkeeping used only to *name* a deviation (canonical finding keys), never to decide one
        self.parent_replaced: T.Set[str] = set()
        self.child_replaced: T.Set[str] = set()
        self.type_changed: T.Set[str] = set()

    def copy(self) -> 'State':
        return copy.deepcopy(self)

    # ---- what can be observed
    def effective(self) -> T.Dict[str, str]:
        eff = {}
        for k, v in self.val.items():
            if k in self.override:
                eff[k] = self.override[k]
            elif self.inherits.get(k) and ('top:' + name_of(k)) in self.val:
                eff[k] = self.val['top:' + name_of(k)]
            else:
                eff[k] = v
        eff['top:' + BUILTIN] = self.wl
        for p in SUBS:
            eff[p + ':' + BUILTIN] = self.override.get(p + ':' + BUILTIN, self.wl)
        return eff


def user_key(k: str) -> str:
    """command-line key -> state key"""
    return k if ':' in k else 'top:' + k


def create(st: State, key: str, sp: dict) -> None:
    st.spec[key] = sp
    st.val[key] = canon(sp['d'])
    st.override.pop(key, None)
    par = 'top:' + name_of(key)
    st.inherits[key] = bool(proj_of(key) != 'top' and sp.get('y') and par in st.spec and st.spec[par]['t'] == sp['t'])


def vanish(st: State, key: str) -> None:
    for d in (st.spec, st.val, st.override, st.inherits):
        d.pop(key, None)
    if proj_of(key) == 'top':
        # an option inherits from the parent it was created under; when that parent vanishes it has its own value
        # (and does not start to inherit from a parent that is declared again later)
        for p in SUBS:
            if st.inherits.get(p + ':' + name_of(key)):
                st.inherits[p + ':' + name_of(key)] = False


def sync(st: State, files: T.Dict[str, T.Dict[str, dict]]) -> State:
    """the build directory re-reads the option files"""
    st = st.copy()
    for proj in ['top'] + SUBS:
        cur = files[proj]
        for n, sp in cur.items():
            key = proj + ':' + n
            old = st.spec.get(key)
            if old is None:
                create(st, key, sp)
            elif old['t'] != sp['t']:
                vanish(st, key)
                create(st, key, sp)
                st.type_changed.add(key)
            elif not same_domain(old, sp):
                st.spec[key] = sp
                if validate(sp, st.val[key]) is None:
                    st.val[key] = canon(sp['d'])
                if key in st.override and validate(sp, st.override[key]) is None:
                    st.override[key] = canon(sp['d'])      # "otherwise falls back to the new default"
                for p in SUBS:
                    if proj == 'top' and (p + ':' + n) in st.spec and st.inherits.get(p + ':' + n):
                        st.parent_replaced.add(p + ':' + n)
                if proj != 'top' and st.inherits.get(key):
                    st.child_replaced.add(key)
            else:
                st.spec[key] = sp          # a changed default alone changes no value
        for key in [k for k in st.spec if k.startswith(proj + ':') and k[len(proj) + 1:] not in cur]:
            vanish(st, key)
    return st


def apply_d(st: State, dargs: T.List[T.List[str]], uargs: T.List[str], lenient: bool = False) -> T.Optional[State]:
    """the user assigns / drops values; None = the command must fail (unknown option, invalid value).
    `lenient` (replay of recorded lines by --wipe only): unknown options are skipped, invalid values fall back."""
    st = st.copy()
    dargs = [x for x in dargs if x[0] not in uargs]     # one dict on the command line: a later -U k replaces -D k=v
    for k, raw in dargs:
        if k == BUILTIN or (name_of(k) == BUILTIN and proj_of(k) in SUBS):
            if raw not in BUILTIN_CHOICES:
                if lenient:
                    continue
                return None
            if k == BUILTIN:
                st.wl = raw
            else:
                st.override[k] = raw
            st.rec[k] = raw
            continue
        key = user_key(k)
        if key not in st.spec:
            if lenient:
                continue
            return None
        v = validate(st.spec[key], raw)
        if v is None:
            if lenient:
                continue
            return None
        if proj_of(key) != 'top' and st.inherits.get(key):
            st.override[key] = v
        st.val[key] = v
        st.rec[k] = raw
    for k in uargs:
        key = k if ':' in k and proj_of(k) in SUBS else None
        if key is None or (name_of(key) != BUILTIN and key not in st.spec):
            return None
        st.override.pop(key, None)
        st.rec.pop(k, None)
    return st


def blows(st: State) -> bool:
    eff = st.effective()
    return eff.get('top:boom') == 'true' or eff.get('top:boom_late') == 'true'


# default_options of the build files: part of the defaults a fresh configuration starts from (below the command line);
# keys as on the command line, seen from the top-level project
BUILD_FILE_DEFAULTS: T.List[T.List[str]] = []


def fresh(files: T.Dict[str, T.Dict[str, dict]], rec: T.List[T.List[str]], lenient: bool) -> T.Optional[State]:
    st = State()
    st = sync(st, files)
    st.parent_replaced.clear(); st.child_replaced.clear(); st.type_changed.clear()
    st = apply_d(st, BUILD_FILE_DEFAULTS, [], True)
    assert st is not None
    st.rec.clear()
    st = apply_d(st, rec, [], lenient)
    if st is None:
        return None
    st.configured = True
    return st


FAIL = 'fail'


def candidates(st: State, files: T.Dict[str, T.Dict[str, dict]], cmd: dict) -> T.List[T.Union[str, State]]:
    """acceptable outcomes of `cmd`: FAIL (then nothing persisted may change) and/or successor states"""
    op = cmd['op']
    D = [list(x) for x in cmd.get('D', [])]
    U = list(cmd.get('U', []))
    out: T.List[T.Union[str, State]] = []

    def add(s: T.Optional[State]) -> None:
        if s is None or blows(s):
            if FAIL not in out:
                out.append(FAIL)
        else:
            out.append(s)

    if st.corrupt:
        if op in ('setup', 'configure'):
            return [FAIL]             # the damaged file is reported; only --reconfigure / --wipe regenerate
        # regeneration = fresh configuration from the recorded command lines plus the new arguments
        rec = [[k, v] for k, v in st.rec.items() if k not in dict(D)] + D
        add(fresh(files, rec, False))
        add(fresh(files, rec, True))
        return out
    if op == 'setup' and st.configured:
        op = 'configure'          # "Directory already configured": the -D arguments are applied as by `meson configure`
    if op in ('setup', 'reconfigure') and not st.configured:
        add(fresh(files, D, False))
    elif op == 'wipe':
        rec = [[k, v] for k, v in st.rec.items()] + D
        add(fresh(files, rec, False))
        add(fresh(files, rec, True))
    elif op == 'reconfigure':
        s1 = apply_d(sync(st, files), D, [])
        add(s1)
        s2 = apply_d(st, D, [])
        add(sync(s2, files) if s2 is not None else None)
    elif op == 'configure':
        if not st.configured:
            out.append(FAIL)
        else:
            s1 = apply_d(sync(st, files), D, U)
            add_nb = lambda s: out.append(FAIL) if s is None and FAIL not in out else (out.append(s) if s is not None else None)
            if any(k not in st.override for k in U) and U:
                out.append(FAIL)             # dropping an override that does not exist may be refused
            add_nb(s1)                       # `meson configure` does not run the build files: boom cannot fire
            add_nb(apply_d(st, D, U))
    return out
