"""C17 — control-flow family: targets and the variables feeding them inside if / elif / else / nested if / foreach bodies,
and a CONCRETE evaluator (ground truth, independent of the rewriter's AstInterpreter): the build files are executed for one
configuration of the branch conditions (`get_option('o…')` booleans) with plain sequential semantics — assignment, `+=`,
first true branch of an if clause, foreach over a literal list, subdir() — and every target's real source / extra_files
list is read off. The rewriter must make the requested change true in EVERY configuration and leave every other target alone."""
from __future__ import annotations

import itertools
import os
import typing as T

from . import c17_real as R

OPTS = ['oa', 'ob', 'oc']


class Unsupported(Exception):
    pass


def all_configs() -> T.List[T.Dict[str, bool]]:
    return [dict(zip(OPTS, v)) for v in itertools.product([False, True], repeat=len(OPTS))]


class _Eval:
    def __init__(self, files: T.Dict[str, str], cfg: T.Dict[str, bool]):
        self.files = files
        self.cfg = cfg
        self.env: T.Dict[str, T.Any] = {}
        self.targets: T.Dict[str, T.Dict[str, T.Any]] = {}
        self.dir = ''
        self.project = ''
        self.nconsumer = 0

    def run(self) -> T.Dict[str, T.Dict[str, T.Any]]:
        self.block(R.parse(self.files['meson.build']))
        return self.targets

    def block(self, blk: T.Any) -> None:
        M = R.mp()
        for st in blk.lines:
            if isinstance(st, M.PlusAssignmentNode):        # (a subclass of AssignmentNode: test it first)
                old = self.env.get(st.var_name.value)
                new = self.value(st.value)
                if not isinstance(old, list) or not isinstance(new, list):
                    raise Unsupported('+= on a non-list')
                self.env[st.var_name.value] = old + new
            elif isinstance(st, M.AssignmentNode):
                self.env[st.var_name.value] = self.value(st.value)
            elif isinstance(st, M.IfClauseNode):
                done = False
                for i in st.ifs:
                    if self.cond(i.condition):
                        self.block(i.block)
                        done = True
                        break
                if not done and not isinstance(st.elseblock, M.EmptyNode):
                    self.block(st.elseblock.block)
            elif isinstance(st, M.ForeachClauseNode):
                items = self.value(st.items)
                if not isinstance(items, list) or len(st.varnames) != 1:
                    raise Unsupported('foreach')
                for it in items:
                    self.env[st.varnames[0].value] = it
                    self.block(st.block)
            elif isinstance(st, M.FunctionNode):
                self.call(st)
            else:
                raise Unsupported(type(st).__name__)

    def cond(self, n: T.Any) -> bool:
        v = self.value(n)
        if not isinstance(v, bool):
            raise Unsupported('condition')
        return v

    def call(self, f: T.Any) -> T.Any:
        M = R.mp()
        name = f.func_name.value
        if name == 'subdir':
            sub = f.args.arguments[0].value
            saved = self.dir
            self.dir = os.path.normpath(os.path.join(self.dir, sub)) if self.dir else sub
            self.block(R.parse(self.files[os.path.join(self.dir, 'meson.build')]))
            self.dir = saved
            return None
        if name == 'get_option':
            return self.cfg[f.args.arguments[0].value]
        if name == 'files':
            out: T.List[T.Any] = []
            for a in f.args.arguments:
                v = self.value(a)
                for s in (v if isinstance(v, list) else [v]):
                    if not isinstance(s, str):
                        raise Unsupported('files()')
                    out.append(('file', os.path.normpath(os.path.join(self.dir, s))))
            return out
        if name in ('custom_target', 'install_data', 'configure_file'):
            # a consumer of file lists that is not a build target: recorded like one (it must keep its files too)
            self.nconsumer += 1
            if name == 'custom_target':
                key = 'custom_target:' + str(self.value(f.args.arguments[0]))
                kv = R.kwarg(f, 'input')
                srcs0 = self.flat(self.value(kv)) if kv is not None else []
            elif name == 'install_data':
                key = 'install_data#%d' % self.nconsumer
                srcs0 = []
                for a in f.args.arguments:
                    srcs0 += self.flat(self.value(a))
            else:
                key = 'configure_file#%d' % self.nconsumer
                kv = R.kwarg(f, 'input')
                srcs0 = self.flat(self.value(kv)) if kv is not None else []
            self.targets[key] = {'src': sorted(self.path(s_) for s_ in srcs0), 'extra': [], 'kw': {}}
            return ('consumer', key)
        if name in R.TARGET_FUNCS:
            tname = self.value(f.args.arguments[0])     # the name may be computed (loop variable, string +, project name)
            if not isinstance(tname, str):
                raise Unsupported('target name')
            srcs: T.List[T.Any] = []
            for a in f.args.arguments[1:]:
                srcs += self.flat(self.value(a))
            kv = R.kwarg(f, 'sources')
            if kv is not None:
                srcs += self.flat(self.value(kv))
            ex: T.List[T.Any] = []
            kv = R.kwarg(f, 'extra_files')
            if kv is not None:
                ex = self.flat(self.value(kv))
            kws = {}
            for k, v in f.args.kwargs.items():
                if isinstance(k, M.IdNode) and k.value not in ('sources', 'extra_files'):
                    try:
                        kws[k.value] = self.value(v)
                    except Unsupported:
                        kws[k.value] = ('expr', R.ser(v, erase=True))
            self.targets[tname] = {'src': sorted(self.path(s) for s in srcs), 'extra': sorted(self.path(s) for s in ex), 'kw': kws}
            return ('target', tname)
        if name == 'project':
            if f.args.arguments and isinstance(f.args.arguments[0], M.StringNode):
                self.project = f.args.arguments[0].value
            return None
        if name in ('message', 'summary'):
            return None
        raise Unsupported('call ' + name)

    def path(self, s: T.Any) -> str:
        if isinstance(s, tuple) and s[0] == 'file':
            return s[1]
        if isinstance(s, str):
            return os.path.normpath(os.path.join(self.dir, s))     # plain strings: relative to the target's directory
        raise Unsupported('source element')

    def flat(self, v: T.Any) -> T.List[T.Any]:
        if isinstance(v, list):
            out: T.List[T.Any] = []
            for x in v:
                out += self.flat(x)
            return out
        return [v]

    def value(self, n: T.Any) -> T.Any:
        M = R.mp()
        if isinstance(n, M.ParenthesizedNode):
            return self.value(n.inner)
        if isinstance(n, M.StringNode):
            return n.value
        if isinstance(n, M.BooleanNode):
            return bool(n.value)
        if isinstance(n, M.NumberNode):
            return n.value
        if isinstance(n, M.IdNode):
            if n.value not in self.env:
                raise Unsupported('undefined ' + n.value)
            return self.env[n.value]
        if isinstance(n, M.ArrayNode):
            return [self.value(a) for a in n.args.arguments]
        if isinstance(n, M.NotNode):
            return not self.cond(n.value)
        if isinstance(n, M.AndNode):
            return self.cond(n.left) and self.cond(n.right)
        if isinstance(n, M.OrNode):
            return self.cond(n.left) or self.cond(n.right)
        if isinstance(n, M.ArithmeticNode) and n.operation == '+':
            a, b = self.value(n.left), self.value(n.right)
            if isinstance(a, list) and isinstance(b, list):
                return a + b
            if isinstance(a, str) and isinstance(b, str):
                return a + b
            raise Unsupported('+')
        if isinstance(n, M.MethodNode) and isinstance(n.source_object, M.IdNode) and n.source_object.value == 'meson' \
                and n.name.value == 'project_name' and not n.args.arguments:
            return self.project
        if isinstance(n, M.TernaryNode):
            return self.value(n.trueblock) if self.cond(n.condition) else self.value(n.falseblock)
        if isinstance(n, M.FunctionNode):
            return self.call(n)
        raise Unsupported(type(n).__name__)


def evaluate(files: T.Dict[str, str], cfg: T.Dict[str, bool]) -> T.Dict[str, T.Dict[str, T.Any]]:
    return _Eval(files, cfg).run()


def truth(files: T.Dict[str, str]) -> T.List[T.Dict[str, T.Dict[str, T.Any]]]:
    return [evaluate(files, c) for c in all_configs()]


def flow_oracle(before: T.Dict[str, str], after: T.Dict[str, str], cmd: T.Dict[str, T.Any], status: str) -> T.Tuple[T.List[T.Tuple[str, str]], T.List[str]]:
    """ground truth before / after one command, for every configuration of the branch conditions"""
    viol: T.List[T.Tuple[str, str]] = []
    tags: T.List[str] = []
    try:
        B, A = truth(before), truth(after)
    except Unsupported as e:
        return viol, ['flow:not-evaluated:' + str(e).split(' ')[0]]
    except Exception as e:
        return viol, ['flow:not-evaluated:' + type(e).__name__]
    typ, op = cmd.get('type'), cmd.get('operation')
    tname = cmd.get('target') if typ == 'target' else (cmd.get('id') if typ == 'kwargs' and cmd.get('function') == 'target' else None)
    req = {os.path.normpath(f) for f in cmd.get('sources', [])}
    changed_somewhere = False
    wanted_somewhere = False
    reached = False
    for cfg, b, a in zip(all_configs(), B, A):
        cs = ','.join(k for k, v in cfg.items() if v) or '-'
        for u in sorted(set(b) | set(a)):
            if u == tname:
                continue
            if u not in a or u not in b:
                if not (op == 'target_add' and u == cmd.get('target')):
                    viol.append(('flow:other-target-appeared-or-vanished', f'[{cs}] target {u} ' + ('vanished' if u in b else 'appeared')))
                continue
            if a[u] != b[u]:
                if u.startswith(('custom_target:', 'install_data#', 'configure_file#')):
                    # recorded finding: affects_no_other_targets counts build-target calls only
                    viol.append(('shared-list:non-target-consumer-changed',
                                 f'[{cs}] {u} was not addressed but the files it is given changed: {b[u]["src"]} -> {a[u]["src"]}'))
                else:
                    viol.append(('flow:other-target-changed',
                                 f'[{cs}] target {u} was not addressed but its real value changed: {b[u]} -> {a[u]}'))
        if tname is None or tname not in b:
            continue
        if op == 'target_rm':
            if status == 'ok' and tname in a:
                viol.append(('flow:addressed-target-value', f'[{cs}] removed target {tname} is still defined'))
            continue
        if tname not in a:
            viol.append(('flow:addressed-target-value', f'[{cs}] addressed target {tname} vanished'))
            continue
        bt, at = b[tname], a[tname]
        what = 'src' if op in ('src_add', 'src_rm') else ('extra' if op in ('extra_files_add', 'extra_files_rm') else None)
        if status != 'ok':
            continue
        if what is not None:
            want = (set(bt[what]) | req) if op.endswith('add') else (set(bt[what]) - req)
            other = 'extra' if what == 'src' else 'src'
            if want != set(bt[what]):
                wanted_somewhere = True
            # per configuration the real list is either what was requested or (the rewriter declined / edited a list that
            # does not reach this configuration) what it was — never anything else
            if set(at[what]) != want and at[what] != bt[what]:
                viol.append(('flow:addressed-target-value',
                             f'[{cs}] {op} {sorted(req)} on {tname}: real {what} list {bt[what]} -> {at[what]}, requested {sorted(want)}'))
            if set(at[what]) == want and want != set(bt[what]):
                reached = True
            if at[other] != bt[other] or at['kw'] != bt['kw']:
                viol.append(('flow:addressed-target-other-part-changed', f'[{cs}] {tname}: {other} / keywords changed'))
            if at[what] != bt[what]:
                changed_somewhere = True
        elif typ == 'kwargs':
            if at['src'] != bt['src'] or at['extra'] != bt['extra']:
                viol.append(('flow:addressed-target-other-part-changed', f'[{cs}] kwargs on {tname} changed its files'))
    if status == 'ok' and wanted_somewhere and not reached:
        if before != after:
            # the build files WERE edited, yet in no configuration does the addressed target have the requested value:
            # the edit went to a statement that does not feed it
            viol.append(('flow:edit-did-not-reach-the-addressed-target',
                         f'{op} {sorted(req)} on {tname}: build files changed but the real list of {tname} has the requested value in no configuration'))
        else:
            tags.append('flow:declined')     # documented behaviour: a warning, nothing written
    if any(k == 'flow:other-target-changed' for k, _w in viol) and tname is not None:
        # known finding: AstInterpreter.evaluate_foreach replaces every variable written in the loop by an UnknownValue
        # WITHOUT dataflow edges, so a list that also feeds other targets through / after a foreach looks unshared
        try:
            if _foreach_feeds(before, tname):
                viol = [(('foreach:dataflow-lost:shared-list-edited' if k == 'flow:other-target-changed' else k), w) for k, w in viol]
        except Exception:
            pass
    tags.append('flow:evaluated')
    if changed_somewhere:
        tags.append('flow:addressed-target-changed')
    return viol, tags


def _foreach_feeds(files: T.Dict[str, str], tname: str) -> bool:
    """a variable named in the addressed target's call is assigned inside some foreach body of the project"""
    M = R.mp()
    assigned: T.Set[str] = set()

    def scan(blk: T.Any, inside: bool) -> None:
        for st in blk.lines:
            if isinstance(st, M.ForeachClauseNode):
                scan(st.block, True)
            elif isinstance(st, M.IfClauseNode):
                for i in st.ifs:
                    scan(i.block, inside)
                if not isinstance(st.elseblock, M.EmptyNode):
                    scan(st.elseblock.block, inside)
            elif inside and isinstance(st, M.AssignmentNode):
                assigned.add(st.var_name.value)
    view = R.View(files)
    for f in view.per_file:
        scan(R.parse(files[f]), False)
    loc = R.find_target(view.stmts, tname)
    if loc is None:
        return False
    names = {n.value for n, _p in R.walk(loc[1]) if isinstance(n, M.IdNode)}
    return bool(names & assigned)


def config_independent(files: T.Dict[str, str], tname: str, what: str) -> T.Optional[T.List[str]]:
    """the target's real list when it is the same in every configuration in which the target exists, else None"""
    try:
        vals = [t[tname][what] for t in truth(files) if tname in t]
    except Exception:
        return None
    if not vals or any(v != vals[0] for v in vals):
        return None
    return vals[0]


# ------------------------------------------------------------------------------------------------ generator

# constructs of the live AstInterpreter that scope or merge variables -> the generator feature that exercises them
CONSTRUCTS = {'evaluate_if': 'if', 'evaluate_foreach': 'foreach', 'evaluate_plusassign': 'plusassign', 'assignment': 'assign',
              'evaluate_ternary': 'ternary', 'evaluate_codeblock': 'block', 'evaluate_statement': 'block',
              'evaluate_arraystatement': 'array', 'evaluate_arithmeticstatement': 'plus', 'evaluate_notstatement': 'not',
              'evaluate_andstatement': 'andor', 'evaluate_orstatement': 'andor',
              # value forms that do not scope variables (exercised by the expression generator of the main family)
              'evaluate_comparison': None, 'evaluate_dictstatement': None, 'evaluate_fstring': None, 'evaluate_indexing': None,
              'evaluate_multiline_fstring': None, 'evaluate_uminusstatement': None, 'evaluate_testcase': None}


def harvested_constructs() -> T.List[str]:
    from mesonbuild.ast.interpreter import AstInterpreter
    return sorted(m for m in dir(AstInterpreter) if m.startswith('evaluate_') or m == 'assignment')


def gen_flow(rng: T.Any, ncmd: int) -> T.Dict[str, T.Any]:
    pool = ['f%d.c' % i for i in range(24)]
    epool = ['g%d.txt' % i for i in range(8)]
    rng.shuffle(pool)
    rng.shuffle(epool)
    files: T.Dict[str, str] = {f: '' for f in pool + epool + ['new0.c', 'new1.c', 'newe0.txt']}
    q = lambda l: ', '.join("'%s'" % s for s in l)  # noqa: E731
    used: T.Set[str] = set()
    feats: T.Set[str] = {'block', 'assign', 'array'}

    def fresh(n: int, p: T.List[str]) -> T.List[str]:
        out = []
        while p and len(out) < n:
            out.append(p.pop())
        return out
    svars = ['srcs_a', 'srcs_b'][:rng.randint(1, 2)]
    evar = 'ex_a'
    lines = ["project('demo')", 'x = true', 'y = false']
    for v in svars:
        lines.append('%s = %s' % (v, rng.choice(['[%s]', 'files(%s)']) % q(fresh(rng.randint(1, 2), pool))))
    lines.append('%s = [%s]' % (evar, q(fresh(1, epool))))
    targets: T.List[str] = []
    tcount = [0]

    def cond() -> str:
        c = rng.choice(["get_option('oa')", "get_option('ob')", "get_option('oc')", "not get_option('oa')", 'x', 'y', 'not y',
                        "get_option('oa') and get_option('ob')", "get_option('ob') or y"])
        if c.startswith('not'):
            feats.add('not')
        if ' and ' in c or ' or ' in c:
            feats.add('andor')
        return c

    def reassign(ind: str) -> str:
        v = rng.choice(svars + [evar])
        p = epool if v == evar else pool
        if rng.random() < 0.45:
            feats.add('plusassign')
            return ind + '%s += [%s]' % (v, q(fresh(rng.randint(1, 2), p)))
        r = rng.random()
        if r < 0.15 and v != evar:
            feats.add('plus')
            return ind + '%s = %s + [%s]' % (v, v, q(fresh(1, p)))
        if r < 0.25 and v != evar:
            feats.add('ternary')
            return ind + "%s = get_option('oc') ? [%s] : [%s]" % (v, q(fresh(1, p)), q(fresh(1, p)))
        return ind + '%s = %s' % (v, (rng.choice(['[%s]', 'files(%s)']) if v != evar else '[%s]') % q(fresh(rng.randint(1, 2), p)))

    def target(ind: str) -> str:
        name = 'ft%d' % tcount[0]
        tcount[0] += 1
        targets.append(name)
        args = ["'%s'" % name]
        form = rng.random()
        v = rng.choice(svars)
        if form < 0.55:
            args.append(v)
        elif form < 0.75:
            args += [v] + ["'%s'" % s for s in fresh(1, pool)]
        elif form < 0.85 and len(svars) > 1:
            feats.add('plus')
            args.append('%s + %s' % (svars[0], svars[1]))
        else:
            args += ["'%s'" % s for s in fresh(rng.randint(1, 2), pool)]
        kws = []
        if rng.random() < 0.5:
            kws.append('extra_files: ' + rng.choice([evar, evar, '[%s]' % q(fresh(1, epool))]))
        if rng.random() < 0.4:
            kws.append('install: ' + rng.choice(['true', 'false']))
        func = rng.choice(['executable', 'library', 'static_library'])
        return ind + ('%s = ' % name if rng.random() < 0.7 else '') + '%s(%s)' % (func, ', '.join(args + kws))

    def body(ind: str, depth: int) -> T.List[str]:
        out = []
        for _ in range(rng.randint(1, 2)):
            r = rng.random()
            if r < 0.45:
                out.append(reassign(ind))
            elif r < 0.9 or depth >= 1:
                out.append(target(ind))
            else:
                out += clause(ind, depth + 1)
        return out

    def clause(ind: str, depth: int) -> T.List[str]:
        out = []
        kind = rng.choice(['if', 'ifelse', 'ifelse', 'ifelifelse', 'ifelif', 'foreach'])
        if kind == 'foreach':
            feats.add('foreach')
            out.append(ind + 'foreach it : %s' % rng.choice(["['p']", "['p', 'q']", '[]']))
            out += body(ind + '  ', depth)
            out.append(ind + 'endforeach')
            return out
        feats.add('if')
        out.append(ind + 'if ' + cond())
        out += body(ind + '  ', depth)
        if 'elif' in kind:
            for _ in range(1):
                out.append(ind + 'elif ' + cond())
                out += body(ind + '  ', depth)
        if kind.endswith('else'):
            out.append(ind + 'else')
            out += body(ind + '  ', depth)
        out.append(ind + 'endif')
        return out

    for _ in range(rng.randint(1, 2)):
        if rng.random() < 0.3:
            lines.append(target(''))
        lines += clause('', 0)
        if rng.random() < 0.7:
            lines.append(target(''))
    sub = None
    if rng.random() < 0.2:
        # the variable is shadowed / extended in a subdir() file, a target after it consumes it
        sub = 'sd'
        feats.add('subdir')
        lines.append("subdir('sd')")
        lines.append(target(''))
    if not targets:
        lines.append(target(''))
    files['meson.build'] = '\n'.join(lines) + '\n'
    if sub:
        v = rng.choice(svars)
        for f in list(files):
            if f.endswith(('.c', '.txt')):
                files[os.path.join(sub, f)] = ''
        sl = [rng.choice(['%s += files(%s)' % (v, q(fresh(1, pool))), "%s = files(%s)" % (v, q(fresh(2, pool)))]), 'sd_done = true']
        if rng.random() < 0.5:
            sl = ["if get_option('ob')", '  ' + sl[0], 'endif', sl[1]]
        files[os.path.join(sub, 'meson.build')] = '\n'.join(sl) + '\n'
    files['meson_options.txt'] = ''.join("option('%s', type: 'boolean', value: false)\n" % o for o in OPTS)
    # commands: every edit kind on targets wherever they are defined
    cmds: T.List[T.Dict[str, T.Any]] = []
    try:
        t0 = truth({f: t for f, t in files.items() if f.endswith('meson.build')})
    except Exception:
        t0 = []
    live = list(targets)
    for _ in range(ncmd):
        t = rng.choice(live)
        have_s = sorted({s for cfg in t0 if t in cfg for s in cfg[t]['src']})
        have_e = sorted({s for cfg in t0 if t in cfg for s in cfg[t]['extra']})
        r = rng.random()
        if r < 0.3:
            cmds.append({'type': 'target', 'target': t, 'operation': 'src_add', 'sources': rng.sample(['new0.c', 'new1.c'], rng.randint(1, 2))})
        elif r < 0.55 and have_s:
            cmds.append({'type': 'target', 'target': t, 'operation': 'src_rm', 'sources': rng.sample(have_s, 1)})
        elif r < 0.65:
            cmds.append({'type': 'target', 'target': t, 'operation': 'extra_files_add', 'sources': ['newe0.txt']})
        elif r < 0.75 and have_e:
            cmds.append({'type': 'target', 'target': t, 'operation': 'extra_files_rm', 'sources': rng.sample(have_e, 1)})
        elif r < 0.85:
            cmds.append({'type': 'kwargs', 'function': 'target', 'id': t, 'operation': rng.choice(['set', 'delete']),
                         'kwargs': {'install': True}})
            if cmds[-1]['operation'] == 'delete':
                cmds[-1]['kwargs'] = {'install': None}
        elif r < 0.93:
            cmds.append({'type': 'target', 'target': t, 'operation': 'info'})
        elif len(live) > 1:
            cmds.append({'type': 'target', 'target': t, 'operation': 'target_rm'})
            live.remove(t)
        else:
            cmds.append({'type': 'target', 'target': t, 'operation': 'info'})
    allfiles = sorted(f for f in files if f.endswith(('.c', '.txt')) and f != 'meson_options.txt')
    meta = {'targets': {}, 'deps': {}, 'project': {}, 'hazard': 'flow', 'pool': [], 'extra_pool': [], 'shared': [],
            'allfiles': allfiles, 'features': sorted(feats)}
    return {'files': files, 'cmds': cmds, 'meta': meta, 'mode': 'single', 'prints': False, 'cwd': 'outside', 'flow': True}


# ------------------------------------------------------------------------------------------------ shared-variable family

SHARED_CONSUMERS = ['none', 'plain-target', 'computed-name-target', 'variable-name-target', 'foreach-target', 'if-else-target',
                    'custom_target-input', 'install_data', 'derived-variable-target']
SHARED_LAYOUTS = ['list+own', 'files+own', 'list-plus-inline', 'via-derived-variable', 'list-only']


def shared_family() -> T.List[T.Dict[str, T.Any]]:
    """a source-list VARIABLE feeding the addressed target AND another consumer: layouts of the addressed target x kind of the
    other consumer (targets the analyser can and cannot name, control flow, non-target consumers) x consumer before / after the
    addressed target x add a new file / rm a file of the shared list / rm a file of the target's own. Judged by the ground-truth
    evaluator (flow_oracle): every OTHER consumer keeps its files in every configuration — or the command changes nothing."""
    out: T.List[T.Dict[str, T.Any]] = []
    allfiles = ['s0.c', 's1.c', 'main.c', 'bar.c', 't1.c', 't2.c', 'new0.c', 'own.c']
    for layout in SHARED_LAYOUTS:
        for cons in SHARED_CONSUMERS:
            for where in ('after', 'before'):
                for opname in ('add-new', 'rm-shared', 'rm-own'):
                    if layout == 'files+own' and cons in ('install_data',) and False:
                        continue
                    if opname == 'rm-own' and layout == 'list-only':
                        continue
                    lines = ["project('demo')"]
                    lines.append("shared = files('s0.c', 's1.c')" if layout == 'files+own' else "shared = ['s0.c', 's1.c']")
                    if layout in ('list+own', 'files+own'):
                        foo = ["foo = executable('foo', shared, 'main.c', 'own.c')"]
                    elif layout == 'list-plus-inline':
                        foo = ["foo = executable('foo', shared + ['main.c', 'own.c'])"]
                    elif layout == 'via-derived-variable':
                        foo = ["foo_srcs = shared + ['main.c', 'own.c']", "foo = executable('foo', foo_srcs)"]
                    else:
                        foo = ["foo = executable('foo', shared)"]
                    if cons == 'none':
                        other: T.List[str] = ["z = 1"]
                    elif cons == 'plain-target':
                        other = ["bar = executable('bar', shared, 'bar.c')"]
                    elif cons == 'computed-name-target':
                        other = ["tool = executable(meson.project_name() + '-tool', shared)"]
                    elif cons == 'variable-name-target':
                        other = ["nm = 'bar-' + 'x'", "executable(nm, shared, 'bar.c')"]
                    elif cons == 'foreach-target':
                        other = ["foreach n : ['t1', 't2']", "  executable(n, shared + [n + '.c'])", "endforeach"]
                    elif cons == 'if-else-target':
                        other = ["if get_option('oa')", "  executable('bar', shared)", "else", "  library('bar2', shared, 'bar.c')", "endif"]
                    elif cons == 'custom_target-input':
                        other = ["gen = custom_target('gen', input: shared, output: 'all.txt', command: ['cat', '@INPUT@'], capture: true)"]
                    elif cons == 'install_data':
                        other = ["install_data(shared, install_dir: 'share/demo')"]
                    else:
                        other = ["more = shared + ['bar.c']", "bar = static_library('bar', more)"]
                    body = (foo + other) if where == 'after' else (other + foo)
                    text = '\n'.join(lines + body + ['done = true']) + '\n'
                    if opname == 'add-new':
                        cmd = {'type': 'target', 'target': 'foo', 'operation': 'src_add', 'sources': ['new0.c']}
                    elif opname == 'rm-shared':
                        cmd = {'type': 'target', 'target': 'foo', 'operation': 'src_rm', 'sources': ['s0.c']}
                    else:
                        cmd = {'type': 'target', 'target': 'foo', 'operation': 'src_rm', 'sources': ['own.c']}
                    files = {f: '' for f in allfiles}
                    files['meson.build'] = text
                    files['meson_options.txt'] = ''.join("option('%s', type: 'boolean', value: false)\n" % o for o in OPTS)
                    out.append({'files': files, 'cmds': [cmd], 'mode': 'single', 'prints': False, 'cwd': 'outside', 'flow': True,
                                'script': False, 'shared_case': f'{layout}:{cons}:{where}:{opname}',
                                'meta': {'targets': {}, 'deps': {}, 'project': {}, 'hazard': 'flow', 'pool': [], 'extra_pool': [],
                                         'shared': [], 'allfiles': allfiles, 'features': []}})
    return out
