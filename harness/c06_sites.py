"""C06 — table of the places where configure-time code creates an *unordered* collection (or lists a directory /
iterates the environment), and which corpus project drives >= 3 distinct members through each one.

The source is scanned on every run (so a new `set(` in the scanned files shows up as `unclassified`); the
classification below is by (file, text fragment of the line), robust against line moves.

categories
  D  iterated (directly or after sorted()) on the way to generated text -> must be driven by the corpus
  M  never iterated into output: membership tests / set algebra / len / equality, constants, not code
  U  cannot be driven at configure time in this sandbox (reason given)
"""
from __future__ import annotations

import os
import re
import typing as T

from . import common

SCOPE = '''backend/ninjabackend.py backend/backends.py mintro.py modules/pkgconfig.py modules/cmake.py modules/python.py modules/fs.py
modules/keyval.py modules/sourceset.py modules/__init__.py coredata.py interpreter/interpreter.py interpreter/mesonmain.py
interpreter/interpreterobjects.py interpreter/dependencyfallbacks.py utils/universal.py utils/core.py depfile.py dependencies/base.py
dependencies/pkgconfig.py dependencies/detect.py build.py options.py compilers/compilers.py compilers/mixins/clike.py compilers/mixins/gnu.py
environment.py msetup.py mconf.py programs.py linkers/linkers.py linkers/detect.py arglist.py'''.split()

CREATE = re.compile(r"(^|[^A-Za-z_.])set\(|frozenset\(|defaultdict\(set\)|\{[^{}:'\"]+ for |os\.listdir|glob\.glob|os\.scandir|os\.walk|os\.environ(\.items|\.keys|\))")

# (file, fragment, category, detail)
REGISTRY: T.List[T.Tuple[str, str, str, str]] = [
    # ---- ninja backend
    ('backend/ninjabackend.py', 'self.deps: T.Set[str] = set()', 'D', 'every project (sorted in NinjaBuildElement.write); >=3 in p02 p03 p13'),
    ('backend/ninjabackend.py', 'self.orderdeps: T.Set[str] = set()', 'D', 'p03 p06 p13 (generated headers as order-only deps, >=3)'),
    ('backend/ninjabackend.py', 'self.all_outputs', 'M', 'membership (duplicate-output detection)'),
    ('backend/ninjabackend.py', 'self.all_pch', 'M', 'keys compared with a constant set'),
    ('backend/ninjabackend.py', 'set(self.all_pch.keys())', 'M', 'subset test'),
    ('backend/ninjabackend.py', 'self.all_structured_sources', 'U', 'rust structured_sources; no usable rust toolchain for meson in the sandbox'),
    ('backend/ninjabackend.py', 'langs = set(target.compilers.keys())', 'U', 'unity-build warning text only (mlog), not generated text'),
    ('backend/ninjabackend.py', 'infiles: T.Set[str] = set()', 'D', 'p16_langs (fortran dyndep scan inputs of 3 linked libraries; sorted)'),
    ('backend/ninjabackend.py', 'infiles.update({', 'D', 'p16_langs'),
    # ---- backends
    ('backend/backends.py', 'LANGS_CANT_UNITY', 'M', 'constant'),
    ('backend/backends.py', 'self.processed_targets', 'M', 'membership'),
    ('backend/backends.py', 'seen_generated: T.Set[str] = set()', 'M', '_determine_ext_objs: membership only (skip a generated source '
     'path already appended); the output order is that of extobj.genlist (repair 84c9e9d)'),
    ('backend/backends.py', 'results = set()', 'U', 'extract_dll_paths: Windows only'),
    ('backend/backends.py', 'prospectives: T.Set', 'U', 'determine_windows_extra_paths: Windows only'),
    ('backend/backends.py', 'internal_deps: T.Set[str] = set()', 'U', 'determine_windows_extra_paths: Windows only'),
    ('backend/backends.py', 'external_deps: T.Set[str] = set()', 'U', 'determine_windows_extra_paths: Windows only'),
    ('backend/backends.py', 'depends: T.Set[build.BuildTargetTypes] = set(t.depends)', 'D', 'p03 p13 (tests with 4-6 depends)'),
    ('backend/backends.py', 'ld_lib_path_libs', 'D', 'p02 (test linking shared libraries of 3 directories)'),
    ('backend/backends.py', 'ld_lib_path: T.Set[str] = set(', 'D', 'p02'),
    ('backend/backends.py', 'False, {}, set(),', 'M', 'empty rpath_dirs_to_remove literal'),
    ('backend/backends.py', 'TargetInstallData(f, outdir, outdir_name, False, {}, set()', 'M', 'empty literal'),
    ('backend/backends.py', 'extra_paths = set()', 'U', 'get_devenv: evaluated by `meson devenv`, not at configure time'),
    ('backend/backends.py', 'library_paths = set()', 'U', 'get_devenv: evaluated by `meson devenv`, not at configure time'),
    # ---- introspection
    ('mintro.py', 'dir_option_names = set(', 'M', 'membership'),
    ('mintro.py', 'build_files = frozenset(', 'M', 'constant, intersected'),
    ('mintro.py', 'os.walk(src_dir)', 'U', 'find_buildsystem_files_list: only `meson introspect <meson.build>` (from source), not configure'),
    ('mintro.py', "seen = set([''])", 'M', 'membership'),
    # ---- modules
    ('modules/pkgconfig.py', 'defaultdict(set)', 'D', 'p05 (one package with 3 version constraints in Requires, Requires.private, data-only)'),
    ('modules/pkgconfig.py', 'exclude: T.Set[str] = set()', 'M', 'membership (remove_dups)'),
    ('modules/pkgconfig.py', 'exclude = set()', 'M', 'membership (remove_dups)'),
    ('modules/pkgconfig.py', 'referenced_vars = set()', 'M', 'set difference + membership while iterating a fixed list'),
    ('modules/pkgconfig.py', 'varnames = set()', 'M', 'membership'),
    ('modules/pkgconfig.py', 'varstrings = set()', 'M', 'membership'),
    ('modules/cmake.py', 'set(PACKAGE_PREFIX_DIR', 'M', 'cmake text inside a template string'),
    ('modules/cmake.py', 'set(${_var}', 'M', 'cmake text inside a template string'),
    ('modules/cmake.py', 'in_set_validator(set(COMPATIBILITIES))', 'M', 'validator'),
    # ---- coredata / options / compilers
    ('coredata.py', 'return set(self.__cache.keys())', 'M', 'DependencyCache.languages... membership'),
    ('coredata.py', 'self.initialized_subprojects', 'M', 'membership'),
    ('coredata.py', 'FORBIDDEN_TARGET_NAMES', 'M', 'constant'),
    ('options.py', 'len(set(newvalue))', 'M', 'duplicate test'),
    ('options.py', 'self.subprojects: T.Set[str] = set()', 'M', 'membership'),
    ('options.py', 'self.project_options: T.Set[OptionKey] = set()', 'M', 'membership (is_project_option)'),
    ('options.py', 'self.module_options: T.Set[OptionKey] = set()', 'M', 'membership'),
    ('options.py', 'self.all_languages = set(', 'M', 'membership'),
    ('options.py', 'existing_augments = set(self.augments)', 'M', 'membership'),
    ('compilers/compilers.py', 'cpp_suffixes = set(', 'M', 'membership'),
    ('compilers/compilers.py', 'c_suffixes = set(', 'M', 'membership'),
    ('compilers/compilers.py', 'all_suffixes = set(', 'M', 'membership'),
    ('compilers/compilers.py', 'self.can_compile_suffixes = set(', 'M', 'membership'),
    ('compilers/compilers.py', 'self.base_options: T.Set[OptionKey] = set()', 'D', 'every project (about 15 base options for gcc) -> intro-buildoptions.json'),
    ('compilers/mixins/clike.py', 'os.listdir(d)', 'M', 'library-dir filter: any/all over the files of a directory, result order is that of `dirs`'),
    ('compilers/mixins/clike.py', 'glob.glob(f)', 'U', 'OpenBSD shared-library lookup'),
    # ---- interpreter
    ('interpreter/interpreter.py', 'self.relaxations = relaxations or set()', 'M', 'membership'),
    ('interpreter/interpreter.py', 'self.validated_cache', 'M', 'membership'),
    ('interpreter/interpreter.py', 'langs = set(self.compilers[for_machine])', 'M', 'membership; languages are processed in argument order'),
    ('interpreter/interpreter.py', 'internal: T.Set[Language] = set()', 'M', 'membership'),
    ('interpreter/interpreter.py', "exclude = (set(kwargs['exclude_files'])", 'D', 'p13 p08 (4-5 excludes) -> intro-install_plan.json'),
    ('interpreter/interpreter.py', 'any(os.listdir(srcdir))', 'M', 'emptiness test'),
    ('interpreter/interpreter.py', 'installablefiles: T.Set[Path] = set()', 'M', 'membership'),
    ('interpreter/interpreter.py', 'extra_valid_types or set()', 'M', 'membership (rust crate types)'),
    ('interpreter/interpreter.py', 'outputs: T.Set[str] = set()', 'U', 'structured_sources (rust) conflict check; membership'),
    # ---- utils
    ('utils/universal.py', 'abstracts = {n for n, v in namespace.items()', 'M', 'class machinery'),
    ('utils/universal.py', 'frozenset(abstracts)', 'M', 'class machinery; sorted for the message'),
    ('utils/universal.py', 'missing_variables: T.Set[str] = set()', 'U', 'only printed in a warning (mlog), not generated text'),
    ('utils/universal.py', 'os.walk(topdir)', 'M', '_make_tree_writable: chmod of every entry, order irrelevant; not configure time'),
    ('utils/core.py', 'self.varnames: T.Set[str] = set()', 'M', 'membership'),
    ('utils/core.py', 'self.unset_vars: T.Set[str] = set()', 'D', 'p12 (environment.unset of 2 names; removal commutes) -> test env'),
    ('utils/core.py', 'def set(self, name', 'M', 'method named set'),
    ('depfile.py', 'Target(deps=set())', 'D', 'p11 (depfiles with 3 branches x 3 deps) -> REGENERATE_BUILD inputs'),
    ('depfile.py', 'deps: T.Set[str] = set()', 'D', 'p11'),
    ('depfile.py', 'visited = set()', 'M', 'membership'),
    ('dependencies/detect.py', '_packages_accept_language', 'M', 'membership'),
    ('dependencies/detect.py', 'frozenset(listify(value))', 'D', 'p15 (dependency() with a 3-element list keyword): pickled cache key, sorted since 0cba8d8; checked through fresh-vs-reconfigure'),
    # ---- build.py
    ('build.py', 'self.targetnames', 'M', 'membership'),
    ('build.py', 'environment.is_cross_build(), set(), set())', 'M', 'searched_programs: membership'),
    ('build.py', 'self.modules: T.Set[str] = set()', 'M', 'recorded, never written'),
    ('build.py', 'if set(srcs) != set(cmpsrcs[comp])', 'M', 'equality'),
    ('build.py', '_MASK_LANGS', 'M', 'constant'),
    ('build.py', 'self.added_deps: T.Set', 'U', 'iterated only for vala (--target-glib); membership otherwise'),
    ('build.py', 'self.seen_sources', 'M', 'membership'),
    ('build.py', 'self.rpath_dirs_to_remove: T.Set[bytes] = set()', 'D', 'p02 p13 (sorted in intro-install_plan build_rpaths); install.dat is a pickle, not compared'),
    ('build.py', 'sources_set = set(self.sources)', 'M', 'membership'),
    ('build.py', 'generated_set = set(self.generated)', 'M', 'membership'),
    ('build.py', 'nonresults: T.Set', 'M', 'membership'),
    ('build.py', 'visited: T.Set[T.Tuple[BuildTargetTypes, bool, bool]] = set()', 'M', 'membership'),
    ('build.py', 'all_langs = set(self.compilers).union', 'D', 'p16_langs (c + cpp + fortran in one target: stdlib link args of the non-link languages)'),
    ('build.py', 'system_dirs = set()', 'M', 'membership'),
    ('build.py', 'paths.difference_update(', 'M', 'in-place removal from an OrderedSet'),
    ('build.py', 'dirs: T.Set[str] = set()', 'M', 'get_rpath_dirs_from_link_args: membership'),
    ('build.py', 'bdeps: T.Set', 'U', 'get_transitive_build_target_deps: consumed for Windows PATH only'),
    # ---- linkers / argument lists
    ('linkers/linkers.py', 'return ([], set())', 'M', 'empty rpath_dirs_to_remove literal'),
    ('linkers/linkers.py', 'return (args, set())', 'M', 'empty literal'),
    ('linkers/linkers.py', 'for p in rpath_paths], set())', 'M', 'empty literal'),
    ('linkers/linkers.py', 'rpath_dirs_to_remove: T.Set[bytes] = set()', 'D', 'p17_extlibs p02 p13 (build_rpath with 3 entries; sorted into intro-install_plan build_rpaths)'),
    ('arglist.py', 'pre_flush_set: T.Set[str] = set()', 'M', 'membership (dedup while walking ordered deques)'),
    ('arglist.py', 'post_flush_set: T.Set[str] = set()', 'M', 'membership'),
    # ---- environment / setup / configure
    ('environment.py', 'deprecated_properties', 'M', 'membership'),
    ('msetup.py', 'glob.glob(os.path.join(self.build_dir', 'M', '--wipe: backs up each matching file; operations commute'),
    ('msetup.py', 'os.listdir(self.build_dir)', 'M', '--wipe: deletes every entry; operations commute'),
    ('msetup.py', "glob.glob(os.path.join(private_dir, '*.ini'))", 'M', '--wipe (since 9538e11): files kept in meson-private; membership only (`p not in keep`)'),
    ('msetup.py', 'for p in os.listdir(l)', 'M', '--wipe (since 9538e11): deletes every entry of meson-private that is not kept; deletions commute'),
    ('msetup.py', 'if not os.listdir(build_dir)', 'M', 'emptiness test'),
    ('msetup.py', 'known_subprojects', 'M', 'membership'),
    ('msetup.py', 'mods = set(sys.modules.keys())', 'U', '--profile-self only; written sorted into meson-logs'),
    ('msetup.py', 'mesonmods = {mod for mod in mods', 'U', '--profile-self only; written sorted into meson-logs'),
    ('mconf.py', 'self.all_subprojects', 'U', '`meson configure` listing (stdout), iterated sorted'),
    ('mconf.py', 'dir_option_names = set(', 'M', 'membership'),
]


def scan() -> T.Dict[str, T.Any]:
    """-> {'rows': [(site, category, detail)], counts…}; site = 'file:line: text'"""
    rows: T.List[T.Tuple[str, str, str]] = []
    base = os.path.join(common.REPO, 'mesonbuild')
    for f in SCOPE:
        p = os.path.join(base, f)
        if not os.path.exists(p):
            rows.append((f, '?', 'file missing'))
            continue
        for i, line in enumerate(open(p, encoding='utf-8'), 1):
            s = line.strip()
            if s.startswith('#') or not CREATE.search(line):
                continue
            if 'OrderedSet' in line and not CREATE.search(line.replace('OrderedSet(', 'Ordered(')):
                continue
            cat, detail = '?', 'not reviewed'
            for rf, frag, c, d in REGISTRY:
                if rf == f and frag in line:
                    cat, detail = c, d
                    break
            rows.append((f'{f}:{i}: {s[:90]}', cat, detail))
    relevant = [r for r in rows if r[1] in ('D', 'U', '?')]
    return {
        'rows': rows,
        'total': len(relevant),
        'driven': sum(1 for r in rows if r[1] == 'D'),
        'unreachable': [r for r in rows if r[1] == 'U'],
        'unclassified': [r for r in rows if r[1] == '?'],
        'membership_only': sum(1 for r in rows if r[1] == 'M'),
    }


# ---------------------------------------------------------------------------------------------------------------
# ordered collections (OrderedSet / unique_list / dict keys) created on the way to LINK arguments: which corpus
# project reaches the function with >= 3 members.  Keyed by (file, function).

LINK_FILES = ['build.py', 'backend/backends.py', 'backend/ninjabackend.py', 'dependencies/pkgconfig.py', 'dependencies/base.py',
              'linkers/linkers.py', 'compilers/mixins/clike.py', 'arglist.py']
LINK_PAT = re.compile(r'OrderedSet\(|OrderedSet\[[^\]]*\]\s*=|dict\.fromkeys|unique_list\(|\.keys\(\)')

LINK_REGISTRY: T.Dict[T.Tuple[str, str], str] = {
    ('build.py', 'validate_sources'): 'error message only',
    ('build.py', 'get_all_link_deps'): 'p02 p17_extlibs (tests: shared libraries of 3 directories)',
    ('build.py', 'get_all_linked_targets'): 'p16_langs (3 fortran libraries linked)',
    ('build.py', 'get_link_dep_subdirs'): 'p02 (shared libraries in 3 subdirectories) p17_extlibs',
    ('build.py', 'get_dependencies'): 'p02 p09 p16_langs (3+ link_with libraries, transitive)',
    ('build.py', 'get_internal_static_libraries'): 'p02 (link_whole) p16_langs (3 static libraries)',
    ('build.py', 'determine_rpath_dirs'): 'p17_extlibs (4-10 rpath directories per target) p02',
    ('build.py', 'rpaths_for_non_system_absolute_shared_libraries'): 'p17_extlibs (4-10 external library directories, dependencies with their own -Wl,-rpath)',
    ('build.py', '__post_init__'): 'p16_langs (GeneratedList.depends: 3 custom targets)',
    ('build.py', 'keys'): 'ConfigurationData.keys: p04 (15 keys, sorted by the writers)',
    ('backend/backends.py', 'flatten_object_list'): 'p09 (extract_objects) p16_langs',
    ('backend/backends.py', 'determine_ext_objs'): 'p09 (extract_objects)',
    ('backend/backends.py', 'get_mingw_extra_paths'): 'not reachable: Windows/mingw only',
    ('backend/backends.py', 'get_regen_filelist'): 'p11_regen (about 45 build-definition files)',
    ('backend/ninjabackend.py', 'generate_target'): 'unity-build warning text only',
    ('backend/ninjabackend.py', 'determine_dep_vapis'): 'not reachable: vala',
    ('backend/ninjabackend.py', 'generate_vala_compile'): 'not reachable: vala',
    ('backend/ninjabackend.py', '_link_library'): 'not reachable: rust targets',
    ('backend/ninjabackend.py', 'generate_rust_target'): 'not reachable: rust targets',
    ('backend/ninjabackend.py', 'guess_external_link_dependencies'): 'p17_extlibs (declare_dependency link_args with 3 -L and 3 -l)',
    ('backend/ninjabackend.py', 'generate_clangtool'): 'subset test',
    ('dependencies/pkgconfig.py', '_search_libs'): 'p17_extlibs (.pc with 3 -L in non-sorted order and 3 -l; 7 packages)',
    ('linkers/linkers.py', 'build_rpath_args'): 'p17_extlibs (GNU ld: build_rpath/install_rpath with 3 entries + 4-10 directories); other linkers not available',
    ('compilers/compilers.py', None): 'constant',
}


def link_collections() -> T.List[T.Dict[str, str]]:
    rows: T.List[T.Dict[str, str]] = []
    base = os.path.join(common.REPO, 'mesonbuild')
    for f in LINK_FILES:
        p = os.path.join(base, f)
        if not os.path.exists(p):
            continue
        fn: T.Optional[str] = None
        seen: T.Set[T.Tuple[str, T.Optional[str]]] = set()
        for line in open(p, encoding='utf-8'):
            m = re.match(r'\s*def (\w+)', line)
            if m:
                fn = m.group(1)
            if LINK_PAT.search(line) and not line.strip().startswith('#') and (f, fn) not in seen:
                seen.add((f, fn))
                by = LINK_REGISTRY.get((f, fn))
                rows.append({'function': f'{f}:{fn}', 'reached_by': by or 'NOT REVIEWED'})
    return rows
