"""C15 -- the introspection files describe the build that was actually generated.

Per project and option combination one real `meson setup` (fake ninja on PATH) is run with an audit hook
(`harness/c15_site/sitecustomize.py`) that records which build-definition files the process opens.  Then

  (a) intro-targets.json          vs  build.ninja (statement outputs per target, inputs of compile statements)
  (b) intro-tests/benchmarks.json vs  meson-private/meson_{test,benchmark}_setup.dat (what `meson test` unpickles)
  (c) intro-buildoptions.json     vs  the values get_option() returned (printed with message() by the project itself)
  (d) intro-install_plan.json and intro-installed.json vs meson-private/install.dat (what `meson install` unpickles)
  (e) intro-buildsystem_files.json vs the set of build-definition files that were opened

Two independent evaluations of every agreement:
  * the Lean checkers of `MesonModel/Intro/Model.lean` (proved sound and complete for the relations in
    Props/C15.lean) on records extracted from the files -- build.ninja is parsed by the Lean manifest parser of
    the Ninja area when that driver is built, by a small Python reader otherwise;
  * Python predicates written from the property statement on the raw files (`oracle_*`, own build.ninja reader,
    own environment / destination arithmetic) -> ctx.violation.
A difference between the two is a ctx.disagreement.  Level: translation_validation (the project quantifier is
discharged per instance).
"""
from __future__ import annotations

import json
import os
import pickle
import random
import re
import shlex
import shutil
import subprocess
import sys
import time
import typing as T
from concurrent.futures import ThreadPoolExecutor

from . import common, projgen
from .common import Ctx, enc

ID = 'C15'
LEVEL = 'translation_validation'
LEAN_TARGETS = ['MesonModel.Props.C15']
AREAS = ['intro']
PINS = [
    'mesonbuild.mintro:list_targets', 'mesonbuild.mintro:get_test_list', 'mesonbuild.mintro:list_install_plan',
    'mesonbuild.mintro:list_installed', 'mesonbuild.mintro:_list_buildoptions', 'mesonbuild.mintro:list_buildsystem_files',
    'mesonbuild.mintro:generate_introspection_file', 'mesonbuild.mintro:list_tests', 'mesonbuild.mintro:list_benchmarks',
    'mesonbuild.backend.backends:Backend.get_introspection_data', 'mesonbuild.backend.backends:Backend.create_test_serialisation',
    'mesonbuild.backend.backends:Backend.create_install_data', 'mesonbuild.backend.backends:TargetInstallData',
    'mesonbuild.backend.backends:Backend.generate_target_install', 'mesonbuild.backend.backends:Backend.generate_header_install',
    'mesonbuild.backend.backends:Backend.generate_man_install', 'mesonbuild.backend.backends:Backend.generate_data_install',
    'mesonbuild.backend.backends:Backend.generate_subdir_install', 'mesonbuild.backend.backends:Backend.generate_symlink_install',
    'mesonbuild.backend.backends:Backend.generate_emptydir_install', 'mesonbuild.backend.backends:Backend.generate_depmf_install',
    'mesonbuild.backend.backends:Backend.generate_custom_install_script', 'mesonbuild.backend.backends:InstallDataBase',
    'mesonbuild.backend.backends:SubdirInstallData', 'mesonbuild.backend.backends:InstallSymlinkData',
    'mesonbuild.backend.backends:Backend.get_regen_filelist', 'mesonbuild.backend.backends:Backend.guess_install_tag',
    'mesonbuild.minstall:get_destdir_path', 'mesonbuild.minstall:Installer.install_targets', 'mesonbuild.minstall:Installer.install_headers',
    'mesonbuild.minstall:Installer.install_man', 'mesonbuild.minstall:Installer.install_data', 'mesonbuild.minstall:Installer.install_subdirs',
    'mesonbuild.minstall:Installer.should_install',
    'mesonbuild.backend.ninjabackend:NinjaBackend.get_introspection_data',
    'mesonbuild.backend.ninjabackend:NinjaBackend.create_target_source_introspection',
    'mesonbuild.utils.core:EnvironmentVariables',
    'mesonbuild.backend.backends:Backend.write_test_serialisation', 'mesonbuild.backend.backends:Backend.construct_target_rel_paths',
    'mesonbuild.backend.backends:Backend.get_target_filename', 'mesonbuild.backend.backends:Backend.get_exe_interpreter',
    'mesonbuild.backend.backends:TestSerialisation', 'mesonbuild.interpreter.interpreterobjects:Test',
    'mesonbuild.interpreter.interpreter:Interpreter.get_build_def_files', 'mesonbuild.interpreter.interpreter:Interpreter.do_subproject',
    'mesonbuild.interpreter.interpreter:Interpreter._do_subproject_meson', 'mesonbuild.interpreterbase.interpreterbase:InterpreterBase._load_option_file',
]
TRUSTED = [
    'extraction of flat records from the JSON / pickle files (harness/c15.py extract_*), os.path.normpath for making paths absolute',
    'the audit hook (sys.addaudithook "open" events) sees every file the meson process reads',
    'message() prints the value get_option() returned (\'@0@\'.format)',
    'Lean Ninja manifest parser (area ninja, C04) when available; Python reader otherwise',
    'fake ninja (answers --version only): no statement of build.ninja is executed',
    'harness/c15_ser.py Describer: reading the abstract test table (object identities, target kinds, link dependencies, environment '
    'objects and the lists they share) off the real Interpreter / Build objects',
]

CORPUS_DIR = os.path.join(common.VERIF, 'harness', 'c15_projects')
SITE_DIR = os.path.join(common.VERIF, 'harness', 'c15_site')

# ------------------------------------------------------------------------------------------------ project preparation

DIR_OPTS = ['prefix', 'bindir', 'libdir', 'includedir', 'datadir', 'mandir', 'libexecdir', 'localedir', 'sbindir',
            'infodir', 'sysconfdir', 'localstatedir', 'sharedstatedir', 'licensedir']
BUILTIN_OPTS = DIR_OPTS + ['buildtype', 'debug', 'optimization', 'default_library', 'warning_level', 'werror', 'unity',
                           'unity_size', 'strip', 'layout', 'backend', 'wrap_mode', 'errorlogs', 'stdsplit',
                           'default_both_libraries', 'prefer_static', 'force_fallback_for', 'pkg_config_path',
                           'c_std', 'c_args', 'c_link_args', 'b_ndebug', 'b_lto', 'b_staticpic', 'b_pie', 'b_asneeded',
                           'auto_features']
FEATURE_BUILTINS = {'auto_features'}
# per-machine options of the build machine (read in the top-level project; in a native build they are the host options)
BUILD_MACHINE_OPTS = ['build.c_args', 'build.pkg_config_path', 'build.c_link_args']
OPT_RE = re.compile(r"option\(\s*'([^']+)'\s*,\s*type\s*:\s*'(\w+)'([^\n]*)")


def msn(s: str) -> str:
    return "'" + s.replace('\\', '\\\\').replace("'", "\\'") + "'"


def parse_option_file(text: str) -> T.List[T.Tuple[str, str, bool]]:
    out = []
    for m in OPT_RE.finditer(text):
        out.append((m.group(1), m.group(2), bool(re.search(r'yield\s*:\s*true', m.group(3)))))
    return out


def optmsg_lines(sub: str, project_opts: T.List[T.Tuple[str, str, bool]]) -> T.List[str]:
    """meson statements printing `OPT|<sub>|<kind>|<name>|<value>` for every option the project can read"""
    lines = []

    def one(name, typ, kind):
        if typ == 'feature':
            val = f"'F:@0@,@1@'.format(get_option({msn(name)}).enabled(), get_option({msn(name)}).disabled())"
        else:
            val = f"get_option({msn(name)})"
        lines.append(f"message('OPT|@0@|{kind}|@1@|@2@'.format({msn(sub)}, {msn(name)}, {val}))")
    for name, typ, yielding in project_opts:
        one(name, typ, 'y' if yielding else 'p')
    for name in BUILTIN_OPTS + (BUILD_MACHINE_OPTS if sub == '' else []):
        one(name, 'feature' if name in FEATURE_BUILTINS else 'x', 'b')
    return lines


def inject_messages(files: T.Dict[str, str]) -> T.Dict[str, str]:
    """add the OPT messages behind the project() call of every (sub)project root meson.build"""
    out = dict(files)
    roots = {''}
    for p in files:
        parts = p.split('/')
        if len(parts) == 3 and parts[0] == 'subprojects' and parts[2] == 'meson.build':
            roots.add(parts[1])
    for sub in sorted(roots):
        root = '' if sub == '' else f'subprojects/{sub}/'
        mb = root + 'meson.build'
        if mb not in files:
            continue
        popts: T.List[T.Tuple[str, str, bool]] = []
        for of in ('meson.options', 'meson_options.txt'):
            if root + of in files:
                popts = parse_option_file(files[root + of])
                break
        block = '\n'.join(optmsg_lines(sub, popts)) + '\n'
        text = files[mb]
        if '# OPTMSG' in text:
            text = text.replace('# OPTMSG', block, 1)
        else:
            # projgen: project(...) is the first line
            first, _, rest = text.partition('\n')
            text = first + '\n' + block + rest
        out[mb] = text
    return out


def read_tree(root: str) -> T.Dict[str, str]:
    files = {}
    for d, _, fs in os.walk(root):
        for f in fs:
            p = os.path.join(d, f)
            with open(p, encoding='utf-8') as fh:
                files[os.path.relpath(p, root)] = fh.read()
    return files


def write_tree(root: str, files: T.Dict[str, str]) -> None:
    for rel, text in files.items():
        p = os.path.join(root, rel)
        os.makedirs(os.path.dirname(p), exist_ok=True)
        with open(p, 'w', encoding='utf-8') as fh:
            fh.write(text)
        if rel.endswith(('.py', '.sh')):
            os.chmod(p, 0o755)
    for d in files.get('__emptydirs__', '').split('\n'):
        if d:
            os.makedirs(os.path.join(root, d), exist_ok=True)


ROOT_OPTION_POOL = [
    "option('str', type: 'string', value: 'dflt')",
    "option('flag', type: 'boolean', value: true)",
    "option('num', type: 'integer', value: 3, min: 0, max: 10)",
    "option('c', type: 'combo', choices: ['a', 'b', 'c'], value: 'a')",
    "option('arr', type: 'array', value: ['x', 'y'])",
    "option('feat', type: 'feature', value: 'auto')",
    "option('ystr', type: 'string', value: 'parent-ystr')",
]
SUB_OPTION_POOL = [
    "option('c', type: 'combo', choices: ['a', 'b', 'c'], value: 'b', yield: true)",
    "option('ystr', type: 'string', value: 'sub-ystr', yield: true)",
    "option('str', type: 'string', value: 'sub-own')",
    "option('sflag', type: 'boolean', value: false)",
    "option('noparent', type: 'string', value: 'own', yield: true)",
    "option('snum', type: 'integer', value: 5)",
]
ROOT_OPT_ARGS = [['-Dstr=changed'], ['-Dflag=false'], ['-Dnum=7'], ['-Dc=c'], ['-Darr=p,q,r'], ['-Dfeat=enabled'],
                 ['-Dystr=set-on-cmdline'], ['-Dc=b']]


OPT_DIRS = ["get_option('includedir')", "get_option('datadir') / 'g@N@'", "get_option('bindir')", "get_option('libdir') / 'g@N@'",
            "get_option('libexecdir')", "get_option('sysconfdir') / 'g@N@'", "get_option('mandir') / 'x@N@'", "get_option('datadir')"]
LIT_DIRS = ["'lit/g@N@'", "'/abs/g@N@'", "'share/lit@N@'", "'include'"]


def install_block(rng: random.Random, root: str, files: T.Dict[str, str]) -> T.List[str]:
    """install rules of every shape with a different, randomly option-derived or literal, destination per output"""
    n = [0]
    w = 's' if root else 'r'   # output names differ between the projects (layout=flat puts them into one directory)

    def d() -> str:
        n[0] += 1
        return rng.choice(OPT_DIRS if rng.random() < 0.55 else LIT_DIRS).replace('@N@', str(n[0]))
    lines = []
    for k in range(rng.randint(1, 2)):
        nout = rng.randint(2, 4)
        outs = [f'c15x{w}{k}_{i}.' + rng.choice(['h', 'dat', 'txt', 'so', 'bin']) for i in range(nout)]
        dirs = [('false' if rng.random() < 0.2 else d()) for _ in range(nout)]
        if all(x == 'false' for x in dirs):
            dirs[rng.randrange(nout)] = d()
        kw = f"install: true, install_dir: [{', '.join(dirs)}]"
        if rng.random() < 0.6:
            tags = [rng.choice(["'devel'", "'runtime'", f"'t{i}'", 'false']) for i in range(nout)]
            kw += f", install_tag: [{', '.join(tags)}]"
        if rng.random() < 0.3:
            kw += ", install_mode: 'rw-r-----'"
        lines.append(f"custom_target('c15x-{w}ct{k}', output: [{', '.join(msn(o) for o in outs)}], command: [gen, '@OUTPUT@'], {kw})")
    files[root + 'c15x-a.txt'] = 'a\n'
    files[root + 'c15x-b.txt'] = 'b\n'
    files[root + 'c15x.h'] = '/* h */\n'
    files[root + 'c15xdir/c15x2.h'] = '/* h2 */\n'
    files[root + 'c15x.3'] = '.TH X\n'
    files[root + 'c15x.de.3'] = '.TH X\n'
    files[root + 'c15xtree/f.txt'] = 'f\n'
    files[root + 'c15xtree/in/g.txt'] = 'g\n'
    lines.append(f"install_data('c15x-a.txt', 'c15x-b.txt', install_dir: {d()}" + (", rename: ['ra.txt', 'd/rb.txt']" if rng.random() < 0.5 else '') +
                 (", install_tag: 'dtag'" if rng.random() < 0.5 else '') + ')')
    r = rng.random()
    lines.append("install_headers('c15x.h', 'c15xdir/c15x2.h'" + (", subdir: 'c15sub'" if r < 0.4 else f", install_dir: {d()}" if r < 0.7 else '') +
                 (', preserve_path: true' if rng.random() < 0.5 else '') + ')')
    lines.append("install_man('c15x.3'" + (", locale: 'de'" if rng.random() < 0.5 else '') + (f", install_dir: {d()}" if rng.random() < 0.3 else '') + ')')
    if rng.random() < 0.6:   # the locale is part of the file name and is stripped on installation
        lines.append("install_man('c15x.de.3', locale: 'de'" + (f", install_dir: {d()}" if rng.random() < 0.3 else '') + ')')
    lines.append(f"install_subdir('c15xtree', install_dir: {d()}" + (', strip_directory: true' if rng.random() < 0.5 else '') +
                 (", exclude_files: ['in/g.txt']" if rng.random() < 0.4 else '') + (", install_tag: 'tree'" if rng.random() < 0.4 else '') + ')')
    if rng.random() < 0.5:
        lines.append(f"install_emptydir({d()} / 'c15empty')")
    if rng.random() < 0.5:
        lines.append(f"install_symlink('c15link', pointing_to: 'ra.txt', install_dir: {d()})")
    return lines


def mixed_block(rng: random.Random, files: T.Dict[str, str]) -> T.List[str]:
    """targets mixing C, C++ and assembler sources, with and without per-language arguments"""
    files['c15x_m.c'] = 'int main(void) { return 0; }\n'
    files['c15x_l.c'] = 'int c15x_lc(void) { return 0; }\n'
    files['c15x_p.cpp'] = 'int c15x_p() { return 0; }\n'
    files['c15x_q.cpp'] = 'int c15x_q() { return 1; }\n'
    files['c15x_s.S'] = '.text\n'
    lines = ["add_languages('cpp', native: false)"]
    for k in range(rng.randint(1, 3)):
        fn = rng.choice(['executable', 'static_library', 'shared_library', 'both_libraries'])
        srcs = (["'c15x_m.c'"] if fn == 'executable' else ["'c15x_l.c'"]) + ["'c15x_p.cpp'"]
        if rng.random() < 0.4:
            srcs.append("'c15x_q.cpp'")
        if rng.random() < 0.3:
            srcs.append("'c15x_s.S'")
        kws = []
        r = rng.random()
        if r < 0.3:
            kws += ["c_args: ['-DC15_C']", "cpp_args: ['-DC15_CPP']"]
        elif r < 0.5:
            kws += ["c_args: ['-DC15_SAME']", "cpp_args: ['-DC15_SAME']"]
        elif r < 0.6:
            kws += ["cpp_args: ['-DC15_ONLY=\"x y\"']"]
        lines.append(f"{fn}('c15x-mix{k}', {', '.join(srcs + kws)})")
    return lines


MIXED_ARGS = [['-Db_ndebug=true'], ['-Dbuildtype=release', '-Db_ndebug=if-release'], ['-Dcpp_std=c++14', '-Db_ndebug=true'], [],
              ['-Dwarning_level=3', '-Db_ndebug=true'], ['-Dc_std=gnu99']]


def augment_generated(rng: random.Random, spec: dict) -> T.Tuple[T.Dict[str, str], T.List[str]]:
    """options files, install rules and mixed-language targets for a projgen project (+ option arguments that fit them)"""
    files = dict(spec['files'])
    mixed_args: T.List[str] = []
    if rng.random() < 0.5:
        files['meson.build'] = files['meson.build'].rstrip('\n') + '\n' + '\n'.join(mixed_block(rng, files)) + '\n'
        mixed_args = rng.choice(MIXED_ARGS)
    roots = [''] + ([f"subprojects/{spec['subproject']}/"] if spec.get('subproject') else [])
    for root in roots:
        if rng.random() < 0.8 and "find_program('gen.py')" in files.get(root + 'meson.build', ''):
            files[root + 'meson.build'] = files[root + 'meson.build'].rstrip('\n') + '\n' + '\n'.join(install_block(rng, root, files)) + '\n'
    ropts = [o for o in ROOT_OPTION_POOL if rng.random() < 0.7]
    args: T.List[str] = []
    if ropts:
        files[rng.choice(['meson.options', 'meson_options.txt'])] = '\n'.join(ropts) + '\n'
        names = {parse_option_file(o)[0][0] for o in ropts}
        for a in ROOT_OPT_ARGS:
            if a[0][2:].split('=')[0] in names and rng.random() < 0.3:
                if not any(x.split('=')[0] == a[0].split('=')[0] for x in args):
                    args += a
    sub = spec.get('subproject')
    if sub:
        sopts = [o for o in SUB_OPTION_POOL if rng.random() < 0.6]
        if sopts:
            files[f'subprojects/{sub}/' + rng.choice(['meson.options', 'meson_options.txt'])] = '\n'.join(sopts) + '\n'
            snames = {parse_option_file(o)[0][0] for o in sopts}
            if 'str' in snames and rng.random() < 0.4:
                args.append(f'-D{sub}:str=sub-set')
            if 'snum' in snames and rng.random() < 0.4:
                args.append(f'-D{sub}:snum=9')
            if 'sflag' in snames and rng.random() < 0.5:
                args.append(f'-D{sub}:sflag=true')
            if 'noparent' in snames and rng.random() < 0.3:
                args.append(f'-D{sub}:noparent=given')
        r = rng.random()
        if rng.random() < 0.3:
            args += rng.choice([['--prefix=/opt/g', '--includedir=inc', '--datadir=/abs/share'], ['--libdir=lib64', '--bindir=b', '--mandir=mm'],
                                ['--sysconfdir=/etc/g', '--libexecdir=lx']])
        if r < 0.2:
            args.append(f'-D{sub}:default_library=static')
        elif r < 0.3:
            args.append(f'-D{sub}:werror=true')
        elif r < 0.4:
            args.append(f'-D{sub}:warning_level=3')
    args += addressing_args(rng, sub)
    return inject_messages(files), args + mixed_args


ADDRESSED = [('warning_level', ['0', '1', '2', '3']), ('werror', ['true', 'false']), ('optimization', ['0', '1', '2', '3', 's']),
             ('b_ndebug', ['true', 'false', 'if-release']), ('strip', ['true', 'false']), ('b_lto', ['true', 'false']), ('c_std', ['c99', 'c11', 'gnu99'])]


def addressing_args(rng: random.Random, sub: T.Optional[str]) -> T.List[str]:
    """one option set through the three addressing forms -- global `name`, top-level-only `:name`, `sub:name` -- with pairwise different values"""
    out: T.List[str] = []
    for name, values in rng.sample(ADDRESSED, rng.randint(1, 3)):
        vals = rng.sample(values, min(len(values), 3))
        forms = ['', ':'] + ([sub + ':'] if sub else [])
        for form, v in zip(rng.sample(forms, rng.randint(1, len(forms))), vals):
            out.append(f'-D{form}{name}={v}')
    return out


# ------------------------------------------------------------------------------------------------ running meson

def configure(srcdir: str, builddir: str, args: T.Sequence[str], trace_log: str, extra_traced: T.Sequence[str] = ()) -> dict:
    e = dict(os.environ)
    e['PATH'] = projgen.FAKEBIN + os.pathsep + e.get('PATH', '')
    e['PYTHONPATH'] = common.REPO + os.pathsep + SITE_DIR
    e['PYTHONDONTWRITEBYTECODE'] = '1'
    e.setdefault('PYTHONHASHSEED', '0')
    e['C15_TRACE_LOG'] = trace_log
    e['C15_TRACE_SRC'] = srcdir
    e['C15_TRACE_EXTRA'] = os.pathsep.join(extra_traced)
    for k in ('MESON_RSP_THRESHOLD', 'NINJA', 'CC', 'CFLAGS', 'LDFLAGS', 'DESTDIR', 'CPPFLAGS', 'PKG_CONFIG_PATH'):
        e.pop(k, None)
    cmd = [sys.executable, os.path.join(common.REPO, 'meson.py'), 'setup', srcdir, builddir] + list(args)
    t0 = time.time()
    try:
        p = subprocess.run(cmd, env=e, stdout=subprocess.PIPE, stderr=subprocess.STDOUT, timeout=300, cwd=os.path.dirname(builddir))
        rc, out = p.returncode, p.stdout.decode('utf-8', errors='replace')
    except subprocess.TimeoutExpired as ex:
        rc, out = -9, (ex.stdout or b'').decode('utf-8', errors='replace')
    return {'rc': rc, 'ok': rc == 0 and os.path.exists(os.path.join(builddir, 'build.ninja')), 'out': out,
            'wall': round(time.time() - t0, 2)}


MACHINE_FILES = {
    'native.ini': "[built-in options]\nwarning_level = '1'\nc_args = ['-DFROM_NATIVE']\n[properties]\nnativeprop = 'from-native'\n",
    'native2.ini': "[built-in options]\npkg_config_path = '/native2/pc'\n[properties]\nnative2prop = 'from-native2'\n",
    # a "cross" build for this very machine: host == build, nothing needs a wrapper
    'cross.ini': "[binaries]\nc = 'gcc'\ncpp = 'g++'\nar = 'ar'\nstrip = 'strip'\n[host_machine]\nsystem = 'linux'\ncpu_family = 'x86_64'\n"
                 "cpu = 'x86_64'\nendian = 'little'\n[properties]\nneeds_exe_wrapper = false\ncrossprop = 'from-cross'\n"
                 "[built-in options]\nc_args = ['-DFROM_CROSS']\nc_link_args = ['-Wl,--as-needed']\n",
}
# the configuration matrix of machine files: name -> [(flag, file)]
MACHINE_MATRIX = {
    'none': [],
    'native': [('--native-file', 'native.ini')],
    'native2': [('--native-file', 'native.ini'), ('--native-file', 'native2.ini')],
    'cross': [('--cross-file', 'cross.ini')],
    'cross+native': [('--cross-file', 'cross.ini'), ('--native-file', 'native.ini')],
}


def machine_of(job: dict) -> str:
    m = job.get('machine')
    if m is None:
        m = 'native' if job.get('native') else 'none'
    return m


def run_job(job: dict, scratch: str) -> dict:
    """materialise, configure, extract.  Returns the raw material of one case."""
    jd = os.path.join(scratch, job['id'])
    src = os.path.join(jd, 'src')
    bld = os.path.join(jd, 'b')
    os.makedirs(src)
    write_tree(src, job['files'])
    for d in job.get('emptydirs', []):
        os.makedirs(os.path.join(src, d), exist_ok=True)
    args = list(job['args'])
    extra = []
    for flag, fname in MACHINE_MATRIX[machine_of(job)]:
        nf = os.path.join(jd, fname)
        with open(nf, 'w') as fh:
            fh.write(MACHINE_FILES[fname])
        args += [flag, nf]
        extra.append(nf)
    trace = os.path.join(jd, 'trace.log')
    r = configure(src, bld, args, trace, extra)
    res = {'job': {k: v for k, v in job.items() if k != 'files'}, 'ok': r['ok'], 'rc': r['rc'], 'wall': r['wall'], 'src': src, 'bld': bld}
    if not r['ok']:
        res['out_tail'] = r['out'][-1500:]
        return res
    try:
        raw = extract(src, bld, r['out'], trace, extra)
        res['raw'] = raw
        res['oracle'] = oracle_all(raw)
        if job.get('real_install'):
            res['oracle']['real_install'] = oracle_real_install(raw, jd)
        if job.get('real_tests'):
            res['oracle']['real_tests'] = oracle_real_tests(raw, jd)
        if job.get('conf_args'):
            err = second_phase(raw, bld, job['conf_args'])
            if err is None:
                res['oracle']['options_conf'] = oracle_options(raw, raw['conf_rows'], raw['reconf_observed'], ':after-meson-configure')
                res['oracle']['options_reconf'] = oracle_options(raw, raw['reconf_rows'], raw['reconf_observed'], ':after-reconfigure')
            else:
                res['second_phase_error'] = err
        res['lean'] = lean_requests(raw)
    except Exception as ex:  # extraction must not die silently
        import traceback
        res['ok'] = False
        res['out_tail'] = 'extract failed: ' + ''.join(traceback.format_exception(type(ex), ex, ex.__traceback__))[-2500:]
    return res


# ------------------------------------------------------------------------------------------------ extraction

def load_json(bld: str, name: str) -> T.Any:
    with open(os.path.join(bld, 'meson-info', name), encoding='utf-8') as fh:
        return json.load(fh)


def unpickle(path: str) -> T.Any:
    # sys.path has common.REPO first (harness/common.py), so the classes resolve to the tree under test
    with open(path, 'rb') as fh:
        return pickle.load(fh)


def ser_tests(path: str) -> T.List[dict]:
    out = []
    for t in unpickle(path):
        env = t.env
        ops = []
        if hasattr(env, 'envvars'):
            for method, name, values, sep in env.envvars:
                ops.append([method.__name__.lstrip('_'), name, list(values), sep])
            unset = sorted(getattr(env, 'unset_vars', ()))
        else:
            ops = [['set', k, [v], ':'] for k, v in dict(env).items()]
            unset = []
        out.append({'name': t.name, 'fname': [t.fname] if isinstance(t.fname, str) else list(t.fname), 'cmd_args': list(t.cmd_args),
                    'env': ops, 'unset': unset, 'workdir': t.workdir, 'timeout': t.timeout, 'suite': list(t.suite),
                    'is_parallel': t.is_parallel, 'priority': t.priority, 'protocol': str(t.protocol), 'depends': list(t.depends),
                    'extra_paths': list(t.extra_paths)})
    return out


def install_records(path: str) -> dict:
    d = unpickle(path)
    recs = []
    for t in d.targets:
        recs.append({'kind': 't', 'dtype': '', 'path': os.path.join(d.build_dir, t.fname), 'ipath': t.outdir, 'tag': t.tag or '',
                     'sub': t.subproject or '', 'install_rpath': t.install_rpath or None})
    for kind, lst in (('d', d.data), ('h', d.headers), ('m', d.man), ('s', d.install_subdirs)):
        for i in lst:
            recs.append({'kind': kind, 'dtype': i.data_type or '', 'path': i.path, 'ipath': i.install_path, 'tag': i.tag or '',
                         'sub': i.subproject or ''})
            if kind == 's':
                ex = i.exclude or (set(), set())
                recs[-1]['exclude_files'] = sorted(ex[0])
                recs[-1]['exclude_dirs'] = sorted(ex[1])
    for s in d.symlinks:
        recs.append({'kind': 'l', 'dtype': '', 'path': s.name, 'ipath': s.install_path, 'tag': s.tag or '', 'sub': s.subproject or ''})
    return {'prefix': d.prefix, 'build_dir': d.build_dir, 'source_dir': d.source_dir, 'recs': recs,
            'emptydirs': [e.path for e in d.emptydir]}


MSG_RE = re.compile(r'Message: OPT\|([^|]*)\|([bpy])\|([^|]*)\|(.*)$')


def parse_observed(out: str) -> T.List[dict]:
    obs = []
    for line in out.split('\n'):
        m = MSG_RE.search(line)
        if m:
            val = m.group(4)
            if val.startswith('F:'):
                val = {'F:true,false': 'enabled', 'F:false,true': 'disabled', 'F:false,false': 'auto'}[val]
            obs.append({'sub': m.group(1), 'kind': m.group(2), 'name': m.group(3), 'value': val})
    return obs


def meson_cmd(args: T.List[str], cwd: str) -> T.Tuple[int, str]:
    e = dict(os.environ)
    e['PATH'] = projgen.FAKEBIN + os.pathsep + e.get('PATH', '')
    e['PYTHONPATH'] = common.REPO
    e['PYTHONDONTWRITEBYTECODE'] = '1'
    e.setdefault('PYTHONHASHSEED', '0')
    for k in ('MESON_RSP_THRESHOLD', 'NINJA', 'CC', 'CFLAGS', 'LDFLAGS', 'DESTDIR', 'CPPFLAGS', 'PKG_CONFIG_PATH'):
        e.pop(k, None)
    p = subprocess.run([sys.executable, os.path.join(common.REPO, 'meson.py')] + args, env=e, stdout=subprocess.PIPE, stderr=subprocess.PIPE,
                       timeout=300, cwd=cwd)
    return p.returncode, p.stdout.decode('utf-8', 'replace') + ('' if p.returncode == 0 else p.stderr.decode('utf-8', 'replace'))


def second_phase(raw: dict, bld: str, conf_args: T.List[str]) -> T.Optional[str]:
    """`meson configure <args>`, then the rows `meson introspect --buildoptions` shows (written by mintro.update_build_options), then a
    reconfigure in which the projects print what get_option() returns now, and the rows written by that setup run"""
    rc, out = meson_cmd(['configure', bld] + conf_args, os.path.dirname(bld))
    if rc != 0:
        return 'meson configure failed: ' + out[-400:]
    rc, out = meson_cmd(['introspect', '--buildoptions', bld], os.path.dirname(bld))
    if rc != 0:
        return 'meson introspect failed: ' + out[-400:]
    raw['conf_rows'] = json.loads(out)
    rc, out = meson_cmd(['setup', '--reconfigure', raw['src'], bld], os.path.dirname(bld))
    if rc != 0:
        return 'meson setup --reconfigure failed: ' + out[-400:]
    raw['reconf_observed'] = parse_observed(out)
    raw['reconf_rows'] = load_json(bld, 'intro-buildoptions.json')
    raw['conf_args'] = conf_args
    return None


def extract(src: str, bld: str, out: str, trace: str, machine_files: T.Sequence[str] = ()) -> dict:
    raw: dict = {'src': src, 'bld': bld, 'machine_files': list(machine_files)}
    with open(os.path.join(bld, 'build.ninja'), encoding='utf-8') as fh:
        raw['ninja'] = fh.read()
    for k in ('targets', 'tests', 'benchmarks', 'buildoptions', 'install_plan', 'installed', 'buildsystem_files'):
        raw[k] = load_json(bld, f'intro-{k}.json')
    raw['ser_tests'] = ser_tests(os.path.join(bld, 'meson-private', 'meson_test_setup.dat'))
    raw['ser_benchmarks'] = ser_tests(os.path.join(bld, 'meson-private', 'meson_benchmark_setup.dat'))
    raw['install'] = install_records(os.path.join(bld, 'meson-private', 'install.dat'))
    raw['observed'] = parse_observed(out)
    opened = []
    if os.path.exists(trace):
        with open(trace, encoding='utf-8') as fh:
            for line in fh:
                if line.strip():
                    rec = json.loads(line)
                    if rec.get('mode') is None or 'r' in rec['mode'] or rec['mode'] == '':
                        opened.append(rec['path'])
    raw['opened'] = opened
    return raw


def canon_value(v: T.Any) -> str:
    """how '@0@'.format(v) prints the value of an option"""
    if isinstance(v, bool):
        return 'true' if v else 'false'
    if isinstance(v, int):
        return str(v)
    if isinstance(v, list):
        return '[' + ', '.join("'" + str(x) + "'" for x in v) + ']'
    return str(v)


def scalar(v: T.Any) -> str:
    return 'None' if v is None else str(v)


TKIND = {'executable': 'b', 'static library': 'b', 'shared library': 'b', 'shared module': 'b', 'custom': 'c', 'run': 'p', 'alias': 'p'}


BUILD_DEF_NAMES = ('meson.build', 'meson.options', 'meson_options.txt')


def is_build_def(raw: dict, p: str) -> bool:
    """meson.build / option files anywhere, and the machine files given on the command line"""
    return os.path.basename(p) in BUILD_DEF_NAMES or p in raw['machine_files']


def absn(bld: str, p: str) -> str:
    return os.path.normpath(os.path.join(bld, p))


# ------------------------------------------------------------------------------------------------ requests for the Lean checkers

def S(s: str) -> str:
    return 's ' + enc(s) if s else 's'


def L(l: T.Iterable[str]) -> str:
    return ','.join(S(x) for x in l)


def lean_requests(raw: dict) -> dict:
    """protocol lines for mvdriver-intro; `edges` is filled in later by the main process when the Lean manifest parser is used"""
    bld = raw['bld']
    targets = []
    for t in raw['targets']:
        files = list(t['filename'])
        srcs: T.List[str] = []
        for b in t['target_sources']:
            if 'sources' in b:
                srcs += b['sources'] + b.get('generated_sources', [])
        priv = (files[0] + '.p/') if files else ''
        groups = '&'.join(':'.join([S(b['language']), L(b['compiler']), L(canon_param(bld, w) for w in b['parameters']),
                                    L(b['sources'] + b.get('generated_sources', []))])
                          for b in t['target_sources'] if 'language' in b and 'sources' in b)
        targets.append(';'.join([S(t['id']), TKIND.get(t['type'], 'o'), L(files), S(priv), L(srcs), groups]))
    req = {'targets': '/'.join(targets)}

    def intro_tests(lst):
        out = []
        for t in lst:
            env = '&'.join(S(k) + ':' + S(v) for k, v in t['env'].items())
            out.append(';'.join([S(t['name']), L(t['cmd']), env, S(scalar(t['workdir'])), S(scalar(t['timeout'])), L(t['suite']),
                                 S(scalar(t['is_parallel'])), S(scalar(t['priority'])), S(t['protocol']), L(t['depends']),
                                 L(t['extra_paths'])]))
        return '/'.join(out)

    def sers(lst):
        out = []
        for t in lst:
            env = '&'.join(':'.join([o[0], S(o[1]), L(o[2]), S(o[3])]) for o in t['env'])
            out.append(';'.join([S(t['name']), L(t['fname']), L(t['cmd_args']), env, S(scalar(t['workdir'])), S(scalar(t['timeout'])),
                                 L(t['suite']), S(scalar(t['is_parallel'])), S(scalar(t['priority'])), S(t['protocol']),
                                 L(t['depends']), L(t['extra_paths'])]))
        return '/'.join(out)
    ids = L(t['id'] for t in raw['targets'])
    req['tests'] = f"tests {intro_tests(raw['tests'])}|{sers(raw['ser_tests'])}|{ids}"
    req['benchmarks'] = f"tests {intro_tests(raw['benchmarks'])}|{sers(raw['ser_benchmarks'])}|{ids}"

    # install: the placeholders mean the directory options the top-level project read
    top = {o['name']: o['value'] for o in raw['observed'] if o['sub'] == ''}
    dirs = {k: top[k] for k in DIR_OPTS if k in top and k != 'prefix'}
    if 'libdir' in dirs:
        dirs['libdir_shared'] = dirs['libdir_static'] = dirs['moduledir_shared'] = dirs['libdir']
    inst = raw['install']
    plan = []
    for sect, entries in raw['install_plan'].items():
        for path, e in entries.items():
            plan.append(';'.join([S(sect), S(path), S(e['destination']), S(e.get('tag') or ''), S(e.get('subproject') or '')]))
    installed = [S(k) + ';' + S(v) for k, v in raw['installed'].items()]

    def rec(r):
        return ';'.join([r['kind'], S(r['dtype']), S(r['path']), S(r['ipath']), S(r['tag']), S(r['sub'])])
    prs = [rec(r) for r in inst['recs'] if r['kind'] != 'l']
    irs = [rec(r) for r in inst['recs']]
    req['install'] = ('install ' + '&'.join(S(k) + ':' + S(v) for k, v in dirs.items()) + '|' + S(inst['prefix']) + '|' +
                      '/'.join(plan) + '|' + '/'.join(installed) + '|' + '/'.join(prs) + '|' + '/'.join(irs))
    def options_request(rows_json, observed):
        rows = [S(r['name']) + ';' + S(canon_value(r['value'])) for r in rows_json]
        obs = [';'.join([S(o['sub']), S(o['name']), '1' if o['kind'] == 'b' else '0', S(o['value'])]) for o in observed]
        return 'options ' + '/'.join(rows) + '|' + '/'.join(obs)
    req['options'] = options_request(raw['buildoptions'], raw['observed'])
    if 'reconf_observed' in raw:
        req['options_conf'] = options_request(raw['conf_rows'], raw['reconf_observed'])
        req['options_reconf'] = options_request(raw['reconf_rows'], raw['reconf_observed'])
    req['files'] = 'files ' + L(f for f in raw['buildsystem_files'] if is_build_def(raw, f)) + '|' + L(f for f in raw['opened'] if is_build_def(raw, f))
    return req


def edges_field(bld: str, edges: T.List[dict], rule_commands: T.Dict[str, str]) -> str:
    return '/'.join(';'.join([S(e['rule']), L(absn(bld, o) for o in e['outs']), L(absn(bld, i) for i in e['ins']),
                              L(compiler_words(rule_commands.get(e['rule']))),
                              L(canon_param(bld, w) for w in args_words(e['binds'].get('ARGS')))]) for e in edges)


def lean_parse_manifests(texts: T.List[str]) -> T.Optional[T.List[T.Optional[T.List[dict]]]]:
    """explicit outputs / inputs of every statement, by the Lean manifest parser (area ninja); None when unavailable"""
    if not os.path.exists(common.driver_path('ninja')):
        return None
    try:
        answers = common.run_driver('ninja', ['parse ' + enc(t) for t in texts])
        out: T.List[T.Optional[T.List[dict]]] = []
        for a in answers:
            if not a.startswith('OK|'):
                out.append(None)
                continue
            edges = []
            for part in a.split('|'):
                if part.startswith('E:'):
                    f = part[2:].split(';')
                    binds = {}
                    for kv in (f[7].split('&') if len(f) > 7 and f[7] else []):
                        k, _, v = kv.partition('=')
                        binds[common.dec(k)] = common.dec(v)
                    edges.append({'rule': common.dec(f[0]), 'outs': common.dec_list(f[1]), 'ins': common.dec_list(f[3]), 'binds': binds})
            out.append(edges)
        return out
    except Exception:   # the Ninja area belongs to C04 and may be mid-change: fall back to the Python reader
        return None


# ------------------------------------------------------------------------------------------------ the independent oracle

class NinjaSyntax(Exception):
    pass


def ninja_unescape(v: str) -> str:
    """value of a binding that holds no variable reference: `$$`, `$ `, `$:`"""
    out = []
    i = 0
    while i < len(v):
        if v[i] == '$' and i + 1 < len(v) and v[i + 1] in '$ :':
            out.append(v[i + 1])
            i += 2
        else:
            out.append(v[i])
            i += 1
    return ''.join(out)


def read_rule_commands(text: str) -> T.Dict[str, str]:
    """rule name -> raw `command` binding"""
    rules: T.Dict[str, str] = {}
    cur = None
    for line in text.split('\n'):
        if line.startswith('rule '):
            cur = line[5:].strip()
        elif cur is not None and line.startswith(' '):
            m = re.match(r' +command = ?(.*)$', line)
            if m:
                rules[cur] = m.group(1)
        else:
            cur = None
    return rules


def compiler_words(command: T.Optional[str]) -> T.List[str]:
    """the words of a rule command in front of `$ARGS` (what is executed)"""
    if not command or '$ARGS' not in command:
        return []
    try:
        return shlex.split(ninja_unescape(command.split('$ARGS')[0]))
    except ValueError:
        return []


def args_words(value: T.Optional[str]) -> T.List[str]:
    """the words of an (evaluated) ARGS binding as the shell will see them"""
    if not value:
        return []
    try:
        return shlex.split(value)
    except ValueError:
        return ['<unparsable>', value]


def read_build_statements(text: str) -> T.List[dict]:
    """own reader of the `build` statements of a manifest: explicit outputs, rule, explicit inputs, bindings"""
    stmts = []
    # join continuation lines (an odd number of `$` in front of the newline)
    text = re.sub(r'(?<!\$)((?:\$\$)*)\$\n[ ]*', r'\1', text)
    cur_binds: T.Optional[dict] = None
    for line in text.split('\n'):
        if not line.startswith('build '):
            if cur_binds is not None and line.startswith(' '):
                m = re.match(r' +([A-Za-z0-9_.-]+) = ?(.*)$', line)
                if m:
                    cur_binds[m.group(1)] = ninja_unescape(m.group(2))
            else:
                cur_binds = None
            continue
        toks: T.List[str] = []
        cur: T.List[str] = []
        i = 6
        n = len(line)

        def flush():
            if cur:
                toks.append(''.join(cur))
                cur.clear()
        seen_colon = False
        while i < n:
            c = line[i]
            if c == '$':
                if i + 1 >= n:
                    raise NinjaSyntax(line)
                d = line[i + 1]
                if d in ' :$':
                    cur.append(d)
                    i += 2
                    continue
                raise NinjaSyntax('variable reference in a build line: ' + line[:80])
            if c == ' ':
                flush()
            elif c == ':' and not seen_colon:
                flush()
                toks.append('\0:')
                seen_colon = True
            elif c == '|' and not cur:
                j = i
                while j < n and line[j] in '|@':
                    j += 1
                toks.append('\0' + line[i:j])
                i = j
                continue
            else:
                cur.append(c)
            i += 1
        flush()
        if '\0:' not in toks:
            raise NinjaSyntax(line)
        k = toks.index('\0:')
        left, right = toks[:k], toks[k + 1:]
        outs = []
        for t in left:
            if t.startswith('\0'):
                break
            outs.append(t)
        if not right:
            raise NinjaSyntax(line)
        rule = right[0]
        ins = []
        for t in right[1:]:
            if t.startswith('\0'):
                break
            ins.append(t)
        cur_binds = {}
        stmts.append({'rule': rule, 'outs': outs, 'ins': ins, 'binds': cur_binds})
    return stmts


PATH_PARAM = re.compile(r'^(-I|-L|-isystem|-iquote|-idirafter)(.+)$')


def canon_param(bld: str, w: str) -> str:
    """intro `parameters` hold absolute include / library directories, ARGS hold them relative to the build directory"""
    m = PATH_PARAM.match(w)
    if m:
        return m.group(1) + os.path.normpath(os.path.join(bld, m.group(2)))
    return w


COMPILE_RULE = re.compile(r'^[A-Za-z0-9]+_COMPILER')


def oracle_targets(raw: dict) -> dict:
    bld = raw['bld']
    commands = read_rule_commands(raw['ninja'])
    stmts = [{'rule': s['rule'], 'outs': [absn(bld, o) for o in s['outs']], 'ins': [absn(bld, i) for i in s['ins']],
              'exe': compiler_words(commands.get(s['rule'])), 'args': [canon_param(bld, w) for w in args_words(s['binds'].get('ARGS'))]}
             for s in read_build_statements(raw['ninja'])]
    viol = []
    per = []
    claimed_files = set()
    for t in raw['targets']:
        kind = TKIND.get(t['type'], 'o')
        files = list(t['filename'])
        claimed_files.update(files)
        ok_files = True
        cands = [s for s in stmts if (s['rule'] == 'phony') == (kind == 'p')]
        for f in files:
            if not any(f in s['outs'] for s in cands):
                ok_files = False
                if kind == 'p':
                    # a run / alias target makes no file; its statement is `build <name>: phony …` (`<subproject>@@<name>` in a subproject)
                    names = [os.path.relpath(o, bld) for st in cands for o in st['outs']
                             if os.path.relpath(o, bld).split('@@')[-1] == os.path.basename(f)]
                    viol.append(('targets:run-or-alias-target:filename-is-not-a-build-output',
                                 f"{t['type']} target {t['name']!r} reports filename {os.path.relpath(f, bld)!r}; no statement of build.ninja has that "
                                 f"output (the target's phony statement is named {names})", {'target': t['id'], 'filename': files}))
                else:
                    viol.append((f'targets:filename-not-produced:{kind}', f"target {t['id']!r}: no build statement produces {os.path.relpath(f, bld)!r}",
                                 {'target': t['id'], 'filename': files}))
        for s in cands:
            if any(o in files for o in s['outs']):
                extra = [o for o in s['outs'] if o not in files]
                if extra:
                    ok_files = False
                    viol.append((f'targets:output-not-reported:{kind}', f"target {t['id']!r}: the statement producing {os.path.relpath(s['outs'][0], bld)!r} "
                                 f"also produces {[os.path.relpath(o, bld) for o in extra]} which `filename` omits",
                                 {'target': t['id'], 'filename': files, 'statement_outputs': s['outs']}))
        reported = set()
        for b in t['target_sources']:
            if 'sources' in b:
                reported.update(b['sources'])
                reported.update(b.get('generated_sources', []))
        ok_src = True
        if kind == 'b':
            priv = files[0] + '.p/' if files else '\0'
            consumed = set()
            for s in stmts:
                if COMPILE_RULE.match(s['rule']) and any(o.startswith(priv) for o in s['outs']):
                    consumed.update(s['ins'])
        elif kind == 'c':
            consumed = set()
            for s in cands:
                if any(o in files for o in s['outs']):
                    consumed.update(s['ins'])
        elif kind == 'p':
            consumed = set()
        else:
            consumed = reported
        if consumed != reported:
            ok_src = False
            extra_c = set(consumed - reported)
            extra_r = set(reported - consumed)
            keys = []
            if kind == 'c':
                for r_ in sorted(extra_r):
                    c_ = os.path.join(bld, 'meson-out', os.path.basename(r_))
                    if c_ in extra_c:
                        extra_c.discard(c_)
                        extra_r.discard(r_)
                        if 'targets:custom-target-sources:input-target-path-ignores-flat-layout' not in keys:
                            keys.append('targets:custom-target-sources:input-target-path-ignores-flat-layout')
                dropped_built = {x for x in extra_c if x.startswith(bld + os.sep)}
                if dropped_built and not extra_r:
                    # inputs that are outputs of other targets / of a generator (CustomTargetIndex, GeneratedList)
                    keys.append('targets:custom-target-sources:built-input-dropped')
                    extra_c -= dropped_built
            if extra_c or extra_r:
                keys.append('targets:sources-differ:' + ('compile' if kind == 'b' else 'custom' if kind == 'c' else 'phony'))
            for key in keys:
                viol.append((key, f"target {t['id']!r} ({t['type']}): its statements consume {sorted(os.path.relpath(x, bld) for x in consumed - reported)} which "
                             f"target_sources omits; target_sources lists {sorted(os.path.relpath(x, bld) for x in reported - consumed)} which no statement of the target consumes",
                             {'target': t['id'], 'reported': sorted(reported), 'consumed': sorted(consumed)}))
        ok_groups = True
        if kind == 'b':
            priv = files[0] + '.p/' if files else '\0'
            mine = [s for s in stmts if COMPILE_RULE.match(s['rule']) and any(o.startswith(priv) for o in s['outs'])]
            groups = [b for b in t['target_sources'] if 'language' in b and 'sources' in b]

            def runs(b, s):
                return (s['rule'].startswith(b['language'] + '_COMPILER') and s['exe'] == b['compiler'] and
                        s['args'] == [canon_param(bld, w) for w in b['parameters']])
            for b in groups:
                for src in b['sources'] + b.get('generated_sources', []):
                    users = [s for s in mine if src in s['ins']]
                    if any(runs(b, s) for s in users):
                        continue
                    ok_groups = False
                    if not users:
                        what, key = 'no compile statement of the target consumes it', 'targets:group-source-not-compiled'
                    elif not any(s['rule'].startswith(b['language'] + '_COMPILER') for s in users):
                        what, key = f"it is compiled by rule {users[0]['rule']!r}", 'targets:group-language-differs'
                    elif not any(s['exe'] == b['compiler'] for s in users):
                        what, key = f"it is compiled with {users[0]['exe']!r}", 'targets:group-compiler-differs'
                    else:
                        what, key = f"its statement's ARGS are {users[0]['args']!r}", 'targets:group-parameters-differ'
                    viol.append((key, f"target {t['id']!r}: {os.path.relpath(src, bld)!r} is listed in the group language {b['language']!r} compiler {b['compiler']!r} "
                                 f"parameters {b['parameters']!r}, but {what}", {'target': t['id'], 'source': src, 'group': {k: v for k, v in b.items()}}))
            for s in mine:
                for src in s['ins']:
                    if not any(src in b['sources'] + b.get('generated_sources', []) and runs(b, s) for b in groups):
                        ok_groups = False
                        viol.append(('targets:compiled-source-in-no-matching-group', f"target {t['id']!r}: {os.path.relpath(src, bld)!r} is compiled by {s['rule']!r} "
                                     f"({s['exe']!r}, ARGS {s['args']!r}); no target_sources group with that language, compiler and parameters lists it",
                                     {'target': t['id'], 'source': src, 'statement': s}))
        per.append(('1' if ok_files else '0') + ('1' if ok_src else '0') + ('1' if ok_groups else '0'))
    claimed = True
    for s in stmts:
        is_target = ('_LINKER' in s['rule'] or s['rule'].startswith('CUSTOM_COMMAND')) and \
            all('.p/' not in o and not os.path.basename(o).startswith('meson-internal__') for o in s['outs'])
        if is_target and not any(o in claimed_files for o in s['outs']):
            claimed = False
            viol.append(('targets:build-output-in-no-target', f"build.ninja makes {[os.path.relpath(o, bld) for o in s['outs']]} "
                         f"({s['rule']}) but no entry of intro-targets.json lists it", {'statement': s}))
    agree = claimed and all(p == '111' for p in per)
    return {'answer': f"OK|{'1' if agree else '0'}|{','.join(per)}|{'1' if claimed else '0'}", 'violations': viol, 'stmts': stmts}


def env_of(ops: T.List[list]) -> T.Dict[str, str]:
    """the environment additions of a test on an empty base environment"""
    env: T.Dict[str, str] = {}
    for method, name, values, sep in ops:
        if method == 'set':
            env[name] = sep.join(values)
        elif method == 'append':
            env[name] = sep.join(([env[name]] if name in env else []) + values)
        elif method == 'prepend':
            env[name] = sep.join(values + ([env[name]] if name in env else []))
        else:
            raise ValueError(method)
    return env


TEST_FIELDS = ['workdir', 'timeout', 'suite', 'is_parallel', 'priority', 'protocol', 'extra_paths']


def oracle_tests(raw: dict, which: str) -> dict:
    intro = raw[which]
    ser = raw['ser_' + which]
    ids = {t['id'] for t in raw['targets']}
    viol = []
    bits = []
    for idx, (i, s) in enumerate(zip(intro, ser)):
        bad = []
        if i['name'] != s['name']:
            bad.append('name')
        if i['cmd'] != s['fname'] + s['cmd_args']:
            bad.append('cmd')
        if dict(i['env']) != env_of(s['env']) or s['unset']:
            bad.append('env')
        for f in TEST_FIELDS:
            if i[f] != s[f]:
                bad.append(f)
        if set(i['depends']) != set(s['depends']):
            bad.append('depends')
        bits.append('0' if bad else '1')
        for b in bad:
            viol.append((f'{which}:{b}-differs', f"{which} entry {idx} ({i['name']!r}): intro says {i.get(b if b != 'cmd' else 'cmd')!r}, "
                         f"`meson test` uses {(s['fname'] + s['cmd_args']) if b == 'cmd' else env_of(s['env']) if b == 'env' else s.get(b)!r}",
                         {'index': idx, 'intro': i, 'serialised': s}))
    if len(intro) != len(ser):
        viol.append((f'{which}:count-differs', f'intro-{which}.json has {len(intro)} entries, `meson test` has {len(ser)}',
                     {'intro': [t['name'] for t in intro], 'serialised': [t['name'] for t in ser]}))
    deps_ok = True
    for i in intro:
        for d in i['depends']:
            if d not in ids:
                deps_ok = False
                viol.append((f'{which}:depends-unknown-target', f"{which} {i['name']!r} depends on {d!r}, which is not in intro-targets.json", {'test': i}))
    agree = len(intro) == len(ser) and all(b == '1' for b in bits) and deps_ok
    return {'answer': f"OK|{'1' if agree else '0'}|{len(intro)},{len(ser)}|{''.join(bits)}|{'1' if deps_ok else '0'}", 'violations': viol}


def slim(p: str) -> str:
    """destinations are compared modulo repeated and trailing slashes"""
    p = re.sub(r'/+', '/', p)
    return p[:-1] if len(p) > 1 and p.endswith('/') else p


def dest_used(prefix: str, r: dict) -> str:
    """where `meson install` (DESTDIR empty) puts the record: minstall.py Installer.install_* / get_destdir_path"""
    def under(p):
        return p if os.path.isabs(p) else os.path.join(prefix, p)
    if r['kind'] in ('t', 'h'):
        return os.path.join(under(r['ipath']), os.path.basename(r['path']))
    if r['kind'] == 'l':
        return under(r['path'])
    return under(r['ipath'])


SECTION = {'t': 'targets', 'd': 'data', 'h': 'headers', 'm': 'man', 's': 'install_subdirs'}


def expand_dest(dirs: T.Dict[str, str], prefix: str, d: str) -> T.Optional[str]:
    m = re.match(r'^\{([^}]*)\}(.*)$', d, re.S)
    if not m:
        return d if os.path.isabs(d) else os.path.join(prefix, d)
    name, rest = m.group(1), m.group(2).lstrip('/')
    if name == 'prefix':
        base = prefix
    elif name in dirs:
        base = dirs[name] if os.path.isabs(dirs[name]) else os.path.join(prefix, dirs[name])
    else:
        return None
    return os.path.join(base, rest)


def oracle_install(raw: dict) -> dict:
    inst = raw['install']
    prefix = inst['prefix']
    top = {o['name']: o['value'] for o in raw['observed'] if o['sub'] == ''}
    dirs = {k: top[k] for k in DIR_OPTS if k in top and k != 'prefix'}
    if 'libdir' in dirs:
        dirs['libdir_shared'] = dirs['libdir_static'] = dirs['moduledir_shared'] = dirs['libdir']
    viol = []
    plan = [(sect, path, e) for sect, entries in raw['install_plan'].items() for path, e in entries.items()]
    prs = [r for r in inst['recs'] if r['kind'] != 'l']

    def pmatch(p, r):
        sect, path, e = p
        x = expand_dest(dirs, prefix, e['destination'])
        return (sect == (r['dtype'] or SECTION[r['kind']]) and path == r['path'] and x is not None and slim(x) == slim(dest_used(prefix, r))
                and (e.get('tag') or '') == r['tag'] and (e.get('subproject') or '') == r['sub'])
    b1 = [any(pmatch(p, r) for p in plan) for r in prs]
    b2 = [any(pmatch(p, r) for r in prs) for p in plan]
    for r, ok in zip(prs, b1):
        if not ok:
            same = [p for p in plan if p[1] == r['path'] and p[0] == (r['dtype'] or SECTION[r['kind']])]
            dup = [q for q in prs if q['path'] == r['path'] and q['kind'] == r['kind'] and q is not r]
            if same and dup:
                viol.append(('install_plan:source-installed-twice-listed-once',
                             f"{r['path']!r} is installed to {dest_used(prefix, r)!r} and to {[dest_used(prefix, q) for q in dup]}; "
                             f"intro-install_plan.json (keyed by source path) names only {same[0][2]['destination']!r}",
                             {'record': r, 'plan_entry': same[0][2]}))
            elif same:
                e = same[0][2]
                what = 'tag' if (e.get('tag') or '') != r['tag'] else 'subproject' if (e.get('subproject') or '') != r['sub'] else 'destination'
                viol.append((f"install_plan:{what}-differs:{SECTION[r['kind']]}",
                             f"{r['path']!r}: plan says destination {e['destination']!r} tag {e.get('tag')!r} subproject {e.get('subproject')!r}; "
                             f"`meson install` uses {dest_used(prefix, r)!r} tag {r['tag']!r} subproject {r['sub']!r}", {'record': r, 'plan_entry': e}))
            else:
                viol.append((f"install_plan:installed-but-not-listed:{SECTION[r['kind']]}", f"{r['path']!r} -> {dest_used(prefix, r)!r} is installed but "
                             f"not in intro-install_plan.json", {'record': r}))
    for r in prs:
        # the remaining fields of a plan entry, where exactly one entry and one record share the source
        same = [p for p in plan if p[1] == r['path'] and p[0] == (r['dtype'] or SECTION[r['kind']])]
        if len(same) == 1 and len([q for q in prs if q['path'] == r['path'] and q['kind'] == r['kind']]) == 1:
            e = same[0][2]
            if r['kind'] == 's' and (sorted(e.get('exclude_files', [])) != r['exclude_files'] or sorted(e.get('exclude_dirs', [])) != r['exclude_dirs']):
                viol.append(('install_plan:exclude-lists-differ', f"{r['path']!r}: plan excludes files {e.get('exclude_files')} dirs {e.get('exclude_dirs')}; "
                             f"`meson install` skips files {r['exclude_files']} dirs {r['exclude_dirs']}", {'record': r, 'plan_entry': e}))
            if r['kind'] == 't' and (e.get('install_rpath') or None) != r['install_rpath']:
                viol.append(('install_plan:install_rpath-differs', f"{r['path']!r}: plan says install_rpath {e.get('install_rpath')!r}; `meson install` sets "
                             f"{r['install_rpath']!r}", {'record': r, 'plan_entry': e}))
    for p, ok in zip(plan, b2):
        if not ok and not any(p[1] == r['path'] for r in prs):
            viol.append((f'install_plan:listed-but-not-installed:{p[0]}', f'{p[1]!r} is in intro-install_plan.json but `meson install` does not install it',
                         {'plan_entry': p[2], 'path': p[1]}))
    irs = inst['recs']
    ins = list(raw['installed'].items())

    def imatch(kv, r):
        key = os.path.basename(r['path']) if r['kind'] == 'l' else r['path']
        return kv[0] == key and slim(kv[1]) == slim(dest_used(prefix, r))
    b3 = [any(imatch(kv, r) for kv in ins) for r in irs]
    b4 = [any(imatch(kv, r) for r in irs) for kv in ins]
    for r, ok in zip(irs, b3):
        if not ok:
            dup = [q for q in irs if q['path'] == r['path'] and q is not r] if r['kind'] != 'l' else \
                  [q for q in irs if os.path.basename(q['path']) == os.path.basename(r['path']) and q is not r]
            if dup:
                viol.append(('installed:source-installed-twice-listed-once',
                             f"{r['path']!r} -> {dest_used(prefix, r)!r} is installed; intro-installed.json (keyed by source) has only "
                             f"{raw['installed'].get(os.path.basename(r['path']) if r['kind'] == 'l' else r['path'])!r}", {'record': r}))
            else:
                viol.append((f"installed:destination-differs-or-missing:{'symlinks' if r['kind'] == 'l' else SECTION[r['kind']]}",
                             f"{r['path']!r}: `meson install` writes {dest_used(prefix, r)!r}, intro-installed.json says "
                             f"{raw['installed'].get(os.path.basename(r['path']) if r['kind'] == 'l' else r['path'])!r}", {'record': r}))
    for kv, ok in zip(ins, b4):
        if not ok and not any((os.path.basename(r['path']) if r['kind'] == 'l' else r['path']) == kv[0] for r in irs):
            viol.append(('installed:listed-but-not-installed', f'{kv[0]!r} -> {kv[1]!r} is in intro-installed.json but nothing installs it', {'entry': kv}))
    agree = all(b1) and all(b2) and all(b3) and all(b4)

    def bs(l):
        return ''.join('1' if x else '0' for x in l)
    return {'answer': f"OK|{'1' if agree else '0'}|{bs(b1)}|{bs(b2)}|{bs(b3)}|{bs(b4)}", 'violations': viol}


def run_install(bld: str, destdir: str, extra: T.Sequence[str]) -> T.Tuple[int, str, T.Set[str], T.Set[str]]:
    """a real `meson install --no-rebuild --destdir`; returns rc, output, files+links and directories found (as absolute install paths)"""
    e = dict(os.environ)
    e['PYTHONPATH'] = common.REPO
    e['PYTHONDONTWRITEBYTECODE'] = '1'
    e.pop('DESTDIR', None)
    p = subprocess.run([sys.executable, os.path.join(common.REPO, 'meson.py'), 'install', '-C', bld, '--no-rebuild', '--destdir', destdir] + list(extra),
                       env=e, stdout=subprocess.PIPE, stderr=subprocess.STDOUT, timeout=300)
    found, dirs = set(), set()
    for dp, dns, fns in os.walk(destdir):
        rel = '/' + os.path.relpath(dp, destdir) if dp != destdir else ''
        for f in fns:
            found.add(rel + '/' + f)
        for dn in list(dns):
            if os.path.islink(os.path.join(dp, dn)):
                found.add(rel + '/' + dn)
            else:
                dirs.add(rel + '/' + dn)
    return p.returncode, p.stdout.decode('utf-8', errors='replace'), found, dirs


def oracle_real_install(raw: dict, jd: str) -> dict:
    """tie to reality: the files a real `meson install` creates under DESTDIR are the ones both install files name, also per tag and
    with --skip-subprojects (nothing is built here: every target output is a stand-in file)"""
    inst = raw['install']
    prefix = inst['prefix']
    for r in inst['recs']:
        if r['kind'] == 't' and not os.path.lexists(r['path']):
            os.makedirs(os.path.dirname(r['path']), exist_ok=True)
            with open(r['path'], 'w') as fh:
                fh.write('stand-in\n')
    top = {o['name']: o['value'] for o in raw['observed'] if o['sub'] == ''}
    dirs = {k: top[k] for k in DIR_OPTS if k in top and k != 'prefix'}
    if 'libdir' in dirs:
        dirs['libdir_shared'] = dirs['libdir_static'] = dirs['moduledir_shared'] = dirs['libdir']
    plan = [(sect, path, e, expand_dest(dirs, prefix, e['destination'])) for sect, entries in raw['install_plan'].items() for path, e in entries.items()]
    link_recs = [r for r in inst['recs'] if r['kind'] == 'l']
    viol = []
    runs = [('all', [], lambda e: True, lambda r: True)]
    tags = sorted({e.get('tag') for _, _, e, _ in plan if e.get('tag')})
    for t in tags[:1] + tags[-1:]:
        runs.append((f'--tags {t}', ['--tags', t], (lambda e, t=t: e.get('tag') == t), (lambda r, t=t: r['tag'] == t)))
    if any(e.get('subproject') for _, _, e, _ in plan):
        runs.append(('--skip-subprojects', ['--skip-subprojects'], lambda e: not e.get('subproject'), lambda r: not r['sub']))
    for n, (label, extra, keep, keep_rec) in enumerate(runs):
        dest = os.path.join(jd, f'dest{n}')
        rc, out, found, founddirs = run_install(raw['bld'], dest, extra)
        if rc != 0:
            viol.append(('real-install:failed', f'`meson install --no-rebuild --destdir D {" ".join(extra)}` exited {rc}: {out[-300:]}', {'run': label}))
            continue
        files_expected = set()
        trees = []
        for sect, path, e, x in plan:
            if x is None or not keep(e):
                continue
            if sect == 'install_subdirs':
                trees.append(slim(x))
            else:
                files_expected.add(slim(x))
        for x in sorted(files_expected):
            if x not in found:
                viol.append(('real-install:planned-file-not-installed', f'[{label}] intro-install_plan.json sends something to {x!r}; a real `meson install` '
                             f'creates no such file', {'run': label, 'destination': x}))
        for x in trees:
            if x not in founddirs and x not in found:
                viol.append(('real-install:planned-subdir-not-installed', f'[{label}] intro-install_plan.json sends a directory to {x!r}; a real `meson install` '
                             f'creates no such directory', {'run': label, 'destination': x}))
        links = {slim(dest_used(prefix, r)) for r in link_recs if keep_rec(r)}
        for f in sorted(found):
            if f in files_expected or f in links or any(f.startswith(t + '/') for t in trees):
                continue
            viol.append(('real-install:installed-file-not-planned', f'[{label}] a real `meson install` creates {f!r}; intro-install_plan.json has no entry with '
                         f'that destination' + ('' if label == 'all' else ' and that tag / subproject'), {'run': label, 'file': f}))
        if label == 'all':
            for k, v in raw['installed'].items():
                if slim(v) not in found and slim(v) not in founddirs:
                    viol.append(('real-install:intro-installed-destination-not-created', f'intro-installed.json maps {k!r} to {v!r}; a real `meson install` '
                                 f'creates nothing there', {'key': k, 'value': v}))
        common.rmtree(dest)
    return {'answer': 'OK', 'violations': viol, 'runs': [r[0] for r in runs]}


TRANSFORMATIONS = ['man-locale-stripped', 'data-renamed', 'preserve_path-subdirectory', 'subdir-strip_directory', 'subdir-kept-name',
                   'library-alias-symlink', 'install_dir-list-distinct-dirs', 'install_dir-list-hole', 'header-subdir', 'placeholder-destination',
                   'literal-destination', 'absolute-destination']


def transformations(raw: dict) -> T.Dict[str, int]:
    """how often each documented source-name -> installed-name transformation is NOT the identity in this build directory
    (a corpus in which one of them never acts would make the destination comparison vacuous for it)"""
    inst = raw['install']
    prefix = inst['prefix']
    n = {k: 0 for k in TRANSFORMATIONS}
    for r in inst['recs']:
        src_base = os.path.basename(r['path'])
        dest = dest_used(prefix, r)
        if r['kind'] == 'm' and os.path.basename(dest) != src_base:
            n['man-locale-stripped'] += 1
        if r['kind'] == 'd' and not r['dtype'] and os.path.basename(dest) != src_base:
            n['data-renamed'] += 1
        if r['kind'] in ('d', 'h') and not r['dtype'] and r['path'].startswith(inst['source_dir']):
            parent = os.path.basename(os.path.dirname(r['path']))
            if parent and os.path.basename(os.path.dirname(slim(dest))) == parent and os.path.basename(dest) == src_base:
                n['preserve_path-subdirectory'] += 1
        if r['kind'] == 's':
            n['subdir-strip_directory' if os.path.basename(slim(dest)) != src_base else 'subdir-kept-name'] += 1
        if r['kind'] == 'l' and os.path.basename(r['path']).startswith('lib'):
            n['library-alias-symlink'] += 1
        if r['kind'] == 'h' and slim(os.path.dirname(dest)) != slim(os.path.join(prefix, 'include')) and r['ipath'].rstrip('/').startswith('include/'):
            n['header-subdir'] += 1
    by_target: T.Dict[str, T.List[str]] = {}
    installed_t = {r['path']: r for r in inst['recs'] if r['kind'] == 't'}
    for t in raw['targets']:
        if len(t['filename']) > 1:
            dirs = {slim(os.path.dirname(dest_used(prefix, installed_t[f]))) for f in t['filename'] if f in installed_t}
            if len(dirs) > 1:
                n['install_dir-list-distinct-dirs'] += 1
            if dirs and any(f not in installed_t for f in t['filename']):
                n['install_dir-list-hole'] += 1
    for entries in raw['install_plan'].values():
        for e in entries.values():
            d = e['destination']
            n['placeholder-destination' if d.startswith('{') and not d.startswith('{prefix}') else 'absolute-destination' if d.startswith('/') or
              d.startswith('{prefix}//') else 'literal-destination'] += 1
    return n


DUMPER = """#!/usr/bin/env python3
import json, os, sys
with open(os.environ['C15_DUMP'], 'a') as f:
    f.write(json.dumps({'argv': sys.argv, 'cwd': os.getcwd(), 'env': dict(os.environ)}) + '\\n')
"""


def oracle_real_tests(raw: dict, jd: str) -> dict:
    """witness for cmd / env / workdir that shares nothing with the introspection code: every test program inside the scratch
    tree is replaced by a dumper, a real `meson test --no-rebuild` (and `--benchmark`) runs, and what each process received is
    compared with the entry of intro-tests.json / intro-benchmarks.json"""
    viol = []
    skipped = 0
    runs = 0
    for which, extra in (('tests', []), ('benchmarks', ['--benchmark'])):
        entries = raw[which]
        if not entries:
            continue
        usable = []
        for t in entries:
            prog = t['cmd'][0]
            if prog.startswith(raw['bld'] + os.sep) or prog.startswith(raw['src'] + os.sep):
                os.makedirs(os.path.dirname(prog), exist_ok=True)
                if os.path.islink(prog):
                    os.unlink(prog)
                with open(prog, 'w') as fh:
                    fh.write(DUMPER)
                os.chmod(prog, 0o755)
                usable.append(t)
            else:
                skipped += 1      # a program of the machine (python3, sh): cannot be replaced
            if t['workdir']:
                os.makedirs(t['workdir'], exist_ok=True)
        dump = os.path.join(jd, f'dump-{which}.jsonl')
        e = dict(os.environ)
        e['PYTHONPATH'] = common.REPO
        e['PYTHONDONTWRITEBYTECODE'] = '1'
        e['C15_DUMP'] = dump
        for k in ('LD_LIBRARY_PATH', 'MESON_TESTTHREADS'):
            e.pop(k, None)
        p = subprocess.run([sys.executable, os.path.join(common.REPO, 'meson.py'), 'test', '-C', raw['bld'], '--no-rebuild', '--num-processes', '1',
                            '--timeout-multiplier', '0'] + extra, env=e, stdout=subprocess.PIPE, stderr=subprocess.STDOUT, timeout=600)
        runs += 1
        recs = []
        if os.path.exists(dump):
            with open(dump) as fh:
                recs = [json.loads(l) for l in fh if l.strip()]
        used = [False] * len(recs)
        for t in usable:
            want_cwd = os.path.realpath(t['workdir'] or raw['bld'])

            def fits(r, strict_env=True):
                argv = r['argv']
                if t['protocol'] == 'gtest' and argv and argv[-1].startswith('--gtest_output='):
                    argv = argv[:-1]
                if argv != t['cmd'] or os.path.realpath(r['cwd']) != want_cwd:
                    return False
                return all(r['env'].get(k) == v for k, v in t['env'].items())
            for i, r in enumerate(recs):
                if not used[i] and fits(r):
                    used[i] = True
                    break
            else:
                near = [r for r in recs if r['argv'][:1] == t['cmd'][:1]]
                what = 'no process was started with that program'
                if near:
                    r = near[0]
                    got_env = {k: r['env'].get(k) for k in t['env']}
                    what = f"a process got argv {r['argv']!r}, cwd {r['cwd']!r}, env {got_env!r}"
                viol.append((f'real-test:{which}:entry-does-not-describe-a-started-process', f"intro-{which}.json entry {t['name']!r} says cmd {t['cmd']!r}, "
                             f"workdir {t['workdir']!r}, env {t['env']!r}; in a real `meson test` run {what}",
                             {'entry': t, 'meson_test_output_tail': p.stdout.decode('utf-8', 'replace')[-400:]}))
        extra_recs = [r for i, r in enumerate(recs) if not used[i]]
        if extra_recs and len(recs) != len(usable):
            viol.append((f'real-test:{which}:process-started-that-no-entry-describes', f"a real `meson test` run started {extra_recs[0]['argv']!r} (cwd {extra_recs[0]['cwd']!r}); "
                         f"no entry of intro-{which}.json describes it", {'argv': extra_recs[0]['argv']}))
    return {'answer': 'OK', 'violations': viol, 'runs': runs, 'skipped': skipped}


def oracle_options(raw: dict, rows_json: T.Optional[list] = None, observed: T.Optional[list] = None, phase: str = '') -> dict:
    """per-project witness: every (sub)project printed get_option() for every option it can read.  The row that describes what
    project P read is `P:name` (`:name` for the top-level project) when such a row exists -- it must show what P printed --, else
    the global row `name`, which must therefore show what every project without a row of its own printed."""
    rows: T.Dict[str, T.List[str]] = {}
    for r in (raw['buildoptions'] if rows_json is None else rows_json):
        rows.setdefault(r['name'], []).append(canon_value(r['value']))
    viol = []
    bits = []
    for o in (raw['observed'] if observed is None else observed):
        q = o['sub'] + ':' + o['name']
        if o['kind'] == 'b':
            nm = o['name']
            if nm.startswith('build.') and nm not in rows and q not in rows:
                # native build: the build machine is the host machine, so what the project read is described by the
                # host rows -- its own `P:name` row when there is one (since repair e80961b `-D:c_args` does create
                # `:c_args`), else the global row
                nm = nm[len('build.'):]
                q = o['sub'] + ':' + nm
            name = q if q in rows else nm
        else:
            name = o['name'] if o['sub'] == '' else q
        vals = rows.get(name)
        ok = vals is not None and all(v == o['value'] for v in vals)
        bits.append('1' if ok else '0')
        if not ok:
            where = f"subproject {o['sub']!r}" if o['sub'] else 'the top-level project'
            if vals is None:
                key = 'buildoptions:option-read-but-not-listed:' + ('builtin' if o['kind'] == 'b' else 'project')
            elif o['kind'] == 'y':
                key = 'buildoptions:yielding-suboption-reports-own-value'
            elif o['kind'] == 'b' and name == q:
                key = 'buildoptions:per-project-row-differs-from-what-the-project-read:' + ('subproject' if o['sub'] else 'top-level')
            elif o['kind'] == 'b' and o['sub']:
                key = 'buildoptions:subproject-builtin-override-not-listed'
            elif o['kind'] == 'b':
                key = 'buildoptions:global-row-differs-from-top-level-project-without-row-of-its-own'
            else:
                key = 'buildoptions:value-differs:project'
            viol.append((key + phase, f"get_option({o['name']!r}) in {where} returned {o['value']!r}; intro-buildoptions.json row {name!r} says {vals!r}"
                         + (f' [{phase.strip(":")}]' if phase else ''), {'observed': o, 'row': name, 'reported': vals}))
    return {'answer': f"OK|{'1' if all(b == '1' for b in bits) else '0'}|{''.join(bits)}", 'violations': viol}


def oracle_files(raw: dict) -> dict:
    listed = {f for f in raw['buildsystem_files'] if is_build_def(raw, f)}
    opened = {f for f in raw['opened'] if is_build_def(raw, f)}
    viol = []
    def cls(f):
        if f in raw['machine_files']:
            return 'machine-file'
        m = re.match(r'^(.*/subprojects/[^/]+)/', f)
        if m and m.group(1).startswith(raw['src']) and not any(x.startswith(m.group(1) + '/') for x in listed):
            return 'subproject-that-failed-to-configure'     # nothing of that subproject is listed at all
        return os.path.basename(f)
    for f in sorted(opened - listed):
        viol.append(('buildsystem_files:read-but-not-listed:' + cls(f), f'{f!r} was read during configuration but is not in '
                     f'intro-buildsystem_files.json', {'file': f, 'listed': sorted(listed)}))
    for f in sorted(listed - opened):
        viol.append(('buildsystem_files:listed-but-not-read:' + os.path.basename(f), f'{f!r} is in intro-buildsystem_files.json but was never opened',
                     {'file': f, 'opened': sorted(opened)}))
    return {'answer': f"OK|{'1' if listed == opened else '0'}", 'violations': viol}


def resolved_words(raw: dict, t: dict) -> T.List[str]:
    """the words of a test's command line as absolute paths (relative words are relative to the workdir, else the build dir)"""
    base = t['workdir'] or raw['bld']
    return [os.path.normpath(os.path.join(base, w)) for w in t['cmd']]


def prereq_inputs(stmts: T.List[dict], bld: str, which: str) -> T.Optional[T.List[str]]:
    name = 'meson-test-prereq' if which == 'tests' else 'meson-benchmark-prereq'
    for st in stmts:
        if st['rule'] == 'phony' and name in st['outs']:
            return [absn(bld, i) for i in st['ins']]
    return None


def oracle_testdeps(raw: dict, which: str) -> dict:
    """witness for `depends` that does not come from the test serialisation: build.ninja's prerequisite statement of
    `meson test`, and the built files that appear on the command lines"""
    bld = raw['bld']
    tests = raw[which]
    viol = []
    first = {t['id']: (t['filename'][0] if t['filename'] else None) for t in raw['targets']}
    owner = {}
    for t in raw['targets']:
        if TKIND.get(t['type'], 'o') != 'p':
            for f in t['filename']:
                owner.setdefault(f, []).append(t['id'])
    pre = prereq_inputs(read_build_statements(raw['ninja']), bld, which)
    listed = {first[d] for t in tests for d in t['depends'] if first.get(d)}
    ok_pre = pre is not None and listed == set(pre)
    if pre is None:
        viol.append((f'{which}:no-prereq-statement', f'build.ninja has no meson-{which[:-1]}-prereq statement', {}))
    else:
        for f in sorted(set(pre) - listed):
            viol.append((f'{which}:prerequisite-in-no-depends', f"build.ninja builds {os.path.relpath(f, bld)!r} before `meson test` ({'meson-test-prereq' if which == 'tests' else 'meson-benchmark-prereq'}), "
                         f"but no entry of intro-{which}.json has its target in `depends`; entries using it: "
                         f"{[t['name'] for t in tests if any(w in owner and f in [first[i] for i in owner[w]] for w in resolved_words(raw, t))]}",
                         {'prerequisite': f, 'depends_of_all': sorted({d for t in tests for d in t['depends']})}))
        for f in sorted(listed - set(pre)):
            viol.append((f'{which}:depends-not-a-prerequisite', f"intro-{which}.json lists the target of {os.path.relpath(f, bld)!r} in `depends`, but build.ninja does not build it "
                         f"before `meson test`", {'file': f, 'prereq': pre}))
    bits = []
    for t in tests:
        ok = True
        for w in resolved_words(raw, t):
            for tid in owner.get(w, []):
                if tid not in t['depends']:
                    ok = False
                    viol.append((f'{which}:built-file-on-command-line-not-in-depends', f"{which[:-1]} {t['name']!r} runs {t['cmd']!r}: {os.path.relpath(w, bld)!r} is made by target "
                                 f"{tid!r}, which is not in its `depends` {t['depends']!r}", {'test': t, 'file': w, 'target': tid}))
        bits.append('1' if ok else '0')
    agree = ok_pre and all(b == '1' for b in bits)
    return {'answer': f"OK|{'1' if agree else '0'}|{'1' if ok_pre else '0'}|{''.join(bits)}", 'violations': viol}


def regen_inputs(raw: dict) -> T.Optional[T.List[str]]:
    """the inputs of the statement that regenerates build.ninja, without meson's own coredata.dat"""
    for st in read_build_statements(raw['ninja']):
        if st['rule'] == 'REGENERATE_BUILD' and 'build.ninja' in st['outs']:
            return [absn(raw['bld'], i) for i in st['ins'] if absn(raw['bld'], i) != os.path.join(raw['bld'], 'meson-private', 'coredata.dat')]
    return None


def oracle_regen(raw: dict) -> dict:
    """intro-buildsystem_files.json against what build.ninja itself watches to decide that it must be regenerated"""
    deps = regen_inputs(raw)
    viol = []
    if deps is None:
        viol.append(('buildsystem_files:no-REGENERATE_BUILD-statement', 'build.ninja has no statement that regenerates build.ninja', {}))
        return {'answer': 'OK|0', 'violations': viol}
    listed = {os.path.normpath(f) for f in raw['buildsystem_files']}
    watched = set(deps)

    def cls(f):
        return 'machine-file' if f in raw['machine_files'] else os.path.basename(f) if os.path.basename(f) in BUILD_DEF_NAMES else 'other'
    for f in sorted(watched - listed):
        viol.append(('buildsystem_files:REGENERATE_BUILD-input-not-listed:' + cls(f), f'build.ninja regenerates when {f!r} changes, but intro-buildsystem_files.json '
                     f'does not list it', {'file': f, 'listed': sorted(listed)}))
    for f in sorted(listed - watched):
        viol.append(('buildsystem_files:listed-but-no-REGENERATE_BUILD-input:' + cls(f), f'{f!r} is in intro-buildsystem_files.json but is not an input of the '
                     f'REGENERATE_BUILD statement', {'file': f, 'watched': sorted(watched)}))
    return {'answer': f"OK|{'1' if listed == watched else '0'}", 'violations': viol}


def oracle_all(raw: dict) -> dict:
    return {'targets': oracle_targets(raw), 'tests': oracle_tests(raw, 'tests'), 'benchmarks': oracle_tests(raw, 'benchmarks'),
            'install': oracle_install(raw), 'options': oracle_options(raw), 'files': oracle_files(raw), 'regen': oracle_regen(raw),
            'testdeps': oracle_testdeps(raw, 'tests'), 'benchdeps': oracle_testdeps(raw, 'benchmarks')}


# ------------------------------------------------------------------------------------------------ jobs

CORPUS_VARIANTS: T.Dict[str, T.List[tuple]] = {
    'inst': [('default', [], 'none'), ('cross', [], 'cross'), ('prefix', ['--prefix=/opt/x', '--libdir=lib64', '--datadir=/abs/share', '--includedir=inc/x', '--mandir=man'], 'none'),
             ('flat-static', ['--layout=flat', '-Ddefault_library=static'], 'none'), ('bindir', ['--bindir=/usr/local/bin2', '--libexecdir=lx', '-Ddefault_library=both'], 'native')],
    'instshapes': [('default', [], 'none'), ('cross+native', ['--libdir=lib'], 'cross+native'),
                   ('dirs', ['--prefix=/opt/p', '--includedir=inc', '--datadir=/abs/share', '--libdir=lib64', '--bindir=b', '--libexecdir=lx',
                             '--sysconfdir=/etc/x', '--localstatedir=var2', '--sbindir=sb', '--mandir=mm'], 'none'),
                   ('flat-static', ['--layout=flat', '-Ddefault_library=static', '--includedir=include/deeper/inc'], 'native')],
    'optfail': [('default', [], 'none'), ('flat-native', ['--layout=flat'], 'native')],
    'instdup': [('cross+native', ['--prefix=/usr'], 'cross+native'), ('default', [], 'none')],
    'mixed': [('default', [], 'none'), ('cross+native', ['-Db_ndebug=true'], 'cross+native'), ('cross', [], 'cross'), ('ndebug', ['-Db_ndebug=true'], 'none'), ('release', ['-Dbuildtype=release', '-Db_ndebug=if-release'], 'none'),
              ('std', ['-Dcpp_std=c++17', '-Dc_std=c11', '-Db_ndebug=true', '-Dwarning_level=3'], 'none'),
              ('unity', ['-Dunity=on', '-Db_ndebug=true'], 'none'), ('flat-both', ['--layout=flat', '-Ddefault_library=both', '-Db_ndebug=true', '-Dwarning_level=0'], 'native')],
    'tests': [('default', [], 'none'), ('cross+native', [], 'cross+native'), ('cross', ['--layout=flat'], 'cross'), ('flat', ['--layout=flat'], 'none'), ('static', ['-Ddefault_library=static', '-Dbuildtype=release'], 'native')],
    'opts': [('default', [], 'none', ['-Dwarning_level=1', '-D:warning_level=3', '-Dosp:warning_level=0', '-D:werror=true', '-Dosp2:werror=true',
                                       '-Dstr=conf-global', '-Dosp:str=conf-sub', '-D:optimization=2', '-Dosp:b_ndebug=true', '-D:c_std=c11', '-Dc=b']),
             ('three-forms', ['-Dwarning_level=1', '-D:warning_level=3', '-Dosp:warning_level=0', '-Dosp2:warning_level=2', '-Dwerror=false', '-D:werror=true',
                              '-Dosp2:werror=true', '-Doptimization=1', '-D:optimization=2', '-Dosp:optimization=3', '-Db_ndebug=false', '-D:b_ndebug=true',
                              '-Dosp:b_ndebug=if-release', '-Dc_std=c11', '-D:c_std=c99', '-Dosp:c_std=gnu99', '-Dc_args=-DG', '-D:c_args=-DT', '-Dosp2:c_args=-DS',
                              '-Dstr=g', '-Dosp:str=s', '-Ddefault_library=shared', '-D:default_library=static', '-Dosp2:default_library=both'], 'none',
              ['-Dwarning_level=2', '-D:warning_level=0', '-Dosp:warning_level=3', '-D:werror=false', '-Dosp:werror=true', '-D:default_library=both']),
             ('three-forms-cross', ['-D:warning_level=0', '-Dwarning_level=3', '-Dosp:warning_level=1', '-D:buildtype=release', '-Dosp2:buildtype=plain',
                                    '-D:unity=on', '-Dosp:unity=subprojects', '-D:b_lto=true', '-Dosp2:b_pie=true'], 'cross+native', ['-D:unity=off', '-Dunity=on']), ('yield-parent-set', ['-Dc=c'], 'none'),
             ('many', ['-Dstr=x y', '-Dflag=false', '-Dnum=10', '-Darr=q', '-Darrc=one,three', '-Dfeat=disabled', '-Dosp:sopt=cmdline', '-Dosp2:flag=true', '-Dosp:sfeat=enabled', '-Dosp:noparent=np', '-Dwerror=true',
                       '-Dc_args=-DA,-DB'], 'none'),
             ('cross', ['-Dstr=cross'], 'cross'), ('cross+native', ['-Dc=b', '-Dbuild.c_args=-DBM'], 'cross+native'), ('native2', [], 'native2'),
             ('sub-builtin', ['-Dosp2:warning_level=0', '-Dosp:default_library=static', '-Dystr=p2', '-Dybool=true', '-Dyint=4'], 'native')],
    'gens': [('default', [], 'none'), ('cross', [], 'cross'), ('native2', ['-Ddefault_library=static'], 'native2'), ('unity', ['-Dunity=on'], 'none'), ('unity2', ['-Dunity=on', '-Dunity_size=2', '--layout=flat'], 'none'),
             ('both', ['-Ddefault_library=both', '-Dbuildtype=release'], 'native')],
}


def corpus_files(name: str) -> T.Tuple[T.Dict[str, str], T.List[str]]:
    root = os.path.join(CORPUS_DIR, name)
    files = read_tree(root)
    empt = []
    for d, ds, fs in os.walk(root):
        if not ds and not fs:
            empt.append(os.path.relpath(d, root))
    return inject_messages(files), empt


def make_jobs(ctx: Ctx) -> T.List[dict]:
    jobs = []
    for name, variants in CORPUS_VARIANTS.items():
        files, empt = corpus_files(name)
        for label, args, machine, *rest in variants:
            jobs.append({'id': f'corpus-{name}-{label}', 'kind': 'corpus', 'name': name, 'label': label, 'args': args, 'machine': machine,
                         'files': files, 'emptydirs': empt, 'real_install': name in ('inst', 'instshapes'),
                         'real_tests': name == 'tests' or (name == 'mixed' and ctx.deep), 'conf_args': rest[0] if rest else None})
    n_gen = ctx.scale(20, 130)
    matrix = projgen.option_matrix()
    scratch = common.scratch_dir('mverif-c15-gen-')
    try:
        for k in range(n_gen):
            seed = ctx.rng.randrange(1 << 30)
            rng = random.Random(seed)
            feats = {'subproject': 0.6, 'odd_names': 0.3 if k % 3 else 0.0, 'max_targets': 9}
            d = os.path.join(scratch, f'g{k}')
            os.makedirs(d)
            spec = projgen.gen_project(rng, d, feats)
            files, oargs = augment_generated(rng, spec)
            nvar = 2 if ctx.deep else 1
            picks = rng.sample(matrix, nvar)
            if k % 4 == 0:
                picks[0] = matrix[0]
            for vi, (mlabel, margs) in enumerate(picks):
                jobs.append({'id': f'gen-{k}-{vi}', 'kind': 'gen', 'seed': seed, 'features': feats, 'label': mlabel,
                             'args': list(margs) + (oargs if vi == 0 else []),
                             'machine': rng.choices(list(MACHINE_MATRIX), weights=[45, 15, 10, 12, 18])[0], 'files': files,
                             'conf_args': addressing_args(rng, spec.get('subproject')) if rng.random() < 0.25 else None})
    finally:
        common.rmtree(scratch)
    return jobs


# ------------------------------------------------------------------------------------------------ driving

PARTS = ['targets', 'tests', 'benchmarks', 'install', 'options', 'files', 'regen', 'testdeps', 'benchdeps']


def failing_input(res: dict) -> dict:
    job = res['job']
    d = {'project': job.get('name') or f"projgen seed {job.get('seed')} features {job.get('features')}", 'kind': job['kind'],
         'setup_args': job['args'] + [w for flag, f in MACHINE_MATRIX[machine_of(job)] for w in (flag, f'<{f}>')], 'machine': machine_of(job),
         'then_meson_configure': job.get('conf_args'), 'job_id': job['id']}
    return d


def evaluate(ctx: Ctx, results: T.List[dict], jobs_by_id: T.Dict[str, dict]) -> None:
    good = [r for r in results if r['ok']]
    # build.ninja through the Lean manifest parser when that driver exists
    parsed = lean_parse_manifests([r['raw']['ninja'] for r in good]) if ctx.model_available else None
    used_lean_parser = parsed is not None
    lines: T.List[str] = []
    index: T.List[T.Tuple[int, str]] = []
    for n, r in enumerate(good):
        raw = r['raw']
        edges = parsed[n] if parsed is not None and parsed[n] is not None else None
        if edges is None:
            if parsed is not None:
                ctx.tag('lean-manifest-parser-rejected')
                ctx.disagreement({'what': 'Lean manifest parser rejects a build.ninja that meson wrote', 'input': failing_input(r)})
            edges = read_build_statements(raw['ninja'])
        req = r['lean']
        lines.append('targets ' + req['targets'] + '|' + edges_field(raw['bld'], edges, read_rule_commands(raw['ninja'])))
        index.append((n, 'targets'))
        for part in PARTS[1:] + [x for x in ('options_conf', 'options_reconf') if x in r['oracle']]:
            if part in ('testdeps', 'benchdeps'):
                which = 'tests' if part == 'testdeps' else 'benchmarks'
                pname = 'meson-test-prereq' if which == 'tests' else 'meson-benchmark-prereq'
                pre = [absn(raw['bld'], i) for e in edges if e['rule'] == 'phony' and pname in e['outs'] for i in e['ins']]
                if not any(e['rule'] == 'phony' and pname in e['outs'] for e in edges):
                    pre = ['<no prereq statement>']
                uses = '/'.join(L(t['depends']) + ';' + L(resolved_words(raw, t)) for t in raw[which])
                tfs = '/'.join(S(t['id']) + ';' + L(t['filename']) for t in raw['targets'] if TKIND.get(t['type'], 'o') != 'p')
                lines.append(f'testdeps {uses}|{tfs}|{L(pre)}')
            elif part == 'regen':
                coredata = os.path.join(raw['bld'], 'meson-private', 'coredata.dat')
                watched = [absn(raw['bld'], i) for e in edges if e['rule'] == 'REGENERATE_BUILD' and 'build.ninja' in e['outs']
                           for i in e['ins'] if absn(raw['bld'], i) != coredata]
                lines.append('files ' + L(os.path.normpath(f) for f in raw['buildsystem_files']) + '|' + L(watched))
            else:
                lines.append(req[part])
            index.append((n, part))
    answers = ctx.driver('intro', lines) if ctx.model_available and lines else []
    ctx.notes.append('build.ninja parsed by ' + ('the Lean manifest parser (mvdriver-ninja parse)' if used_lean_parser else 'the Python reader only (mvdriver-ninja not available)'))
    for (n, part), ans in zip(index, answers):
        r = good[n]
        exp = r['oracle'][part]['answer']
        ctx.extra['disagreements_checked'] += 1
        if ans != exp:
            ctx.disagreement({'part': part, 'lean': ans, 'python': exp, 'input': failing_input(r),
                              'files': jobs_by_id[r['job']['id']]['files'] if r['job']['kind'] == 'gen' else None})
    for r in results:
        job = r['job']
        if not r['ok']:
            ctx.tag('configure-failed')
            ctx.extra.setdefault('configure_failures', []).append({'job': job['id'], 'args': job['args'], 'tail': r.get('out_tail', '')[-600:]})
            continue
        ctx.extra['programs'] += 1
        ctx.count(1)
        ctx.tag('project:' + job['kind'])
        ctx.seen_nontrivial((job.get('name') or job.get('seed'), tuple(job['args']), machine_of(job)))
        raw = r['raw']
        ctx.tag('targets', len(raw['targets']))
        for t in raw['targets']:
            ctx.tag('target-type:' + t['type'])
            if len(t['filename']) > 1:
                ctx.tag('multi-output-target')
        ctx.tag('tests', len(raw['tests']))
        ctx.tag('benchmarks', len(raw['benchmarks']))
        ctx.tag('install-records', len(raw['install']['recs']))
        ctx.tag('options-observed', len(raw['observed']))
        ctx.tag('build-files', len(raw['buildsystem_files']))
        ctx.count(len(raw['targets']) + len(raw['tests']) + len(raw['benchmarks']) + len(raw['install']['recs']) + len(raw['observed']))
        nonclass = [f for f in raw['buildsystem_files'] if not is_build_def(raw, f)]
        if nonclass:
            ctx.tag('buildsystem_files: regeneration-dependency entries (configure_file inputs / command scripts), not judged', len(nonclass))
        if raw['machine_files']:
            ctx.tag('machine-files:' + machine_of(job))
        for rows_json, ph in [(raw['buildoptions'], 'setup')] + ([(raw['conf_rows'], 'meson configure'), (raw['reconf_rows'], 'reconfigure')] if 'conf_rows' in raw else []):
            glob = {r['name']: r['value'] for r in rows_json if ':' not in r['name']}
            for r_ in rows_json:
                if ':' in r_['name'] and r_['section'] != 'user':
                    proj, _, nm = r_['name'].partition(':')
                    if nm in glob and glob[nm] != r_['value']:
                        ctx.tag(f"option rows that differ from the global row [{ph}]: {'top-level-only' if proj == '' else 'subproject'} {r_['section']}")
        for k, v in transformations(raw).items():
            ctx.tag('transformation acts: ' + k, v)
        if raw['install']['emptydirs']:
            ctx.tag('install_emptydir (not part of the property, not listed by intro-install_plan.json)')
        if 'real_install' in r['oracle']:
            ctx.tag('real `meson install --destdir` runs', len(r['oracle']['real_install']['runs']))
        if 'real_tests' in r['oracle']:
            ctx.tag('real `meson test --no-rebuild` runs with dumper programs', r['oracle']['real_tests']['runs'])
            ctx.tag('tests whose program is a machine program (not replaceable by the dumper)', r['oracle']['real_tests']['skipped'])
        if r.get('second_phase_error'):
            ctx.tag('second-phase-failed')
            ctx.extra.setdefault('second_phase_failures', []).append({'job': job['id'], 'conf_args': job.get('conf_args'), 'error': r['second_phase_error'][-300:]})
        if 'options_conf' in r['oracle']:
            ctx.tag('meson configure + introspect + reconfigure phases')
        for part in PARTS + [x for x in ('real_install', 'real_tests', 'options_conf', 'options_reconf') if x in r['oracle']]:
            for key, what, detail in r['oracle'][part]['violations']:
                case = dict(failing_input(r))
                case['detail'] = detail
                if job['kind'] == 'gen':
                    case['files'] = jobs_by_id[job['id']]['files']
                ctx.violation(key, what + f"  [project {case['project']}, meson setup {' '.join(case['setup_args'])}]", case)
        if len(ctx.samples) < 4:
            ctx.sample({'job': job['id'], 'args': job['args'], 'targets': len(raw['targets']), 'tests': len(raw['tests']),
                        'answers': {p: r['oracle'][p]['answer'][:60] for p in PARTS}})


def results_have_corpus(results: T.List[dict]) -> bool:
    return sum(1 for r in results if r['ok'] and r['job']['kind'] == 'corpus' and r['job'].get('name') in ('inst', 'instshapes')) >= 4


def run_jobs(jobs: T.List[dict]) -> T.List[dict]:
    scratch = common.scratch_dir('mverif-c15-')
    try:
        with ThreadPoolExecutor(16) as ex:
            return list(ex.map(lambda j: run_job(j, scratch), jobs))
    finally:
        common.rmtree(scratch)


def getenv_correspondence(ctx: Ctx) -> None:
    """the model's get_env against EnvironmentVariables.get_env on random operation sequences"""
    if not ctx.model_available:
        return
    from mesonbuild.utils.core import EnvironmentVariables
    n = ctx.scale(300, 3000)
    cases = []
    names = ['A', 'B', 'PATH', 'x y', '']
    vals = ['', 'v', 'a b', ':', '/p/q', 'é']
    for _ in range(n):
        ops = []
        for _ in range(ctx.rng.randint(0, 6)):
            ops.append([ctx.rng.choice(['set', 'append', 'prepend']), ctx.rng.choice(names),
                        [ctx.rng.choice(vals) for _ in range(ctx.rng.randint(0, 3))], ctx.rng.choice([':', ';', '', ', '])])
        cases.append(ops)
    lines = ['getenv ' + '&'.join(':'.join([o[0], S(o[1]), L(o[2]), S(o[3])]) for o in ops) for ops in cases]
    answers = ctx.driver('intro', lines)
    for ops, ans in zip(cases, answers):
        ev = EnvironmentVariables()
        for m, name, values, sep in ops:
            getattr(ev, m)(name, values, sep)
        real = ev.get_env({})
        exp = 'OK|' + '&'.join(S(k) + ':' + S(v) for k, v in real.items())
        ctx.extra['disagreements_checked'] += 1
        ctx.count(1)
        if ans != exp:
            ctx.disagreement({'part': 'getenv', 'ops': ops, 'lean': ans, 'python': exp})
        if real != env_of(ops):
            ctx.violation('oracle-self-check:env_of', 'harness env_of differs from EnvironmentVariables.get_env', {'ops': ops})
    ctx.tag('getenv-sequences', n)


# ------------------------------------------------------------------------------------------------ the producers of the test files

SER_WORKER = os.path.join(common.VERIF, 'harness', 'c15_ser.py')


def run_ser_worker(seed: int, ntests: int, subtables: int, scratch: str) -> dict:
    e = dict(os.environ)
    e['PATH'] = projgen.FAKEBIN + os.pathsep + e.get('PATH', '')
    e['PYTHONPATH'] = common.REPO
    e['PYTHONDONTWRITEBYTECODE'] = '1'
    for k in ('MESON_RSP_THRESHOLD', 'NINJA', 'CC', 'CFLAGS', 'LDFLAGS', 'CPPFLAGS', 'LD_LIBRARY_PATH'):
        e.pop(k, None)
    job = {'seed': seed, 'root': os.path.join(scratch, f'ser{seed}'), 'ntests': ntests, 'subtables': subtables,
           'meson': os.path.join(common.REPO, 'meson.py')}
    try:
        p = subprocess.run([sys.executable, SER_WORKER], input=json.dumps(job).encode(), env=e, stdout=subprocess.PIPE,
                           stderr=subprocess.PIPE, timeout=600, cwd=scratch)
        r = json.loads(p.stdout.decode('utf-8', errors='replace'))
    except Exception as ex:
        r = {'ok': False, 'error': f'{type(ex).__name__}: {ex}'}
    r['seed'] = seed
    return r


def ser_obj(o: list) -> str:
    k, v = o
    base = k[-1]
    if base in 'sf':
        return f'{k}:{S(v)}'
    if base == 't':
        return f'{k}:{v}'
    if base == 'x':
        return f'{k}:{L(v)}'
    return f'{k}:'


def ser_ops(ops: T.List[list]) -> str:
    return '&'.join(':'.join([o[0], S(o[1]), L(o[2]), S(o[3])]) for o in ops)


def ser_request(bd: str, darwin: bool, table: dict) -> str:
    objs = '/'.join(f'{a};{u}' for a, u in table['objs'])
    cells = '/'.join(ser_ops(c['ops']) + ';' + L(c['names']) for c in table['cells'])
    tg = '/'.join(';'.join([str(t['obj']), S(t['id']), t['kind'], S(t['dir']), S(t['filename']), L(t['outputs']),
                            '&'.join(f'{k}:{S(d)}' for k, d in t['linkdeps'])]) for t in table['targets'])
    ts = '/'.join(';'.join([S(t['name']), L(t['suite']), ser_obj(t['exe']), '&'.join(ser_obj(a) for a in t['args']),
                            '&'.join(str(d) for d in t['depends']), str(t['env']), S(t['is_parallel']), S(t['timeout']),
                            'n' if t['workdir'] is None else S(t['workdir']), S(t['protocol']), str(t['priority'])]) for t in table['tests'])
    return f"testser {S(bd)}|{'1' if darwin else '0'}|d|{objs}|{cells}|{tg}|{ts}"


def ser_expected(table: dict) -> str:
    """the real outcome in the driver's answer format"""
    if table['outcome'] != 'OK':
        return table['outcome']
    pk = '/'.join(';'.join([S(t['name']), L(t['fname']), L(t['cmd_args']), ser_ops(t['env']), L(t['unset']), S(t['workdir']), S(t['timeout']),
                            L(t['suite']), S(t['is_parallel']), S(t['priority']), S(t['protocol']), L(t['depends']), L(t['extra_paths'])])
                  for t in table['pickled'])
    it = '/'.join(';'.join([S(t['name']), L(t['cmd']), '&'.join(S(k) + ':' + S(v) for k, v in t['env']), S(t['workdir']), S(t['timeout']),
                            L(t['suite']), S(t['is_parallel']), S(t['priority']), S(t['protocol']), L(t['depends']), L(t['extra_paths'])])
                  for t in table['intro'])
    return f'OK|{pk}|{it}'


SER_FIELDS = ['name', 'workdir', 'timeout', 'suite', 'is_parallel', 'priority', 'protocol', 'extra_paths']


def oracle_ser_table(table: dict) -> T.List[T.Tuple[str, str, dict]]:
    """the property on the real results alone: the introspected entries (second serialisation) describe the pickled records (first)"""
    viol: T.List[T.Tuple[str, str, dict]] = []
    if table['outcome'] != 'OK':
        return viol
    pk, it = table['pickled'], table['intro']
    which = table['label'] if table['label'] in ('tests', 'benchmarks') else 'tests'
    if len(pk) != len(it):
        viol.append((f'{which}:count-differs', f'{len(it)} introspected entries, {len(pk)} serialised records', {}))
    for idx, (i, s) in enumerate(zip(it, pk)):
        bad = []
        if i['cmd'] != s['fname'] + s['cmd_args']:
            bad.append('cmd')
        used = {k: v for k, v in env_of(s['env']).items() if k not in s['unset']}
        if dict(map(tuple, i['env'])) != used:
            bad.append('env')
        if set(i['depends']) != set(s['depends']):
            bad.append('depends')
        bad += [f for f in SER_FIELDS if i[f] != s[f]]
        for b in bad:
            viol.append((f'{which}:{b}-differs', f"entry {idx} ({i['name']!r}): introspection (second serialisation) says "
                         f"{dict(map(tuple, i['env'])) if b == 'env' else i.get(b)!r}, the record pickled for `meson test` (first serialisation) gives "
                         f"{used if b == 'env' else (s['fname'] + s['cmd_args']) if b == 'cmd' else s.get(b)!r}", {'index': idx, 'intro': i, 'serialised': s}))
    if table.get('table_env_changed'):
        viol.append((f'{which}:serialisation-changes-the-test-environments', f"create_test_serialisation changed the environment objects of the tests "
                     f"{table['table_env_changed'][:4]!r} themselves: the next serialisation of the same table differs", {}))
    return viol


def serialisation_stream(ctx: Ctx, replay_seeds: T.Optional[T.List[T.Tuple[int, int]]] = None) -> None:
    """generated test tables built through the real Interpreter / Build objects: the Lean model of create_test_serialisation (twice) +
    get_test_list against the real functions; the property's clause on the real results"""
    if replay_seeds is None:
        nproj = ctx.scale(4, 40)
        nsub = ctx.scale(8, 16)
        jobs = [(ctx.rng.randrange(1 << 30), nsub) for _ in range(nproj)]
    else:
        jobs = replay_seeds
        nproj = len(jobs)
    scratch = common.scratch_dir('mverif-c15-ser-')
    try:
        with ThreadPoolExecutor(8) as ex:
            results = list(ex.map(lambda j: run_ser_worker(j[0], 36, j[1], scratch), jobs))
    finally:
        common.rmtree(scratch)
    nsub_of = dict(jobs)
    lines: T.List[str] = []
    index: T.List[T.Tuple[dict, dict]] = []
    failed = 0
    for r in results:
        if not r.get('ok'):
            failed += 1
            ctx.extra.setdefault('serialisation_worker_failures', []).append({'seed': r['seed'], 'error': str(r.get('error'))[-600:]})
            continue
        m = r.get('machine', {})
        if m.get('windows') or m.get('cross') or m.get('need_wrapper') or m.get('wsl'):
            ctx.obligation_failed('serialisation-stream', f'the model of create_test_serialisation covers a native non-Windows machine; got {m}')
            continue
        ctx.extra['programs'] += 1
        for table in r['tables']:
            case = {'part': 'create_test_serialisation x2 + get_test_list', 'generator_seed': r['seed'], 'subtables': nsub_of.get(r['seed']), 'table': table['label'],
                    'meson.build': r.get('meson_build'), 'tests_of_the_table': [t['name'] for t in table.get('tests', [])]}
            if 'describe_error' in table:
                ctx.obligation_failed('serialisation-stream', f"cannot describe the test table of seed {r['seed']}: {table['describe_error']}")
                continue
            ctx.count(len(table['tests']) + 1)
            ctx.tag('serialisation table: ' + ('OK' if table['outcome'] == 'OK' else table['outcome']))
            ctx.tag('serialisation table tests', len(table['tests']))
            for t in table['tests']:
                ctx.tag('test program kind: ' + t['exe'][0])
                for a in t['args']:
                    ctx.tag('test argument kind: ' + a[0])
            shared = len(table['tests']) - len({t['env'] for t in table['tests']})
            if shared:
                ctx.tag('tests sharing an environment object with another test of the table', shared)
            if table['outcome'] == 'OK':
                if any(any(o[1] in ('LD_LIBRARY_PATH',) and o[0] == 'prepend' for o in s['env'][-1:]) for s in table['pickled']):
                    ctx.tag('serialisation tables with an LD_LIBRARY_PATH prepend')
                if any(s['unset'] for s in table['pickled']):
                    ctx.tag('serialisation tables with unset variables')
                ctx.seen_nontrivial(('ser', r['seed'], table['label']))
            elif table['outcome'].startswith('ERR:other'):
                ctx.obligation_failed('serialisation-stream', f"create_test_serialisation raised {table['outcome']} ({table.get('message')}) on seed {r['seed']} table {table['label']}")
            for key, what, detail in oracle_ser_table(table):
                c = dict(case)
                c['detail'] = detail
                ctx.violation(key, what + f"  [in-process configuration of the generated project seed {r['seed']}, table {table['label']}]", c)
            lines.append(ser_request(r['build_dir'], bool(m.get('darwin')), table))
            index.append((case, table))
    if failed > max(1, nproj // 4):
        ctx.obligation_failed('serialisation-stream', f"{failed} of {nproj} in-process configurations failed: {ctx.extra['serialisation_worker_failures'][0]}")
    if ctx.model_available and lines:
        for (case, table), ans in zip(index, ctx.driver('intro', lines)):
            ctx.extra['disagreements_checked'] += 1
            exp = ser_expected(table)
            if ans != exp:
                d = dict(case)
                d.update({'lean': ans[:3000], 'python': exp[:3000]})
                ctx.disagreement(d)
    if results and not failed and replay_seeds is None:
        for need in ('serialisation table: OK', 'serialisation table: ERR:prepend-to-unset', 'serialisation tables with an LD_LIBRARY_PATH prepend',
                     'serialisation tables with unset variables', 'tests sharing an environment object with another test of the table'):
            if not ctx.dist.get(need):
                ctx.obligation_failed('vacuity', f'the serialisation stream never produced: {need}')


# every field of the introspection files and the witness it is compared with; `independent` = does not share the producing function
WITNESSES = {
    'targets.filename': ('independent', 'outputs of the statements of build.ninja (Lean manifest parser / Python reader)'),
    'targets.target_sources.sources/generated_sources': ('independent', 'explicit inputs of the compile statements of build.ninja'),
    'targets.target_sources.language/compiler/parameters': ('independent', 'rule name, rule command and ARGS of the compile statements'),
    'tests.cmd': ('independent', 'argv received by dumper programs in a real `meson test --no-rebuild` run (corpus tests, mixed); same-source: meson_test_setup.dat'),
    'tests.env': ('independent', 'environment received by the dumper programs; same-source: get_env of the pickled operations'),
    'tests.workdir': ('independent', 'cwd of the dumper programs; same-source: meson_test_setup.dat'),
    'tests.depends': ('independent', 'inputs of `build meson-test-prereq / meson-benchmark-prereq: phony` in build.ninja; every built file on the command '
                                     'line belongs to a target in depends; same-source: meson_test_setup.dat'),
    'tests.suite/is_parallel/timeout/priority/protocol/extra_paths': ('same-source only', 'meson_test_setup.dat (what `meson test` unpickles)'),
    'buildoptions.value': ('independent', 'per project: every (sub)project prints message(get_option()) for every option; a row `P:name` (`:name` = top-level project) '
                                          'must show what P printed, a global row what every project without a row of its own printed; also on the rows shown by '
                                          '`meson introspect --buildoptions` after `meson configure` and after the following reconfigure'),
    'install_plan.destination/tag/subproject': ('independent', 'files created by real `meson install --destdir [--tags|--skip-subprojects]` (corpus inst, instshapes); '
                                                               'same-source: install.dat'),
    'install_plan.exclude_*/install_rpath': ('same-source only', 'install.dat'),
    'installed': ('independent', 'files created by the real install; same-source: install.dat'),
    'buildsystem_files': ('independent', 'audit log of opened files; REGENERATE_BUILD inputs of build.ninja'),
}

# kinds of objects a test can take (read from the live annotations) -> the corpus case that uses it
TEST_OBJECT_CASES = {
    ('exe', 'Executable'): 'tests: plain', ('exe', 'CustomTarget'): 'tests: kind-exe-customtarget',
    ('exe', 'CustomTargetIndex'): 'tests: kind-exe-customtarget-index', ('exe', 'File'): 'tests: kind-exe-file',
    ('exe', 'Program'): 'tests: script (ExternalProgram), kind-exe-override-of-executable / -of-script (LocalProgram, overrides)',
    ('exe', 'Jar'): None,     # no Java here
    ('args', 'str'): 'tests: with-args', ('args', 'File'): 'tests: with-args, kind-arg-configure-file (built File)',
    ('args', 'BuildTarget'): 'tests: with-args (executable), kind-arg-libraries (static, shared)', ('args', 'CustomTarget'): 'tests: with-args',
    ('args', 'CustomTargetIndex'): 'tests: script-data, kind-arg-index-only', ('args', 'Program'): 'tests: kind-arg-override',
    ('depends', 'BuildTarget'): 'tests: depends', ('depends', 'CustomTarget'): 'tests: depends', ('depends', 'CustomTargetIndex'): 'tests: kind-depends-index',
    ('depends', 'Program'): 'tests: kind-depends-program (override of an executable)',
}


def test_object_kinds() -> T.Set[T.Tuple[str, str]]:
    """(position, class name) for everything test()/benchmark() accepts, from the live type tables"""
    from mesonbuild.interpreter import type_checking as tc
    from mesonbuild.interpreter.interpreter import Interpreter
    kinds: T.Set[T.Tuple[str, str]] = set()
    for kw in tc.TEST_KWS:
        if kw.name in ('args', 'depends'):
            types = kw.types.contains if hasattr(kw.types, 'contains') else kw.types
            for ty in (types if isinstance(types, tuple) else (types,)):
                kinds.add((kw.name, ty.__name__))
    ann = str(Interpreter.make_test.__annotations__.get('args', ''))
    for name in re.findall(r'(?:build|mesonlib)\.(\w+)|\b(Program)\b', ann):
        kinds.add(('exe', name[0] or name[1]))
    return kinds


def run(ctx: Ctx) -> None:
    ctx.rule = ('one case per (corpus project | projgen seed, option arguments, machine files); every target, test, benchmark, install record '
                'and observed option of a case is one evaluation')
    ctx.extra['programs'] = 0
    ctx.extra['disagreements_checked'] = 0
    ctx.assumptions += [
        'C / C++ / .S projects (gcc), ninja backend, Linux; cross files only for host == build (no exe wrapper); DESTDIR empty when destinations are compared',
        'install_symlink / install_emptydir are not among the things the property lists: symlinks are compared in intro-installed.json only, '
        'empty directories are only counted',
        'option values without quotes, backslashes or newlines (message() formatting is then unambiguous)',
        'destinations are compared modulo repeated and trailing slashes',
    ]
    ctx.extra['witnesses'] = {k: f'{v[0]}: {v[1]}' for k, v in WITNESSES.items()}
    try:
        kinds = test_object_kinds()
        ctx.extra['test_object_kinds'] = {f'{a}:{b}': TEST_OBJECT_CASES.get((a, b)) or 'NOT COVERED' for a, b in sorted(kinds)}
        for k in sorted(kinds):
            if k not in TEST_OBJECT_CASES:
                ctx.obligation_failed('test-object-kinds', f'test()/benchmark() accept {k[1]} as {k[0]}; no corpus case uses that kind')
        if len(kinds) < 8:
            ctx.obligation_failed('test-object-kinds', f'could not read the accepted kinds from the type tables: {sorted(kinds)}')
    except Exception as e:
        ctx.obligation_failed('test-object-kinds', f'{type(e).__name__}: {e}')
    jobs = make_jobs(ctx)
    jobs_by_id = {j['id']: j for j in jobs}
    results = run_jobs(jobs)
    evaluate(ctx, results, jobs_by_id)
    getenv_correspondence(ctx)
    serialisation_stream(ctx)
    if results_have_corpus(results):
        for k in TRANSFORMATIONS:
            if not ctx.dist.get('transformation acts: ' + k):
                ctx.obligation_failed('vacuity', f'no configured project exercises the transformation {k!r} as a non-identity: the destination '
                                                  f'comparison would be vacuous for it')
    if results_have_corpus(results):
        for ph in ('setup', 'meson configure', 'reconfigure'):
            for who in ('top-level-only core', 'subproject core', 'subproject base', 'subproject compiler'):
                if not ctx.dist.get(f'option rows that differ from the global row [{ph}]: {who}'):
                    ctx.obligation_failed('vacuity', f'no configured project has a {who} option row that differs from the global row [{ph}]')
    fails = ctx.extra.get('configure_failures', [])
    if len(fails) > max(2, len(jobs) // 5):
        ctx.obligation_failed('configure', f'{len(fails)} of {len(jobs)} meson setup runs failed: {fails[0]}')
    ctx.extra['explanation'] = ('every case is one real `meson setup`; programs = configured build directories; disagreements_checked = Lean checker '
                                'answers compared with the independent Python evaluation (six per build directory) + get_env sequences')


def search(ctx: Ctx, disagreements: T.List[dict]) -> None:
    """a disagreement is already a concrete case; re-run the oracle on more generated projects for a violating input"""
    saved = ctx.deep
    ctx.deep = True
    try:
        jobs = make_jobs(ctx)[:80]
        results = run_jobs(jobs)
        evaluate(ctx, results, {j['id']: j for j in jobs})
    finally:
        ctx.deep = saved


def replay(ctx: Ctx, rep: dict) -> None:
    """re-run the recorded project(s) with the recorded arguments; both evaluations are repeated"""
    ctx.extra.setdefault('programs', 0)
    ctx.extra.setdefault('disagreements_checked', 0)
    cases = [rep.get('case', rep)]
    if rep.get('correspondence_disagreements'):
        cases = list(rep['correspondence_disagreements'])
    jobs = []
    ser_jobs: T.List[T.Tuple[int, int]] = []
    for n, case in enumerate(cases):
        inp = case.get('input', case)
        if 'generator_seed' in inp:
            j = (int(inp['generator_seed']), int(inp.get('subtables') or 8))
            if j not in ser_jobs:
                ser_jobs.append(j)
            continue
        if 'setup_args' not in inp:
            continue
        if inp.get('kind') == 'corpus':
            files, empt = corpus_files(inp['project'])
            job = {'id': f'replay{n}', 'kind': 'corpus', 'name': inp['project'], 'label': 'replay', 'files': files, 'emptydirs': empt}
        else:
            files = case.get('files') or inp.get('files') or rep.get('files')
            if not files:
                continue
            job = {'id': f'replay{n}', 'kind': 'gen', 'seed': None, 'features': None, 'label': 'replay', 'files': files}
        args = list(inp.get('setup_args', []))
        for flag in ('--native-file', '--cross-file'):
            while flag in args:
                k = args.index(flag)
                del args[k:k + 2]
        job['conf_args'] = inp.get('then_meson_configure')
        job['machine'] = inp.get('machine') or ('native' if '--native-file' in inp.get('setup_args', []) else 'none')
        job['args'] = args
        jobs.append(job)
    results = run_jobs(jobs)
    evaluate(ctx, results, {j['id']: j for j in jobs})
    if ser_jobs:
        serialisation_stream(ctx, ser_jobs)
