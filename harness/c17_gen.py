"""C17 — generators: meson expressions (as source text), projects, rewriter commands.

Everything is driven by the `random.Random` handed in. A generated project is "clean" unless a hazard class
is requested; each hazard class is one way the pinned AstPrinter / apply_changes is known to go wrong
(see known_findings.txt), so that anything ELSE going wrong shows up on clean projects under its own key.
"""
from __future__ import annotations

import os
import typing as T

HAZARDS = ['quote', 'parens', 'linesep', 'ws_newline', 'raw_newline', 'cr', 'ordercmp', 'nested_edit']

CLEAN_STRS = ['abc', 'a b', 'x-y_z', 'a\\\\b', 'C:\\\\dir\\\\f', 'é', '中文', 'naïve 😀', '@0@', '#nc', 'say "hi"',
              'tab\\there', '\\x41bc', '\\u00e9t', 'a, b', 'k=v', '-DX=1', '', 'end\\\\', '(p)', 'not (a and b)', '%d', 'f{x}']
QUOTE_STRS = ["it\\'s", "\\'q\\'", "a\\\\\\'b", "-DNAME=\\'x\\'"]
WSNL_STRS = ['a \\nb', 't\\t\\nx']          # whitespace before an (escaped) newline
RAWNL_STRS = ['l1\\nl2', 'end\\n']
CR_STRS = ['a\\rb']
EXOTIC_SEPS = ['\x0c', '\x0b', '\x1c', '\x1d', '\x1e', '\x85', '\u2028', '\u2029']


class ExprGen:
    """meson expression source text over the variables x,y (bool) n,m (int) s,u (str) lst (list of str)"""

    def __init__(self, rng, hazard: T.Optional[str] = None):
        self.rng = rng
        self.hazard = hazard
        self.hazard_used = False

    def pick(self, l):
        return self.rng.choice(l)

    def take_hazard(self, name: str) -> bool:
        """True exactly once per generator when `name` is the requested hazard (and then with prob. 1/2 more often)"""
        if self.hazard != name:
            return False
        if not self.hazard_used or self.rng.random() < 0.3:
            self.hazard_used = True
            return True
        return False

    # ---- strings
    def strlit(self) -> str:
        if self.take_hazard('quote'):
            return "'" + self.pick(QUOTE_STRS) + "'"
        if self.take_hazard('ws_newline'):
            if self.rng.random() < 0.4:
                return "'''ml  \nx'''"
            return "'" + self.pick(WSNL_STRS) + "'"
        if self.take_hazard('raw_newline'):
            return "'" + self.pick(RAWNL_STRS) + "'"
        if self.take_hazard('cr'):
            return "'" + self.pick(CR_STRS) + "'"
        r = self.rng.random()
        if r < 0.06:
            return "'''" + self.pick(['multi', "it's ml", 'a\\b', 'l1\nl2']) + "'''"
        if r < 0.10:
            return "f'" + self.pick(['v=@n@', 'plain', 'a\\\\b']) + "'"
        return "'" + self.pick(CLEAN_STRS) + "'"

    def strx(self, d: int) -> str:
        r = self.rng.random()
        if d <= 0 or r < 0.45:
            return self.pick([self.strlit(), self.strlit(), 's', 'u'])
        if r < 0.60:
            return self.strx(d - 1) + self.pick([' + ', ' / ']) + self.strx(d - 1)
        if r < 0.68:
            return '(' + self.strx(d - 1) + ')'
        if r < 0.76:
            return "'@0@-@1@'.format(" + self.intx(d - 1) + ', ' + self.strx(d - 1) + ')'
        if r < 0.82:
            return self.intatom(d - 1) + '.to_string()'
        if r < 0.88:
            return 'lst[' + self.pick(['0', '1', 'n - 3']) + ']'
        if r < 0.94:
            return self.pick(['s', 'u', self.strlit()]) + self.pick(['.to_upper()', '.strip()', ".split('-')[0]", '.underscorify()'])
        if self.take_hazard('parens'):
            return '(' + self.strx(d - 1) + ' + ' + self.strx(d - 1) + ')' + self.pick(['.to_upper()', '.strip()', '[0]'])
        return '(' + self.pick(['s', 'u']) + ').to_lower()'

    # ---- integers
    def intatom(self, d: int) -> str:
        """something `.to_string()` can be called on without parentheses mattering"""
        if self.take_hazard('parens'):
            return '(' + self.intx(d) + self.pick([' + ', ' * ', ' - ']) + self.intx(d) + ')'
        return self.pick(['n', 'm', '7', '(n)', 'lst.length()'])

    def intx(self, d: int) -> str:
        r = self.rng.random()
        if d <= 0 or r < 0.4:
            return self.pick(['n', 'm', '0', '1', '2', '42', '0x1F', '0o17', '0b101', 'lst.length()'])
        if r < 0.75:
            op = self.pick([' + ', ' - ', ' * ', ' / ', ' % '])
            a = self.intx(d - 1)
            b = self.intx(d - 1)
            if op in (' / ', ' % '):
                # never zero (the AstInterpreter evaluates arithmetic eagerly) — but of every shape: a same-precedence
                # right operand under / and % is where the printer must re-create parentheses
                b = self.pick(['2', '3', '7', 'm', '(n)', 'n + 1', '0x10', 'm * 2', 'n * m', '7 / 2', 'm % 3 + 1', '5 % 3',
                               'm / 2', '(n * 2)', '(m / 2)', '(5 % 3)', 'm - 1'])
            if self.rng.random() < 0.08:
                b = 'x ? n : m'    # gets its parentheses below; the printer must re-create them
            # parentheses around arithmetic operands: the printer re-creates exactly the needed ones
            if self.rng.random() < 0.5 and not a.startswith('-'):
                a = '(' + a + ')'
            if self.rng.random() < 0.5 or '?' in b:
                b = '(' + b + ')'
            elif b.startswith('-') or '?' in b:
                b = '(' + b + ')'
            return a + op + b
        if r < 0.85:
            return '(' + self.intx(d - 1) + ')'
        if r < 0.93:
            if self.take_hazard('parens'):
                return '-(' + self.intx(d - 1) + self.pick([' + ', ' - ']) + self.intx(d - 1) + ')'
            return '-' + self.pick(['n', 'm', '5', '(n)', 'lst.length()'])
        return self.pick(['n', 'm', 'lst.length()', '9'])

    # ---- booleans
    def boolx(self, d: int, top: bool = False) -> str:
        r = self.rng.random()
        if d <= 0 or r < 0.3:
            return self.pick(['true', 'false', 'x', 'y', "s == 'a'", 'n != m', "lst.contains('a')", "s.startswith('a')"])
        if r < 0.42:
            if self.take_hazard('parens'):
                return 'not (' + self.boolx(d - 1) + self.pick([' and ', ' or ']) + self.boolx(d - 1) + ')'
            return 'not ' + self.pick(['x', 'y', '(x)', "lst.contains('b')", '(y)'])
        if r < 0.58:
            # `and` binds tighter than `or`: parentheses here are redundant
            a = self.andchain(d - 1)
            b = self.andchain(d - 1)
            if self.rng.random() < 0.4:
                a = '(' + a + ')'
            return a + ' or ' + b
        if r < 0.74:
            return self.andchain(d)
        if r < 0.86:
            op = self.pick([' == ', ' != '])
            if self.take_hazard('ordercmp'):
                op = self.pick([' < ', ' <= ', ' > ', ' >= '])
            a, b = self.intx(d - 1), self.intx(d - 1)
            if self.rng.random() < 0.3:
                a = '(' + a + ')'
            return a + op + b
        if r < 0.92:
            return self.strx(d - 1) + self.pick([' in ', ' not in ']) + 'lst'
        if r < 0.96:
            return '(' + self.boolx(d - 1) + ')'
        return '(' + self.pick(['x', 'y']) + ' ? ' + self.pick(['x', 'true']) + ' : ' + self.pick(['y', 'false']) + ')'

    def andchain(self, d: int) -> str:
        def operand() -> str:
            if self.take_hazard('parens'):
                return '(' + self.pick(['x', 'y', 'n == m']) + ' or ' + self.pick(['x', 'y', 'true']) + ')'
            return self.pick(['x', 'y', 'n == m', '(x)', 'not y', "s != 'q'", '(n != m)', "lst.contains('c')"])
        k = self.rng.randint(1, 3)
        return ' and '.join(operand() for _ in range(k))

    def listx(self, d: int, elem: str = 'str') -> str:
        k = self.rng.randint(0, 4)
        f = {'str': self.strx, 'int': self.intx, 'bool': self.boolx}[elem]
        items = [f(d) for _ in range(k)]
        if self.rng.random() < 0.15:
            return 'lst + [' + ', '.join(items) + ']'
        return '[' + ', '.join(items) + ']'

    def dictx(self, d: int) -> str:
        k = self.rng.randint(0, 3)
        return '{' + ', '.join("'k%d': %s" % (i, self.pick([self.strx(d), self.intx(d), self.boolx(d)])) for i in range(k)) + '}'


# keyword arguments of build targets that the rewriter's `kwargs` command never touches ("other arguments")
OTHER_KW = [
    ('c_args', 'liststr'), ('link_args', 'liststr'), ('cpp_args', 'liststr'), ('override_options', 'liststr'),
    ('name_prefix', 'str'), ('name_suffix', 'str'), ('install_mode', 'str'), ('implicit_include_directories', 'bool'),
    ('native', 'bool'), ('win_subsystem', 'str'), ('d_unittest', 'bool'), ('d_module_versions', 'listint'),
    ('link_language', 'str'), ('vs_module_defs', 'str'), ('objects', 'liststr'), ('rust_args', 'liststr'),
    ('env_like', 'dict'),
]
# keyword arguments the `kwargs` command knows for targets (rewriter_func_kwargs['target'])
TGT_KW_BOOL = ['build_by_default', 'gui_app', 'export_dynamic', 'implib', 'install', 'pie']
TGT_KW_STR = ['build_rpath', 'install_dir', 'install_rpath']
TGT_KW_IDLIST = ['dependencies', 'link_with']
DEP_KW_BOOL = ['native', 'required', 'static']
DEP_KW_STR = ['language', 'method', 'not_found_message']
DEP_KW_STRLIST = ['version', 'modules']
PROJ_KW_STR = ['meson_version', 'subproject_dir', 'version']
PROJ_KW_STRLIST = ['license', 'license_files']
DEFAULT_OPTS = [('warning_level', ['0', '1', '2', '3']), ('buildtype', ['debug', 'release', 'plain']),
                ('cpp_std', None), ('werror', ['true', 'false']), ('default_library', ['shared', 'static', 'both']),
                ('optimization', ['0', '2', 's']), ('debug', ['true', 'false']), ('unity', ['on', 'off'])]

# list-valued keyword arguments are built from pools with deliberate near-collisions: keys that are a suffix /
# prefix of another key, keys embedded in values, subproject-qualified keys, duplicates, entries without `=`
DEFOPT_POOL = ['debug=true', 'debug=false', 'b_ndebug=if-release', 'sub:debug=true', 'c_args=-Ddebug=1', 'prefix=/debug=x',
               'warning_level=1', 'warning_level=3', 'sub:warning_level=2', 'unity=on', 'unity_size=4', 'sub:unity=off',
               'c_args=-Dunity=1', 'c_std=c99', 'objc_std=c11', 'cpp_std=c++14', 'werror=true', 'prefix=/opt/werror=1',
               'buildtype=release', 'default_library=static', 'optimization=2']
DEFOPT_KEYS_SETTABLE = [('debug', ['true', 'false']), ('warning_level', ['0', '2', '3']), ('unity', ['on', 'off']),
                        ('werror', ['true', 'false']), ('buildtype', ['debug', 'plain']), ('unity_size', ['8']),
                        ('default_library', ['shared', 'both']), ('optimization', ['0', 's'])]
DEFOPT_KEYS_DELETE_ONLY = ['c_std', 'std', 'ndebug', 'level', 'b_ndebug', 'prefix', 'c_args', 'sub:debug']
LICENSE_POOL = ['MIT', 'MIT-0', 'X-MIT', 'GPL-2.0', 'LGPL-2.0', 'GPL-2.0-or-later', 'BSD', 'noequals', 'a=b']
LICENSE_REGEX = ['MIT', 'GPL', '.*MIT', 'GPL-2\\.0$', 'X', 'L?GPL.*', 'MIT$', '[A-Z]+-0', 'BSD|MIT', '.*=']
VERSION_POOL = ['>=1.0', '>=1.0.1', '<3', '!=1.5', '>=1', '<3.5']
VERSION_REGEX = ['>=1', '>=1\\.0$', '.*1', '<3', '[<>]=?1.*', '!=']
MODULE_POOL = ['core', 'core-extra', 'xcore', 'gui', 'gui2']
MODULE_REGEX = ['core', 'core$', '.*core', 'gui.', 'x?core-.*']


def near_collision_list(rng, pool: T.List[str], lo: int = 0, hi: int = 5) -> T.List[str]:
    l = rng.sample(pool, min(len(pool), rng.randint(lo, hi)))
    if l and rng.random() < 0.25:
        l.insert(rng.randint(0, len(l)), rng.choice(l))     # a duplicate
    return l


TARGET_FUNCS = ['executable', 'library', 'static_library', 'shared_library']


def value_text(eg: ExprGen, kind: str, d: int) -> str:
    if kind == 'liststr':
        return eg.listx(d, 'str')
    if kind == 'listint':
        return eg.listx(d, 'int')
    if kind == 'str':
        return eg.strx(d)
    if kind == 'bool':
        return eg.boolx(d)
    if kind == 'dict':
        return eg.dictx(d)
    raise AssertionError(kind)


LAYOUTS = ['one', 'one', 'per', 'mixed']


def join_args(rng, args: T.List[str], comments: bool, layout: T.Optional[str] = None) -> str:
    """argument list text in one of the layouts: everything on one line, one element per line, mixed (several
    elements per line, lines broken at random places); optionally with comments between arguments"""
    if layout is None:
        layout = rng.choice(LAYOUTS)
    if comments and layout == 'one':
        layout = 'mixed'
    if layout == 'one':
        return ', '.join(args)
    out = []
    line: T.List[str] = []
    for i, a in enumerate(args):
        last = i == len(args) - 1
        sep = ',' if (not last or rng.random() < 0.5) else ''
        line.append(a + sep)
        c = ''
        brk = layout == 'per' or last or rng.random() < 0.4
        if comments and rng.random() < 0.4:
            c = ' # ' + rng.choice(['note', 'c%d' % i, 'was: old()', "it's", 'x, y'])
            brk = True
        if brk:
            out.append(' '.join(line) + c)
            line = []
    return '\n  ' + '\n  '.join(out) + '\n'


def gen_project(rng, hazard: T.Optional[str] = None, ntargets: T.Optional[int] = None) -> T.Dict[str, T.Any]:
    eg = ExprGen(rng, hazard)
    depth = rng.choice([0, 1, 1, 2, 2, 3])
    lines: T.List[str] = []
    files: T.Dict[str, str] = {}
    pool = ['s%d.c' % i for i in range(8)]
    extra_pool = ['e%d.txt' % i for i in range(4)]
    for f in pool + extra_pool + ['new%d.c' % i for i in range(3)] + ['newe%d.txt' % i for i in range(2)]:
        files[f] = ''
    # project()
    pk: T.List[str] = ["'demo'"]
    proj_meta: T.Dict[str, T.Any] = {}
    if rng.random() < 0.6:
        v = rng.choice(['1.0', '0.1.2', '2'])
        pk.append("version: '%s'" % v)
        proj_meta['version'] = v
    if rng.random() < 0.6:
        ol = near_collision_list(rng, DEFOPT_POOL)
        proj_meta['default_options'] = ol
        if len(ol) == 1 and rng.random() < 0.3:
            pk.append("default_options: '%s'" % ol[0])
        else:
            pk.append('default_options: [' + ', '.join("'%s'" % o for o in ol) + ']')
    if rng.random() < 0.3:
        lic = near_collision_list(rng, LICENSE_POOL, 1, 4)
        proj_meta['license'] = lic
        pk.append("license: '%s'" % lic[0] if len(lic) == 1 and rng.random() < 0.3
                  else 'license: [' + ', '.join("'%s'" % x for x in lic) + ']')
    if rng.random() < 0.3:
        pk.append("meson_version: '>=0.50'")
        proj_meta['meson_version'] = '>=0.50'
    lines.append('project(' + join_args(rng, pk, rng.random() < 0.15) + ')')
    if rng.random() < 0.5:
        lines.append('# build definition ' + rng.choice(['(generated)', "it's a test", 'a = [1, 2]']))
    lines += ['x = true', 'y = false', 'n = 3', 'm = 4', "s = 'str'", "u = 'b-c'", "lst = ['a', 'b', 'c']"]
    if hazard == 'linesep':
        sep = rng.choice(EXOTIC_SEPS)
        if rng.random() < 0.7:
            lines.append('# page' + sep + 'break')
        else:
            lines.append("note = 'p" + sep + "q'")
    if rng.random() < 0.4:
        lines.append('')
    # dependencies
    deps: T.Dict[str, T.Any] = {}
    for i in range(rng.choice([0, 0, 1, 2])):
        kw: T.List[str] = []
        dm: T.Dict[str, T.Any] = {}
        if rng.random() < 0.6:
            b = rng.random() < 0.5
            kw.append('required: ' + ('true' if b else 'false'))
            dm['required'] = b
        if rng.random() < 0.5:
            vs = near_collision_list(rng, VERSION_POOL, 1, 3)
            dm['version'] = vs
            kw.append('version: ' + ("'%s'" % vs[0] if len(vs) == 1 and rng.random() < 0.5
                                     else '[' + ', '.join("'%s'" % v for v in vs) + ']'))
        if rng.random() < 0.35:
            ms = near_collision_list(rng, MODULE_POOL, 1, 3)
            dm['modules'] = ms
            kw.append('modules: [' + ', '.join("'%s'" % v for v in ms) + ']')
        if rng.random() < 0.4:
            kw.append('fallback: [' + eg.strx(min(depth, 1)) + ", 'dep']")
        if rng.random() < 0.3:
            kw.append('default_options: ' + eg.listx(min(depth, 1)))
        name = 'zdep%d' % i
        lines.append('dep%d = dependency(' % i + join_args(rng, ["'%s'" % name] + kw, False) + ')')
        deps['dep%d' % i] = {'name': name, **dm}
    # targets
    nt = ntargets if ntargets is not None else rng.choice([1, 2, 2, 3, 4])
    targets: T.Dict[str, T.Any] = {}
    shared_var: T.Optional[str] = None
    for i in range(nt):
        name = 't%d' % i
        func = rng.choice(TARGET_FUNCS)
        srcs = rng.sample(pool, rng.randint(1, 4))
        form = rng.choice(['inline', 'inline', 'var', 'files', 'varfiles', 'varfiles_list', 'kw', 'mixed',
                           'files2', 'arrays2', 'files_plus', 'kw_lists', 'files2', 'arrays2'])
        if hazard == 'nested_edit':
            form = 'inline_and_files'
        if form in ('files2', 'arrays2', 'files_plus', 'kw_lists', 'inline_and_files'):
            srcs = rng.sample(pool, rng.randint(2, 5))
        tm: T.Dict[str, T.Any] = {'func': func, 'form': form, 'srcs': list(srcs), 'shared': False, 'extra': None,
                                  'lists': [list(srcs)]}
        pre: T.List[str] = []
        args: T.List[str] = ["'%s'" % name]
        q = lambda l: ', '.join("'%s'" % s_ for s_ in l)  # noqa: E731
        if form == 'inline':
            args += ["'%s'" % s_ for s_ in srcs]
        elif form == 'var':
            if shared_var and rng.random() < 0.15:
                args.append(shared_var)
                tm['shared'] = True
                tm['srcs'] = list(targets[shared_var.replace('srcs', 't')]['srcs'])
                targets[shared_var.replace('srcs', 't')]['shared'] = True
            else:
                pre.append('srcs%d = [%s]' % (i, q(srcs)))
                args.append('srcs%d' % i)
                shared_var = 'srcs%d' % i
        elif form == 'files':
            args.append('files(%s)' % q(srcs))
        elif form == 'varfiles':
            pre.append('srcs%d = files(%s)' % (i, q(srcs)))
            args.append('srcs%d' % i)
        elif form == 'varfiles_list':
            pre.append('srcs%d = files([%s])' % (i, q(srcs)))
            args.append('srcs%d' % i)
        elif form == 'kw':
            pass
        elif form in ('files2', 'arrays2', 'files_plus', 'kw_lists', 'inline_and_files'):
            # the sources are spread over two or three sibling lists (usually on ONE line)
            nl = 2 if len(srcs) < 3 or rng.random() < 0.7 else 3
            cuts = sorted(rng.sample(range(1, len(srcs)), nl - 1))
            parts = [srcs[a:b] for a, b in zip([0] + cuts, cuts + [len(srcs)])]
            tm['lists'] = [list(p_) for p_ in parts]
            if form == 'files2':
                args += ['files(%s)' % q(p_) for p_ in parts]
            elif form == 'arrays2':
                args += ['[%s]' % q(p_) for p_ in parts]
            elif form == 'files_plus':
                args.append(' + '.join(rng.choice(['files(%s)', '[%s]']) % q(p_) for p_ in parts))
            elif form == 'inline_and_files':
                args += ["'%s'" % s_ for s_ in parts[0]] + ['files(%s)' % q(p_) for p_ in parts[1:]]
        elif form == 'mixed':
            k = rng.randint(0, len(srcs) - 1)
            tm['lists'] = [list(srcs[:k]), list(srcs[k:])]
            pre.append('srcs%d = [%s]' % (i, q(srcs[:k])))
            args.append('srcs%d' % i)
            args += ["'%s'" % s_ for s_ in srcs[k:]]
        kws: T.List[str] = []
        if form == 'kw':
            kws.append('sources: [%s]' % q(srcs))
        if form == 'kw_lists':
            kws.append('sources: [' + ', '.join(rng.choice(['files(%s)', '[%s]']) % q(p_) for p_ in tm['lists']) + ']')
        # extra_files
        r = rng.random()
        if r < 0.2:
            ex = rng.sample(extra_pool, rng.randint(1, 2))
            kws.append('extra_files: [%s]' % q(ex))
            tm['extra'] = ex
        elif r < 0.3:
            ex = rng.sample(extra_pool, rng.randint(1, 2))
            kws.append('extra_files: files(%s)' % q(ex))
            tm['extra'] = ex
        elif r < 0.4:
            ex = rng.sample(extra_pool, 1)
            kws.append("extra_files: '%s'" % ex[0])
            tm['extra'] = ex
        elif r < 0.5:
            ex = rng.sample(extra_pool, rng.randint(2, 3))
            kws.append('extra_files: [files(%s), %s]' % (q(ex[:1]), rng.choice(['files(%s)', '[%s]']) % q(ex[1:])))
            tm['extra'] = ex
            tm['extra_lists'] = [ex[:1], ex[1:]]
        # kwargs known to the `kwargs` command, with literal values
        kwm: T.Dict[str, T.Any] = {}
        for k in rng.sample(TGT_KW_BOOL, rng.randint(0, 2)):
            if rng.random() < 0.7:
                b = rng.random() < 0.5
                kws.append('%s: %s' % (k, 'true' if b else 'false'))
                kwm[k] = b
            else:
                kws.append('%s: %s' % (k, eg.boolx(depth)))
                kwm[k] = ('complex',)
        for k in rng.sample(TGT_KW_STR, rng.randint(0, 1)):
            if rng.random() < 0.6:
                kws.append("%s: '%s'" % (k, 'dir/x'))
                kwm[k] = 'dir/x'
            else:
                kws.append('%s: %s' % (k, eg.strx(depth)))
                kwm[k] = ('complex',)
        if deps and rng.random() < 0.4:
            dl = rng.sample(sorted(deps), rng.randint(1, len(deps)))
            kws.append('dependencies: [' + ', '.join(dl) + ']' if len(dl) > 1 or rng.random() < 0.5 else 'dependencies: ' + dl[0])
            kwm['dependencies'] = dl
        if i > 0 and rng.random() < 0.25:
            prev = [t for t, m_ in targets.items() if m_['func'] != 'executable' and not m_['in_if']]
            if prev:
                kws.append('link_with: [%s]' % prev[0])
                kwm['link_with'] = [prev[0]]
        # other arguments with arbitrary expressions
        for k, kind in rng.sample(OTHER_KW, rng.randint(0, 4)):
            kws.append('%s: %s' % (k, value_text(eg, kind, depth)))
        rng.shuffle(kws)
        tm['kw'] = kwm
        in_if = rng.random() < 0.15
        tm['in_if'] = in_if
        assign = rng.random() < 0.8 or form in ('kw', 'kw_lists')
        tm['assigned'] = assign
        multi = len(tm['lists']) > 1 and form != 'mixed'
        layout = rng.choice(['one', 'one', 'one', 'mixed', 'per']) if multi else None
        stmt = ('%s = ' % name if assign else '') + func + '(' + join_args(rng, args + kws, rng.random() < 0.2 and not multi, layout) + ')'
        if rng.random() < (0.5 if multi else 0.3):
            stmt += '  # ' + rng.choice(['main target', 'keep', 'trailing, comment'])
        if rng.random() < 0.3:
            pre.insert(0, '# target ' + name)
        if in_if:
            lines.append('if ' + rng.choice(['x', 'not y', 'n != m']))
            lines += ['  ' + l for l in (pre + [stmt])]
            lines.append('endif')
        else:
            lines += pre + [stmt]
        if rng.random() < 0.3:
            lines.append('')
        targets[name] = tm
    # trailing statements that no command addresses (must stay byte-identical)
    for _ in range(rng.randint(0, 3)):
        lines.append(rng.choice([
            'z%d = %s' % (rng.randint(0, 9), eg.boolx(depth)),
            'w%d = %s' % (rng.randint(0, 9), eg.strx(depth)),
            'message(%s)' % eg.strx(depth),
            '# trailing comment',
            "summary({'n': n})",
            'if x and (y or x)\n  message(\'cond\')\nendif',
        ]))
    text = '\n'.join(lines) + '\n'
    files['meson.build'] = text
    return {'files': files, 'meta': {'targets': targets, 'deps': deps, 'project': proj_meta, 'hazard': hazard,
                                     'pool': pool, 'extra_pool': extra_pool}}


def gen_commands(rng, meta: T.Dict[str, T.Any], n: int) -> T.List[T.Dict[str, T.Any]]:
    """up to `n` rewriter commands addressed to the generated project (mostly valid, some pointless)"""
    cmds: T.List[T.Dict[str, T.Any]] = []
    targets = dict(meta['targets'])
    live = sorted(targets)
    added: T.List[str] = []
    last_add: T.Optional[T.Tuple[str, str, T.List[str]]] = None
    last_rm: T.Optional[T.Tuple[str, str, T.List[str]]] = None
    created: T.Optional[T.Tuple[str, str]] = None       # what the previous command created / set: (kind, name)
    for _ in range(n):
        r = rng.random()
        if created and rng.random() < 0.7:
            # create something, then address it in the NEXT command of the same sequence
            kind_, name_ = created
            created = None
            if kind_ == 'target':
                r3 = rng.random()
                if r3 < 0.3:
                    cmds.append({'type': 'target', 'target': name_, 'operation': 'src_add', 'sources': rng.sample(['new1.c', 'new2.c', 's1.c'], rng.randint(1, 2))})
                elif r3 < 0.45:
                    cmds.append({'type': 'target', 'target': name_, 'operation': 'info'})
                elif r3 < 0.6:
                    cmds.append({'type': 'kwargs', 'function': 'target', 'id': name_, 'operation': 'set', 'kwargs': {'install': True}})
                elif r3 < 0.72:
                    cmds.append({'type': 'target', 'target': name_, 'operation': 'target_rm'})
                elif r3 < 0.87:
                    # the same target again: must be refused
                    cmds.append({'type': 'target', 'target': name_, 'operation': 'target_add', 'sources': ['new0.c'],
                                 'target_type': 'executable', 'subdir': ''})
                else:
                    cmds.append({'type': 'target', 'target': name_, 'operation': 'extra_files_add', 'sources': ['newe0.txt']})
                continue
            if kind_ == 'kwargs':
                fn_, id_ = name_.split('|', 1)
                cmds.append({'type': 'kwargs', 'function': fn_, 'id': id_, 'operation': 'info', 'kwargs': {}})
                continue
            if kind_ == 'defopt':
                cmds.append({'type': 'default_options', 'operation': 'delete', 'options': {k_: None for k_ in name_.split('|')}})
                continue
        if last_add and rng.random() < 0.5:
            t, kind, fs = last_add     # add then remove the same files
            cmds.append({'type': 'target', 'target': t, 'operation': 'src_rm' if kind == 'src' else 'extra_files_rm', 'sources': fs})
            last_add = None
            continue
        if last_rm and rng.random() < 0.5:
            t, kind, fs = last_rm      # remove then add again
            cmds.append({'type': 'target', 'target': t, 'operation': 'src_add' if kind == 'src' else 'extra_files_add', 'sources': fs})
            last_rm = None
            continue
        if r < 0.30 and live:
            t = rng.choice(live)
            fs = rng.sample(['new0.c', 'new1.c', 'new2.c'], rng.randint(1, 2))
            if rng.random() < 0.15:
                fs.append(rng.choice(meta['pool']))    # possibly already present
            cmds.append({'type': 'target', 'target': t, 'operation': 'src_add', 'sources': fs})
            last_add = (t, 'src', fs)
        elif r < 0.42 and live:
            multi_t = [x for x in live if len([l for l in (targets[x].get('lists') or []) if l]) > 1]
            t = rng.choice(multi_t) if multi_t and rng.random() < 0.6 else rng.choice(live)
            have = targets[t].get('srcs') or []
            lists = [l for l in (targets[t].get('lists') or []) if l]
            if len(lists) > 1 and rng.random() < 0.8:
                # one file from each list (two or more nodes edited by ONE command), listed left-to-right or right-to-left
                fs = [rng.choice(l) for l in lists]
                if rng.random() < 0.3:
                    fs += [f for f in rng.sample(have, 1) if f not in fs]
                r2 = rng.random()
                if r2 < 0.4:
                    fs.reverse()
                elif r2 < 0.55:
                    rng.shuffle(fs)
            else:
                fs = rng.sample(have, min(len(have), rng.randint(1, 3))) if have and rng.random() < 0.85 else [rng.choice(meta['pool'])]
            cmds.append({'type': 'target', 'target': t, 'operation': 'src_rm', 'sources': fs})
            last_rm = (t, 'src', fs)
        elif r < 0.50 and live:
            t = rng.choice(live)
            fs = rng.sample(['newe0.txt', 'newe1.txt'], rng.randint(1, 2))
            cmds.append({'type': 'target', 'target': t, 'operation': 'extra_files_add', 'sources': fs})
            last_add = (t, 'extra', fs)
        elif r < 0.55 and live:
            t = rng.choice(live)
            have = targets[t].get('extra') or []
            xl = targets[t].get('extra_lists')
            if xl and rng.random() < 0.8:
                fs = [rng.choice(l) for l in xl]
                if rng.random() < 0.5:
                    fs.reverse()
            else:
                fs = [rng.choice(have)] if have else [rng.choice(meta['extra_pool'])]
            cmds.append({'type': 'target', 'target': t, 'operation': 'extra_files_rm', 'sources': fs})
            last_rm = (t, 'extra', fs)
        elif r < 0.62:
            name = 'added%d' % len(added)
            added.append(name)
            cmds.append({'type': 'target', 'target': name, 'operation': 'target_add',
                         'sources': rng.sample(['new0.c', 'new1.c', 's0.c'], rng.randint(1, 2)),
                         'target_type': rng.choice(['executable', 'library', 'static_library']), 'subdir': ''})
            created = ('target', name)
        elif r < 0.65 and live:
            t = rng.choice(live)
            cmds.append({'type': 'target', 'target': t, 'operation': 'target_rm'})
            live = [x for x in live if x != t]
        elif r < 0.68 and live:
            cmds.append({'type': 'target', 'target': rng.choice(live), 'operation': 'info'})
        elif r < 0.78 and live:
            t = rng.choice(live)
            op = rng.choice(['set', 'set', 'delete', 'add', 'remove'])
            kw: T.Dict[str, T.Any] = {}
            if op in ('set', 'delete'):
                for k in rng.sample(TGT_KW_BOOL + TGT_KW_STR, rng.randint(1, 2)):
                    kw[k] = (rng.random() < 0.5) if k in TGT_KW_BOOL else rng.choice(['lib/x', 'a b', '$ORIGIN/../lib'])
                if op == 'delete':
                    kw = {k: None for k in kw}
            else:
                k = rng.choice(TGT_KW_IDLIST)
                pool_ids = sorted(meta['deps']) if k == 'dependencies' else [x for x in sorted(targets) if x != t]
                if not pool_ids:
                    pool_ids = ['some_id']
                kw[k] = rng.sample(pool_ids, 1) if rng.random() < 0.7 else rng.choice(pool_ids)
            cmds.append({'type': 'kwargs', 'function': 'target', 'id': t, 'operation': op, 'kwargs': kw})
            if op == 'set':
                created = ('kwargs', 'target|' + t)
        elif r < 0.87:
            op = rng.choice(['set', 'delete', 'add', 'remove', 'remove', 'remove_regex', 'remove_regex'])
            kw = {}
            if op in ('set', 'delete'):
                k = rng.choice(PROJ_KW_STR + PROJ_KW_STRLIST + ['default_options'])
                if k in PROJ_KW_STR:
                    kw[k] = rng.choice(['1.2.3', '>=0.55'])
                elif k == 'default_options':
                    kw[k] = near_collision_list(rng, DEFOPT_POOL, 1, 3)
                else:
                    kw[k] = rng.sample(LICENSE_POOL, rng.randint(1, 2))
                if op == 'delete':
                    kw = {k: None}
            else:
                k = rng.choice(PROJ_KW_STRLIST + ['default_options', 'license'])
                if k == 'default_options':
                    have = meta['project'].get('default_options') or DEFOPT_POOL
                    if op == 'remove_regex':
                        key = rng.choice(DEFOPT_KEYS_SETTABLE)[0] if rng.random() < 0.6 else rng.choice(DEFOPT_KEYS_DELETE_ONLY)
                        kw[k] = [rng.choice([key + '=.*', key + '=', '.*' + key + '=.*', key, 'sub:.*', '.*=true$'])]
                    else:
                        kw[k] = [rng.choice(have)] if rng.random() < 0.7 else rng.sample(DEFOPT_POOL, 1)
                else:
                    have = meta['project'].get('license') or LICENSE_POOL
                    if op == 'remove_regex':
                        kw[k] = rng.sample(LICENSE_REGEX, rng.randint(1, 2))
                    else:
                        kw[k] = [rng.choice(have)] if rng.random() < 0.7 else rng.sample(LICENSE_POOL, rng.randint(1, 2))
                    if len(kw[k]) == 1 and rng.random() < 0.3:
                        kw[k] = kw[k][0]
            cmds.append({'type': 'kwargs', 'function': 'project', 'id': '/', 'operation': op, 'kwargs': kw})
            if op == 'set':
                created = ('kwargs', 'project|/')
        elif r < 0.91 and meta['deps']:
            dname = rng.choice(sorted(meta['deps']))
            op = rng.choice(['set', 'delete', 'add', 'remove', 'remove_regex'])
            kw = {}
            if op in ('set', 'delete'):
                k = rng.choice(DEP_KW_BOOL + DEP_KW_STR + DEP_KW_STRLIST)
                if k in DEP_KW_BOOL:
                    kw[k] = rng.random() < 0.5
                elif k in DEP_KW_STR:
                    kw[k] = rng.choice(['c', 'auto', 'not here'])
                else:
                    kw[k] = near_collision_list(rng, VERSION_POOL if k == 'version' else MODULE_POOL, 1, 2)
                if op == 'delete':
                    kw = {k: None}
            else:
                k = rng.choice(DEP_KW_STRLIST)
                pool, rx = (VERSION_POOL, VERSION_REGEX) if k == 'version' else (MODULE_POOL, MODULE_REGEX)
                have = meta['deps'][dname].get(k) or pool
                if op == 'remove_regex':
                    kw[k] = rng.sample(rx, rng.randint(1, 2))
                else:
                    kw[k] = [rng.choice(have)] if rng.random() < 0.7 else rng.sample(pool, rng.randint(1, 2))
            cmds.append({'type': 'kwargs', 'function': 'dependency', 'id': rng.choice([dname, meta['deps'][dname]['name']]),
                         'operation': op, 'kwargs': kw})
        else:
            op = rng.choice(['set', 'delete'])
            opts = {}
            have = meta['project'].get('default_options') or []
            settable = dict(DEFOPT_KEYS_SETTABLE)
            # keys whose text occurs in an entry of ANOTHER key of this project (suffix / prefix / inside the value)
            near = sorted({k for k in list(settable) + DEFOPT_KEYS_DELETE_ONLY for e in have
                           if k in e and e.split('=', 1)[0] != k})
            if op == 'set':
                cand = [k for k in near if k in settable]
                ks = rng.sample(cand, 1) if cand and rng.random() < 0.7 else []
                ks += [k for k in rng.sample(sorted(settable), rng.randint(1, 2)) if k not in ks][:2 - len(ks)]
                for k in ks:
                    opts[k] = rng.choice(settable[k])
            else:
                ks = rng.sample(near, 1) if near and rng.random() < 0.7 else []
                ks += [k for k in rng.sample(sorted(settable) + DEFOPT_KEYS_DELETE_ONLY, rng.randint(1, 2)) if k not in ks][:2 - len(ks)]
                for k in ks:
                    opts[k] = None
            cmds.append({'type': 'default_options', 'operation': op, 'options': opts})
            if op == 'set' and opts:
                created = ('defopt', '|'.join(sorted(opts)))
    return cmds


# ------------------------------------------------------------------------------------------------ multi-directory trees

TREE_BASENAMES = ['main.c', 'helper.c', 'util.c', 'x0.c', 'x1.c']


def gen_tree(rng, ncmd: int) -> T.Dict[str, T.Any]:
    """a project spread over 1-3 subdirectories: targets defined in subdirs, source lists built in one directory
    (files() / plain strings / variables) and consumed in another, the same basenames in every directory, `../` paths.
    Every command names files relative to the source ROOT (Rewriter.md)."""
    eg = ExprGen(rng, None)
    q = lambda l: ', '.join("'%s'" % s_ for s_ in l)  # noqa: E731
    subs = rng.sample(['lib', 'app', 'util'], rng.randint(1, 3))
    nested = None
    if rng.random() < 0.3:
        nested = subs[0] + '/inner'
    dirs = [''] + subs + ([nested] if nested else [])
    files: T.Dict[str, str] = {}
    for d in dirs:
        for b in TREE_BASENAMES + ['new0.c', 'new1.c']:
            files[os.path.join(d, b)] = ''
    allfiles = sorted(files)
    # places in evaluation order: root-pre, each subdir (nested right after its parent), root-post
    order = ['pre'] + [d for s_ in subs for d in ([s_] + ([nested] if nested and nested.startswith(s_ + '/') else []))] + ['post']
    body: T.Dict[str, T.List[str]] = {p: [] for p in order}
    body['pre'] += ['x = true', 'y = false', 'n = 3', 'm = 4', "s = 'str'", "u = 'b-c'", "lst = ['a', 'b', 'c']"]

    def dir_of(place: str) -> str:
        return '' if place in ('pre', 'post') else place

    def rel(path: str, place: str) -> str:
        return os.path.relpath(path, dir_of(place) or '.')

    targets: T.Dict[str, T.Any] = {}
    nvars = 0
    nt = rng.randint(2, 4)
    for i in range(nt):
        name = 'tt%d' % i
        tplace = rng.choice(order[1:])          # a subdir or root-post
        tdir = dir_of(tplace)
        srcs: T.List[str] = []                  # resolved, relative to the source root
        args = ["'%s'" % name]
        lists: T.List[T.List[str]] = []
        # inline plain strings: relative to the target's directory, possibly pointing into another directory
        inl = []
        for _ in range(rng.randint(0, 2)):
            d = rng.choice(dirs) if rng.random() < 0.4 else tdir
            f = os.path.join(d, rng.choice(TREE_BASENAMES))
            if f not in srcs:
                srcs.append(f)
                inl.append(f)
                args.append("'%s'" % rel(f, tplace))
        if inl:
            lists.append(inl)
        # lists built in ANOTHER place (earlier in evaluation order), consumed here
        earlier = order[:order.index(tplace)]
        for _ in range(rng.randint(1, 2)):
            vplace = rng.choice(earlier) if rng.random() < 0.8 else tplace
            if vplace == tplace and tplace != 'post' and body[tplace] is None:
                continue
            vdir = dir_of(vplace)
            kind = rng.choice(['files', 'files', 'files_list', 'plain'])
            cand = [os.path.join(d, b) for d in ([vdir] + ([rng.choice(dirs)] if rng.random() < 0.3 else [])) for b in TREE_BASENAMES]
            pick = []
            for f in rng.sample(cand, rng.randint(1, 3)):
                if f not in srcs and f not in pick:
                    pick.append(f)
            if not pick:
                continue
            var = 'srcs_v%d' % nvars
            nvars += 1
            if kind == 'plain':
                # plain strings are relative to the directory of the CONSUMING target
                body[vplace].append('%s = [%s]' % (var, q([rel(f, tplace) for f in pick])))
            elif kind == 'files':
                body[vplace].append('%s = files(%s)' % (var, q([rel(f, vplace) for f in pick])))
            else:
                body[vplace].append('%s = files([%s])' % (var, q([rel(f, vplace) for f in pick])))
            args.append(var)
            srcs += pick
            lists.append(pick)
        if rng.random() < 0.3:
            f = os.path.join(rng.choice(dirs), rng.choice(TREE_BASENAMES))
            if f not in srcs:
                srcs.append(f)
                lists.append([f])
                args.append("files('%s')" % rel(f, tplace))
        if not srcs:
            f = os.path.join(tdir, 'main.c')
            srcs.append(f)
            lists.append([f])
            args.append("'main.c'")
        kws = []
        for k, kind in rng.sample(OTHER_KW, rng.randint(0, 2)):
            kws.append('%s: %s' % (k, value_text(eg, kind, 1)))
        if rng.random() < 0.4:
            kws.append('install: ' + rng.choice(['true', 'false']))
        func = rng.choice(TARGET_FUNCS)
        stmt = ('%s = ' % name if rng.random() < 0.8 else '') + func + '(' + join_args(rng, args + kws, False) + ')'
        if rng.random() < 0.3:
            stmt += '  # ' + rng.choice(['keep', 'trailing'])
        body[tplace].append(stmt)
        targets[name] = {'srcs': list(srcs), 'lists': lists, 'dir': tdir, 'shared': False}
    # assemble the build files
    root_lines = ["project('demo'%s)" % rng.choice(['', ", version: '1.0'", ", default_options: ['warning_level=1']"])]
    root_lines += body['pre']
    for s_ in subs:
        root_lines.append("subdir('%s')" % s_)
    root_lines += body['post']
    if rng.random() < 0.5:
        root_lines.append('message(%s)' % eg.strx(1))
    files['meson.build'] = '\n'.join(root_lines) + '\n'
    for s_ in subs:
        lines = ['# ' + s_] + body[s_]
        if nested and nested.startswith(s_ + '/'):
            lines.append("subdir('inner')")
        lines.append("%s_done = true" % s_)
        files[os.path.join(s_, 'meson.build')] = '\n'.join(lines) + '\n'
    if nested:
        files[os.path.join(nested, 'meson.build')] = '\n'.join(['# inner'] + body[nested] + ['inner_done = 1']) + '\n'
    # commands: every path relative to the source root
    cmds: T.List[T.Dict[str, T.Any]] = []
    live = sorted(targets)
    last_add = None
    for _ in range(ncmd):
        t = rng.choice(live)
        tm = targets[t]
        r = rng.random()
        if last_add and rng.random() < 0.5:
            cmds.append({'type': 'target', 'target': last_add[0], 'operation': 'src_rm', 'sources': last_add[1]})
            last_add = None
        elif r < 0.35:
            fs = [os.path.join(rng.choice(dirs), rng.choice(['new0.c', 'new1.c'])) for _ in range(rng.randint(1, 2))]
            fs = sorted(set(fs), key=fs.index)
            cmds.append({'type': 'target', 'target': t, 'operation': 'src_add', 'sources': fs})
            last_add = (t, fs)
        elif r < 0.75:
            r2 = rng.random()
            if r2 < 0.75:
                fs = [rng.choice(l) for l in rng.sample(tm['lists'], min(len(tm['lists']), rng.randint(1, 2)))]
            elif r2 < 0.9:
                # same basename in the WRONG directory: must not remove anything
                f = rng.choice(tm['srcs'])
                others = [os.path.join(d, os.path.basename(f)) for d in dirs if os.path.join(d, os.path.basename(f)) not in tm['srcs']]
                fs = [rng.choice(others)] if others else [f]
            else:
                fs = [rng.choice(tm['srcs'])]
                fs = ['./' + fs[0]] if rng.random() < 0.5 else fs
            cmds.append({'type': 'target', 'target': t, 'operation': 'src_rm', 'sources': fs})
        elif r < 0.80:
            cmds.append({'type': 'target', 'target': t, 'operation': 'info'})
        elif r < 0.86:
            name = 'tadd%d' % len(cmds)
            cmds.append({'type': 'target', 'target': name, 'operation': 'target_add', 'subdir': '', 'target_type': 'executable',
                         'sources': [os.path.join(rng.choice(dirs), 'new0.c')]})
            follow = rng.random()
            if follow < 0.4:
                cmds.append({'type': 'target', 'target': name, 'operation': 'src_add', 'sources': [os.path.join(rng.choice(dirs), 'new1.c')]})
            elif follow < 0.6:
                cmds.append({'type': 'target', 'target': name, 'operation': 'info'})
            elif follow < 0.75:
                cmds.append({'type': 'target', 'target': name, 'operation': 'target_add', 'subdir': '', 'target_type': 'executable',
                             'sources': ['new1.c']})
        elif r < 0.94:
            cmds.append({'type': 'kwargs', 'function': 'target', 'id': t, 'operation': rng.choice(['set', 'set', 'delete']),
                         'kwargs': {'install': rng.random() < 0.5} if rng.random() < 0.7 else {'build_by_default': True}})
            if cmds[-1]['operation'] == 'delete':
                cmds[-1]['kwargs'] = {k: None for k in cmds[-1]['kwargs']}
        else:
            if len(live) > 1:
                cmds.append({'type': 'target', 'target': t, 'operation': 'target_rm'})
                live = [x for x in live if x != t]
    cmds = cmds[:3]
    meta = {'targets': targets, 'deps': {}, 'project': {}, 'hazard': 'tree', 'pool': [], 'extra_pool': [], 'shared': [],
            'allfiles': allfiles, 'dirs': dirs}
    return {'files': files, 'cmds': cmds, 'meta': meta, 'mode': 'single', 'prints': False,
            'cwd': 'root' if rng.random() < 0.25 else 'outside'}


# ------------------------------------------------------------------------------------------------ layout-hostile family

def hostile_snippets(kinds: T.Dict[str, str]) -> T.Dict[str, T.Optional[str]]:
    """for every token kind whose text can span lines (harvested from the live lexer) a keyword argument whose value is
    such a token — plus the other layout-hostile neighbours. None: no recipe (a new token kind: extend this table)."""
    out: T.Dict[str, T.Optional[str]] = {}
    for tid in kinds:
        if tid == 'multiline_string':
            out[tid] = "name_prefix: '''ml-a\nml-b'''"
        elif tid == 'multiline_fstring':
            out[tid] = "name_suffix: f'''v@n@\nz'''"
        elif tid == 'string':
            out[tid] = "link_language: 'r1\nr2'"
        elif tid == 'fstring':
            out[tid] = "win_subsystem: f'q@n@\nw'"
        elif tid == 'eol_cont':
            out[tid] = '\\\n'
        else:
            out[tid] = None
    out['string-escape'] = "vs_module_defs: 'it\\'s \\\\ \\x41\\t'"
    out['string-nonascii'] = "install_mode: 'é中😀'"
    return out


def hostile_cases(kinds: T.Dict[str, str]) -> T.List[T.Tuple[str, str, T.List[T.Dict[str, T.Any]]]]:
    """(label, meson.build, commands): for each hostile neighbour, each position (on the physical line before the start
    of the edited node / before its end / after its end) and each edit kind, one small project"""
    snips = hostile_snippets(kinds)
    head = "project('demo', default_options: ['warning_level=1'])\nn = 3\n"
    edits_src = [
        ('src_add', [{'type': 'target', 'target': 't0', 'operation': 'src_add', 'sources': ['new0.c']}]),
        ('src_rm', [{'type': 'target', 'target': 't0', 'operation': 'src_rm', 'sources': ['s1.c']}]),
        ('extra_add', [{'type': 'target', 'target': 't0', 'operation': 'extra_files_add', 'sources': ['newe0.txt']}]),
        ('extra_rm', [{'type': 'target', 'target': 't0', 'operation': 'extra_files_rm', 'sources': ['e0.txt']}]),
        ('kw_set', [{'type': 'kwargs', 'function': 'target', 'id': 't0', 'operation': 'set', 'kwargs': {'install': True}}]),
        ('kw_delete', [{'type': 'kwargs', 'function': 'target', 'id': 't0', 'operation': 'delete', 'kwargs': {'install': None}}]),
        ('kw_add', [{'type': 'kwargs', 'function': 'target', 'id': 't0', 'operation': 'add', 'kwargs': {'link_with': ['t9']}}]),
        ('target_rm', [{'type': 'target', 'target': 't0', 'operation': 'target_rm'}]),
        ('add_then_rm', [{'type': 'target', 'target': 't0', 'operation': 'src_add', 'sources': ['new0.c']},
                         {'type': 'target', 'target': 't0', 'operation': 'src_rm', 'sources': ['new0.c']}]),
    ]
    edits_proj = [
        ('defopt_set', [{'type': 'default_options', 'operation': 'set', 'options': {'warning_level': '3'}}]),
        ('defopt_delete', [{'type': 'default_options', 'operation': 'delete', 'options': {'warning_level': None}}]),
        ('proj_kw_set', [{'type': 'kwargs', 'function': 'project', 'id': '/', 'operation': 'set', 'kwargs': {'version': '2.0'}}]),
        ('target_add', [{'type': 'target', 'target': 'nx', 'operation': 'target_add', 'sources': ['new0.c'], 'target_type': 'executable', 'subdir': ''}]),
    ]
    cases: T.List[T.Tuple[str, str, T.List[T.Dict[str, T.Any]]]] = []
    tails = ["\nz = 1\n", "  # trailing é\nz = 1\n"]
    for kind, snip in sorted(snips.items()):
        if snip is None:
            continue
        for ti, tail in enumerate(tails):
            if kind == 'eol_cont':
                start = "t0 = %sexecutable('t0', %s  sources: ['s0.c', 's1.c'], extra_files: ['e0.txt'], install: false)" % (snip, snip)
                end = "t0 = executable('t0', 's0.c', 's1.c', extra_files: ['e0.txt'], install: false %s)" % snip
                proj = "project('demo', %s  default_options: ['warning_level=1'])\nn = 3\n" % snip
            else:
                # the edited sources / extra_files lists start on the line the hostile token ends on …
                start = "t0 = executable('t0', %s, sources: ['s0.c', 's1.c'], extra_files: ['e0.txt'], install: false)" % snip
                # … and the edited call ends on it
                end = "t0 = executable('t0', 's0.c', 's1.c', extra_files: ['e0.txt'], install: false, %s)" % snip
                lic = snip.split(': ', 1)[1]
                proj = "project('demo', license: [%s], default_options: ['warning_level=1'])\nn = 3\n" % lic
            for ename, cmds in edits_src:
                if ti == 1 and ename not in ('src_add', 'kw_set', 'target_rm'):
                    continue
                cases.append((f'{kind}:before-start:{ename}', head + start + tail, cmds))
                cases.append((f'{kind}:before-end:{ename}', head + end + tail, cmds))
            for ename, cmds in edits_proj:
                if ti == 1:
                    continue
                cases.append((f'{kind}:project:{ename}', proj + "t0 = executable('t0', 's0.c')\n", cmds))
    # tabs instead of blanks everywhere around the edited node
    tab = "t0\t=\texecutable(\t't0',\tsources:\t['s0.c',\t's1.c'],\textra_files:\t['e0.txt'],\tinstall:\tfalse\t)\t# c\nz\t=\t1\n"
    for ename, cmds in edits_src:
        cases.append((f'whitespace-tab:{ename}', head + tab, cmds))
    # the edited statement is the last one and the file has no newline at its end
    for ename, cmds in edits_src + edits_proj:
        cases.append((f'eof-without-newline:{ename}',
                      head + "t0 = executable('t0', 's0.c', 's1.c', extra_files: ['e0.txt'], install: false)", cmds))
    return cases
