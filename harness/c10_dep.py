"""C10 (a) — dependency lookup: adapter for the real `DependencyFallbacksHolder`, the abstract world,
the documented policy as an independent Python decision table, protocol encoding for the Lean model.

Abstract world (JSON-able, shared with the Lean model `MesonModel.DepPolicy`):

  world = {
    'wrap_mode': 'default'|'nofallback'|'nodownload'|'forcefallback'|'nopromote',
    'fff': [str],                                  # force_fallback_for
    'overrides': {name: [dep, explicit]},          # Build.dependency_overrides[HOST]
    'cache': {name: dep},                          # CoreData.deps[HOST] (found external deps)
    'system': {name: version},                     # what find_external_dependency can find
    'provides': {depname: [sp, varname|None]},     # wrap [provide] tables (Resolver.find_dep_provider / get_varname)
    'subprojects': {sp: {'state': 'no'|'found'|'disabled',
                         'configure': 'ok'|'fail',          # what do_subproject does when state == 'no'
                         'overrides': {name: dep},          # meson.override_dependency calls made by its build file
                         'vars': {var: dep|'notdep'}}},     # its variables
  }
  dep = [ident, found, version]
  request = {'names': [str], 'wanted': [str], 'required': bool, 'allow_fallback': None|bool, 'fallback': None|[str]}
  outcome = 'found:<ident>' | 'notfound' | 'error:<Class>'
"""
from __future__ import annotations

import copy
import json
import typing as T

from .common import enc

WRAP_MODES = ['default', 'nofallback', 'nodownload', 'forcefallback', 'nopromote']


# ---------------------------------------------------------------------------------------------
# adapter: the real DependencyFallbacksHolder over table-driven stubs
# ---------------------------------------------------------------------------------------------

class _Impl:
    """lazily imported real modules (so VERIF_REPO takes effect) and the stub classes built on them"""
    ready = False

    @classmethod
    def load(cls) -> None:
        if cls.ready:
            return
        from mesonbuild import mlog, dependencies, build
        from mesonbuild.interpreter import dependencyfallbacks as DF
        from mesonbuild.dependencies.base import Dependency, NotFoundDependency, DependencyException
        from mesonbuild.interpreterbase import InvalidArguments, InterpreterException
        from mesonbuild.mesonlib import MachineChoice, PerMachine, MesonException
        from mesonbuild.options import OptionKey
        cls.mlog, cls.dependencies, cls.build, cls.DF = mlog, dependencies, build, DF
        cls.Dependency, cls.NotFoundDependency, cls.DependencyException = Dependency, NotFoundDependency, DependencyException
        cls.InvalidArguments, cls.InterpreterException, cls.MesonException = InvalidArguments, InterpreterException, MesonException
        cls.MachineChoice, cls.PerMachine, cls.OptionKey = MachineChoice, PerMachine, OptionKey

        class StubDep(Dependency):
            type_name = 'stub'

            def __init__(self, ident: str, found: bool, version: str):
                super().__init__({'native': MachineChoice.HOST})
                self.ident = ident
                self.is_found = found
                self.version = version
                self.name = ident

            def found(self) -> bool:
                return self.is_found

            def get_version(self) -> str:
                return self.version

        class SubprojectConfigureError(MesonException):
            pass

        cls.StubDep = StubDep
        cls.SubprojectConfigureError = SubprojectConfigureError
        mlog._logger.log_disable_stdout = True
        cls.ready = True


class _Holder:
    """stand-in for SubprojectHolder"""

    def __init__(self, name: str, found: bool, variables: T.Dict[str, T.Any]):
        self.name = name
        self._found = found
        self.subdir = 'subprojects/' + name
        self.variables = variables

    def found(self) -> bool:
        return self._found

    def get_variable_method(self, args, kwargs):
        if not self._found:
            raise _Impl.InterpreterException('Subproject is disabled')
        v = args[0]
        if v in self.variables:
            return self.variables[v]
        raise _Impl.InvalidArguments(f'Requested variable "{v}" not found.')


# ---------------------------------------------------------------------------------------------
# identifiers: which keywords of dependency() enter the key of the override / cache tables
# ---------------------------------------------------------------------------------------------

_IDENT: T.Dict[str, T.Any] = {}


def ident_keywords() -> T.Dict[str, T.Any]:
    """harvested from the live code: {keyword: sample non-default value (JSON-able)} for every keyword of
    dependency() that changes `get_dep_identifier` — so that a keyword added later is driven automatically"""
    if _IDENT:
        return _IDENT
    _Impl.load()
    from mesonbuild.interpreter.type_checking import DEPENDENCY_KWS
    from mesonbuild.interpreterbase.decorators import ContainerTypeInfo
    gdi = _Impl.dependencies.get_dep_identifier
    base = gdi('x', {})
    for kw in DEPENDENCY_KWS:
        types = kw.types if isinstance(kw.types, tuple) else (kw.types,)
        samples: T.List[T.Any] = []
        for t in types:
            if isinstance(t, ContainerTypeInfo):
                samples.append(['m1'])
            elif t is bool:
                samples.append(not kw.default if isinstance(kw.default, bool) else True)
            elif t is str:
                samples += ['pkg-config', 'c', 'x1']
            elif t is int:
                samples.append(7)
        for sv in samples:
            try:
                val = kw.convertor(sv) if kw.convertor else sv
                if gdi('x', {kw.name: val}) != base:
                    _IDENT[kw.name] = sv
                    break
            except Exception:
                continue
    _IDENT['__convertors__'] = {kw.name: kw.convertor for kw in DEPENDENCY_KWS if kw.convertor}
    return _IDENT


def runtime_value(kw: str, sv: T.Any) -> T.Any:
    conv = ident_keywords()['__convertors__'].get(kw)
    return conv(sv) if conv else sv


def stag(static: T.Optional[bool]) -> str:
    return 'n' if static is None else ('t' if static else 'f')


def flavour(static: T.Optional[bool], extra: T.Dict[str, T.Any], with_method: bool) -> str:
    """the part of an identifier besides the name: static flavour + the other identifying keywords"""
    ex = sorted((k, json.dumps(v, sort_keys=True)) for k, v in extra.items() if with_method or k != 'method')
    return stag(static) + ''.join(f';{k}={v}' for k, v in ex)


def ident_key(ident) -> T.Tuple[str, str]:
    """(name, flavour) of a real identifier tuple"""
    d = dict(ident)
    base = dict(_Impl.dependencies.get_dep_identifier(d['name'], {}))
    ex = {}
    for k, v in d.items():
        if k in ('name', 'static'):
            continue
        if v != base.get(k):
            ex[k] = list(v) if isinstance(v, tuple) else v
    return d['name'], flavour(d.get('static'), ex, True)


# ---------------------------------------------------------------------------------------------
# the documented rule of meson.override_dependency() (Reference manual, meson.override_dependency:
# "static: ... If not specified, the dependency follows default_library: both => static and shared")
# ---------------------------------------------------------------------------------------------

def covered(static: T.Optional[bool], dl: str) -> T.List[T.Tuple[str, bool]]:
    """[(static flavour tag, strict?)] a registration stands for, in the order it is entered"""
    if static is None:
        out = [('n', True)]
        if dl in ('static', 'both'):
            out.append(('t', True))
        if dl in ('shared', 'both'):
            out.append(('f', True))
        return out
    return [('n', False), (stag(static), True)]


CACHE_RELEVANT = {'pkgconfig': 'pkg', 'cmake': 'cmake', 'other': None}   # which search path produced a result of this type


def norm_fw(fw: dict) -> dict:
    """defaults of the optional parts of a full world: search paths of the current configuration, the type of what the
    system offers per name, and `history`: what earlier configurations left in the persistent cache
    ([{'name','dep','paths': {'pkg','cmake'}}]; `cache: {name: dep}` = stored under the present paths)"""
    fw.setdefault('paths', {'pkg': [], 'cmake': []})
    fw.setdefault('system_type', {})
    if 'history' not in fw:
        fw['history'] = [{'name': n, 'dep': d, 'paths': copy.deepcopy(fw['paths'])} for n, d in fw.get('cache', {}).items()]
    return fw


def type_of(fw: dict, name: str) -> str:
    return fw['system_type'].get(name, 'pkgconfig')


def rel_value(fw: dict, name: str, paths: dict) -> T.Optional[T.List[str]]:
    k = CACHE_RELEVANT[type_of(fw, name)]
    return None if k is None else list(paths[k])


def ckey(name: str, flav: str, at: T.Optional[T.List[str]]) -> str:
    return f'{name}|{flav}|{json.dumps(at)}'


def tkey(native: bool, name: str, flav: str) -> str:
    return f"{'B' if native else 'H'}|{name}|{flav}"


def register_ops(table: T.Dict[str, T.Any], ops: T.List[dict], dl: str) -> T.Optional[T.Dict[str, T.Any]]:
    """the table after the override_dependency calls `ops` of a (sub)project whose default_library is `dl`;
    None when one of them hits a name that is already overridden or resolved (InterpreterException)"""
    t = dict(table)
    for op in ops:
        if not op['name']:
            return None
        for tag, strict in covered(op['static'], dl):
            k = tkey(op['native'], op['name'], tag)
            if k in t:
                if strict:
                    return None
                continue
            t[k] = [op['dep'], True]
    return t


# ---------------------------------------------------------------------------------------------
# the real code: DependencyFallbacksHolder + MesonMain.override_dependency_method over stubs
# ---------------------------------------------------------------------------------------------

class Session:
    """One configuration. Full world `fw`:
      {'wrap_mode','fff','system','provides','main_dl', 'ops': [op], 'cache': {name: dep},
       'subprojects': {sp: {'state','configure','dl','ops':[op],'vars':{..}}}}
      op = {'name','dep','static': None|bool,'native': bool}
    Every override is made through the real `meson.override_dependency()`."""

    def __init__(self, fw: dict):
        _Impl.load()
        I = _Impl
        self.I = I
        self.world = norm_fw(copy.deepcopy(fw))
        fw = self.world
        self.effects: T.List[str] = []
        self.deps: T.Dict[str, T.Any] = {}
        HOST = I.MachineChoice.HOST
        self.HOST = HOST
        self.sub_dl: T.Dict[str, str] = {'': fw['main_dl']}
        self.paths = copy.deepcopy(fw['paths'])
        self.put_log: T.Dict[str, T.Any] = {}
        self.setup_errors: T.List[str] = []
        sess = self
        from mesonbuild.interpreter.mesonmain import MesonMain

        def mk(dep, type_name=None):
            ident, found, version = dep
            if ident not in self.deps:
                self.deps[ident] = I.StubDep(ident, found, version)
                if type_name:
                    self.deps[ident].type_name = {'other': 'system'}.get(type_name, type_name)
            return self.deps[ident]
        self.mk = mk

        class OptStore:
            def get_value_for(self, key):
                if key.name == 'wrap_mode':
                    return sess.world['wrap_mode']
                if key.name == 'force_fallback_for':
                    return list(sess.world['fff'])
                if key.name == 'default_library':
                    return sess.sub_dl[key.subproject or '']
                if key.name == 'pkg_config_path':
                    return list(sess.paths['pkg']) if key.machine is HOST else []
                if key.name == 'cmake_prefix_path':
                    return list(sess.paths['cmake']) if key.machine is HOST else []
                raise KeyError(key)

        from mesonbuild.coredata import DependencyCache

        class Cache:
            """the real coredata.DependencyCache; calls are logged (effects, and what was stored under which paths)"""

            def __init__(self, machine):
                self.real = DependencyCache(OptStore(), machine)

            def get(self, ident):
                sess.effects.append('cacheget:' + dict(ident)['name'])
                return self.real.get(ident)

            def put(self, ident, dep):
                n, fl = ident_key(ident)
                sess.put_log[ckey(n, fl, rel_value(sess.world, n, sess.paths))] = [dep.ident, dep.found(), dep.get_version()]
                self.real.put(ident, dep)

            def clear(self):
                sess.put_log.clear()
                self.real.clear()

        class CoreData:
            pass

        class Resolver:
            def find_dep_provider(self, name):
                p = sess.world['provides'].get(name.lower())
                if p:
                    return p[0], p[1]
                return None, None

            def get_varname(self, subp_name, depname):
                p = sess.world['provides'].get(depname)
                if p and p[0] == subp_name:
                    return p[1]
                return None

        # `wrapfiles` ([[relative path, text]]): the [provide] tables are not the stub above but the real wrap.Resolver
        # loaded from these wrap files written to a scratch subprojects directory (harness/c10_wrapfile.py)
        real_resolver = None
        if fw.get('wrapfiles') is not None:
            from . import common as _common
            from . import c10_wrapfile as _WF
            _root = _common.scratch_dir('mverif-c10ws-')
            try:
                _WF.build_tree(_root, {'files': fw['wrapfiles']})
                real_resolver = _WF.make_resolver(_root)
            except Exception as ex:
                self.setup_errors.append('the wrap files of the world were not loaded: ' + type(ex).__name__)
            finally:
                _common.rmtree(_root)
        self.real_resolver = real_resolver

        class Env:
            wrap_resolver = real_resolver if real_resolver is not None else Resolver()

        class Build:
            pass

        class Node:
            filename = 'meson.build'
            lineno = 1
            colno = 0

        class Interp:
            current_node = Node()

            def __init__(self, subproject):
                self.subproject = subproject

            def do_subproject(self, subp_name, kwargs, force_method=None, forced_options=None):
                return sess.do_subproject(str(subp_name), kwargs, forced_options or {})

            def apply_machine_map_to_kwargs(self, kwargs):
                pass

        self.cache = Cache(HOST)
        cd = CoreData()
        cd.optstore = OptStore()
        cd.deps = I.PerMachine(Cache(I.MachineChoice.BUILD), self.cache)
        b = Build()
        b.dependency_overrides = I.PerMachine({}, {})
        b.environment = Env()
        self.subprojects = I.PerMachine({}, {})

        def interp_for(subproject: str):
            it = Interp(subproject)
            it.coredata = cd
            it.build = b
            it.environment = Env()
            it.subprojects = self.subprojects
            return it
        self.interp_for = interp_for
        self.interp = interp_for('')
        self.build = b
        self.MesonMain = MesonMain
        # what earlier configurations left in the persistent cache: stored through the real put() under their paths
        for rec in fw['history']:
            self.paths = copy.deepcopy(rec['paths'])
            self.cache.put(I.dependencies.get_dep_identifier(rec['name'], {'native': HOST}),
                           mk(rec['dep'], type_of(fw, rec['name'])))
        self.paths = copy.deepcopy(fw['paths'])
        self.start_configuration()

    def start_configuration(self) -> None:
        """a configuration starts: Build (overrides) and subprojects are new, coredata (the cache) persists"""
        I = self.I
        for m in (I.MachineChoice.BUILD, I.MachineChoice.HOST):
            self.build.dependency_overrides[m].clear()
            self.subprojects[m].clear()
        self.sub_dl = {'': self.world['main_dl']}
        # the state before the lookups, produced by the real registration method
        self.run_ops('', self.world['ops'], atomic=False)
        for sp, st in self.world['subprojects'].items():
            if st['state'] != 'no':
                self.sub_dl[sp] = st['dl']
                if st['state'] == 'found':
                    self.run_ops(sp, st['ops'], atomic=False)
                self._register(sp, st, st['state'] == 'found')

    def run_ops(self, subproject: str, ops: T.List[dict], atomic: bool) -> bool:
        """meson.override_dependency(name, dep, static:, native:) calls of `subproject`, through the real method"""
        I = self.I
        mm = self.MesonMain(self.build, self.interp_for(subproject))
        saved = {m: dict(self.build.dependency_overrides[m]) for m in (I.MachineChoice.BUILD, I.MachineChoice.HOST)}
        for op in ops:
            try:
                mm.override_dependency_method([op['name'], self.mk(op['dep'])], {'static': op['static'], 'native': op['native']})
            except I.MesonException as e:
                if atomic:
                    for m, d in saved.items():
                        self.build.dependency_overrides[m].clear()
                        self.build.dependency_overrides[m].update(d)
                    return False
                self.setup_errors.append(f'{type(e).__name__} for {op}')
        return True

    def _register(self, sp, st, found):
        variables = {}
        if found:
            for v, d in st['vars'].items():
                variables[v] = 'not-a-dependency' if d == 'notdep' else self.mk(d)
        h = _Holder(sp, found, variables)
        self.subprojects[self.HOST][sp] = h
        return h

    # stub of Interpreter.do_subproject (interpreter.py:943-1037), reduced to what lookup() observes
    def do_subproject(self, sp: str, kwargs, forced_options) -> T.Any:
        I = self.I
        required = kwargs['required']
        self.effects.append('do_subproject:' + sp)
        subs = self.subprojects[self.HOST]
        if sp in subs:
            h = subs[sp]
            if required and not h.found():
                raise I.InterpreterException(f'Subproject "{h.subdir}" required but not found.')
            return h
        st = self.world['subprojects'].get(sp)
        self.effects.append('configure:' + sp)
        if st is None or st['configure'] == 'fail':
            if not required:
                return self._register(sp, st or {'vars': {}}, False)
            raise I.SubprojectConfigureError('configure failed')
        forced = [v for k, v in forced_options.items() if k.name == 'default_library']
        self.sub_dl[sp] = forced[0] if forced else st['dl']
        # the subproject's build file runs: its meson.override_dependency() calls. One of them hitting a resolved
        # name is an InterpreterException inside the subproject; a failed subproject's Build copy is not merged
        if not self.run_ops(sp, st['ops'], atomic=True):
            if not required:
                return self._register(sp, st, False)
            raise I.InterpreterException('Tried to override dependency which has already been resolved or overridden')
        return self._register(sp, st, True)

    def find_external_dependency(self, name, env, kwargs):
        I = self.I
        self.effects.append('system:' + name)
        v = self.world['system'].get(name)
        wanted = kwargs.get('version', [])
        if v is not None and vsat(v, wanted):
            return self.mk(['sys:' + name + '@' + v, True, v], type_of(self.world, name))
        if kwargs.get('required', True):
            raise I.DependencyException(f'Dependency "{name}" not found')
        return I.NotFoundDependency(name, env)

    def reconfigure(self, op: dict) -> None:
        """`meson setup --reconfigure -Dpkg_config_path=… [--clearcache]`: new search paths, what the system offers
        there, a fresh Build; the cache persists unless cleared"""
        if 'paths' in op:
            self.paths = copy.deepcopy(op['paths'])
            self.world['paths'] = copy.deepcopy(op['paths'])
        if 'system' in op:
            self.world['system'] = dict(op['system'])
        if op.get('clearcache'):
            self.cache.clear()
        self.start_configuration()

    def lookup(self, req: dict) -> T.Tuple[str, T.List[str]]:
        I = self.I
        self.effects = []
        saved = I.dependencies.find_external_dependency
        I.dependencies.find_external_dependency = self.find_external_dependency
        try:
            try:
                df = I.DF.DependencyFallbacksHolder(self.interp, list(req['names']), self.HOST, req['allow_fallback'], None)
                df.set_fallback(None if req['fallback'] is None else list(req['fallback']))
                kwargs = {'native': self.HOST, 'version': list(req['wanted']), 'required': req['required']}
                if req.get('static') is not None:
                    kwargs['static'] = req['static']
                for k, sv in (req.get('extra') or {}).items():
                    kwargs[k] = runtime_value(k, sv)
                d = df.lookup(kwargs)
            except I.MesonException as e:
                return 'error:' + type(e).__name__, self.effects
            if d.found():
                return 'found:' + getattr(d, 'ident', '?' + type(d).__name__), self.effects
            return 'notfound', self.effects
        finally:
            I.dependencies.find_external_dependency = saved

    def state(self) -> dict:
        """the real tables, keyed `machine|name|flavour`"""
        I = self.I
        table = {}
        for m, tagm in ((I.MachineChoice.HOST, False), (I.MachineChoice.BUILD, True)):
            for ident, o in self.build.dependency_overrides[m].items():
                n, fl = ident_key(ident)
                d = o.dep
                table[tkey(tagm, n, fl)] = [[getattr(d, 'ident', '?'), d.found(), d.get_version()], bool(o.explicit)]
        ctable = dict(self.put_log)
        subs = {sp: ('found' if h.found() else 'disabled') for sp, h in self.subprojects[self.HOST].items()}
        return {'table': table, 'ctable': ctable, 'subs': subs, 'paths': copy.deepcopy(self.paths)}


def initial_state(fw: dict) -> dict:
    """the state the documented registration rule prescribes for the world before the lookups"""
    table: T.Dict[str, T.Any] = {}
    t = register_ops(table, fw['ops'], fw['main_dl'])
    table = t if t is not None else table
    subs = {}
    for sp, st in fw['subprojects'].items():
        if st['state'] != 'no':
            subs[sp] = st['state']
            if st['state'] == 'found':
                t = register_ops(table, st['ops'], st['dl'])
                table = t if t is not None else table
    return {'table': table, 'subs': subs}


def make_slice(fw: dict, state: dict, req: dict) -> dict:
    """the world as one lookup sees it: the override and cache tables at the lookup's identifier flavour, and for
    every unconfigured subproject what configuring it *for this lookup* would register there (slice world =
    the world format of the Lean model and of `Policy`)"""
    fo = flavour(req.get('static'), req.get('extra') or {}, False)
    fc = flavour(req.get('static'), req.get('extra') or {}, True)
    fw = norm_fw(fw)
    w = {'wrap_mode': fw['wrap_mode'], 'fff': list(fw['fff']), 'system': dict(fw['system']),
         'provides': {k: list(v) for k, v in fw['provides'].items()}, 'overrides': {}, 'cache': {}, 'subprojects': {}}
    for k, v in state['table'].items():
        m, n, fl = k.split('|', 2)
        if m == 'H' and fl == fo:
            w['overrides'][n] = v
    # a cached result is reused only while the search path that produced it is unchanged
    for k, v in state['ctable'].items():
        n, fl, at = k.split('|', 2)
        if fl == fc and json.loads(at) == rel_value(fw, n, state['paths']):
            w['cache'][n] = v
    for sp, st in fw['subprojects'].items():
        cur = state['subs'].get(sp, 'no')
        s2 = {'state': cur, 'configure': st['configure'], 'overrides': {}, 'vars': st['vars']}
        if cur == 'no':
            dl = st['dl'] if req.get('static') is None else ('static' if req['static'] else 'shared')
            t = register_ops(state['table'], st['ops'], dl)
            if t is None:
                s2['configure'] = 'fail'
            else:
                for k, v in t.items():
                    if k not in state['table']:
                        m, n, fl = k.split('|', 2)
                        if m == 'H' and fl == fo:
                            s2['overrides'][n] = v[0]
        w['subprojects'][sp] = s2
    for sp, cur in state['subs'].items():
        if sp not in w['subprojects']:
            w['subprojects'][sp] = {'state': cur, 'configure': 'fail', 'overrides': {}, 'vars': {}}
    return w


def slice_after(fw: dict, state: dict, req: dict) -> dict:
    """observable part of the state after a lookup, at that lookup's flavour (slice world format)"""
    return make_slice(fw, state, req)


class FullPolicy:
    """the documented policy over the keyed tables: registration rule + the decision table at the lookup's flavour"""

    def __init__(self, fw: dict):
        self.fw = norm_fw(copy.deepcopy(fw))
        fw = self.fw
        self.state = initial_state(fw)
        self.state['paths'] = copy.deepcopy(fw['paths'])
        self.state['ctable'] = {}
        for rec in fw['history']:
            self.state['ctable'][ckey(rec['name'], 'n', rel_value(fw, rec['name'], rec['paths']))] = rec['dep']
        self.last: T.Optional['Policy'] = None

    def reconfigure(self, op: dict) -> None:
        if 'paths' in op:
            self.fw['paths'] = copy.deepcopy(op['paths'])
        if 'system' in op:
            self.fw['system'] = dict(op['system'])
        ct = {} if op.get('clearcache') else self.state['ctable']
        self.state = initial_state(self.fw)
        self.state['paths'] = copy.deepcopy(self.fw['paths'])
        self.state['ctable'] = ct

    def decide(self, req: dict) -> str:
        fo = flavour(req.get('static'), req.get('extra') or {}, False)
        fc = flavour(req.get('static'), req.get('extra') or {}, True)
        w = make_slice(self.fw, self.state, req)
        p = Policy(w)
        out = p.decide(req)
        self.last = p
        if out == 'error':
            return out
        st = self.state
        for sp, s2 in p.w['subprojects'].items():
            before = st['subs'].get(sp, 'no')
            if s2['state'] != before:
                st['subs'][sp] = s2['state']
                if s2['state'] == 'found':
                    src = self.fw['subprojects'][sp]
                    dl = src['dl'] if req.get('static') is None else ('static' if req['static'] else 'shared')
                    t = register_ops(st['table'], src['ops'], dl)
                    assert t is not None
                    st['table'] = t
        for n, v in p.w['overrides'].items():
            st['table'].setdefault(tkey(False, n, fo), v)
        for n, v in p.w['cache'].items():
            st['ctable'][ckey(n, fc, rel_value(self.fw, n, st['paths']))] = v
        return out


def canon_state(st: dict) -> str:
    t = ','.join(f'{k}={v[0][0]}:{int(v[0][1])}:{v[0][2]}:{int(v[1])}' for k, v in sorted(st['table'].items()))
    c = ','.join(f'{k}={v[0]}:{int(v[1])}:{v[2]}' for k, v in sorted(st['ctable'].items()))
    s = ','.join(f'{k}={v}' for k, v in sorted(st['subs'].items()))
    return f'{t};{c};{s}'


def canon_world(w: dict) -> str:
    """canonical text of the observable state (overrides, cache, subproject states)"""
    ov = ','.join(f'{n}={d[0][0]}:{int(d[0][1])}:{d[0][2]}:{int(d[1])}' for n, d in sorted(w['overrides'].items()))
    ca = ','.join(f'{n}={d[0]}:{int(d[1])}:{d[2]}' for n, d in sorted(w['cache'].items()))
    sp = ','.join(f'{n}={s["state"]}' for n, s in sorted(w['subprojects'].items()))
    return f'{ov};{ca};{sp}'


# ---------------------------------------------------------------------------------------------
# the documented policy as a decision table (independent of the Lean model and of the code under test)
# ---------------------------------------------------------------------------------------------

def vsat(version: str, wanted: T.List[str]) -> bool:
    """version constraint satisfaction; 'undefined' satisfies nothing but the empty constraint.
    (comparison itself is property C19; imported here as the agreed meaning of a constraint)"""
    if not wanted:
        return True
    if version == 'undefined':
        return False
    from mesonbuild.mesonlib import version_compare_many
    return version_compare_many(version, wanted)[0]


class Policy:
    """dependency() as documented (dependency.yaml, Subprojects.md, Wrap-dependency-system-manual.md),
    with the readings R1-R3 of what the documents leave open (see DESIGN notes in harness/c10.py)."""

    def __init__(self, world: dict):
        self.w = copy.deepcopy(world)
        self.consulted_system: T.List[str] = []
        self.configured: T.List[str] = []

    def sub_found(self, sp):
        return sp is not None and self.w['subprojects'].get(sp, {}).get('state') == 'found'

    def decide(self, req: dict) -> str:
        w = self.w
        names, wanted, required = req['names'], req['wanted'], req['required']
        self.consulted_system, self.configured = [], []
        fb, allow = req['fallback'], req['allow_fallback']
        # argument validation
        seen = []
        for n in names:
            if not n:
                return 'error'
            if any(c in n for c in '<>='):
                return 'error'
            if n in seen:
                return 'error'
            seen.append(n)
        if fb is not None and allow is not None:
            return 'error'
        if fb is not None and len(fb) > 2:
            return 'error'
        if fb is not None and len(fb) == 0:
            fb, allow = None, False

        def fail():
            return 'error' if required else 'notfound'

        # forced?  wrap_mode=forcefallback, or force_fallback_for names the dependency or the subproject
        forced = w['wrap_mode'] == 'forcefallback' or any(n in w['fff'] for n in names)
        # which subproject is the fallback
        sp, var = None, None
        if fb:
            sp, var = fb[0], (fb[1] if len(fb) == 2 else None)
            forced = forced or sp in w['fff']
        elif allow is not False:
            for n in names:
                p = w['provides'].get(n)
                if p:
                    forced = forced or p[0] in w['fff']
                    # allow_fallback permits: true, or unset with a required or forced lookup
                    # (R2: or unset when that subproject is already part of the build)
                    if allow is True or required or forced or self.sub_found(p[0]):
                        sp, var = p[0], p[1]
                    break
        if not names and sp is None:
            return fail()

        # 1. an overridden dependency wins (explicit override or the recorded result of an earlier lookup)
        for n in names:
            if n in w['overrides']:
                dep, _explicit = w['overrides'][n]
                if dep[1] and vsat(dep[2], wanted):
                    return self.found(dep, names)
                return fail()
            # a dependency found on the system earlier (previous run) is still the system dependency;
            # not looked at when fallback is forced
            if not (forced and sp) and n in w['cache']:
                dep = w['cache'][n]
                if dep[1] and vsat(dep[2], wanted):
                    return self.found(dep, names)

        # R1: the fallback subproject is already part of the build: it alone answers
        if sp and self.sub_found(sp):
            return self.from_subproject(sp, var, names, wanted, fail)

        # 2. the system, unless fallback is forced (and there is a fallback to force)
        if not (forced and sp):
            for n in names:
                self.consulted_system.append(n)
                v = w['system'].get(n)
                if v is not None and vsat(v, wanted):
                    dep = ['sys:' + n + '@' + v, True, v]
                    w['cache'][n] = dep
                    return self.found(dep, names)

        # 3. the fallback subproject, unless wrap_mode=nofallback (force_fallback_for/forcefallback take precedence)
        if sp is None:
            return fail()
        if w['wrap_mode'] == 'nofallback' and not forced:
            return fail()
        st = w['subprojects'].get(sp)
        if st is not None and st['state'] == 'disabled':
            return fail()
        self.configured.append(sp)
        if st is None or st['configure'] == 'fail':
            if not required:
                w['subprojects'].setdefault(sp, {'state': 'no', 'configure': 'fail', 'overrides': {}, 'vars': {}})['state'] = 'disabled'
            return fail()
        if any(n in w['overrides'] for n in st['overrides']):
            if not required:
                st['state'] = 'disabled'
            return fail()
        for n, dep in st['overrides'].items():
            w['overrides'][n] = [dep, True]
        st['state'] = 'found'
        return self.from_subproject(sp, var, names, wanted, fail)

    def from_subproject(self, sp, var, names, wanted, fail) -> str:
        w = self.w
        st = w['subprojects'][sp]
        # what the subproject registered with meson.override_dependency under one of the names
        for n in names:
            if n in w['overrides']:
                dep = w['overrides'][n][0]
                if dep[1] and vsat(dep[2], wanted):
                    return self.found(dep, names)
                return fail()
        # else the variable named by fallback: or by the wrap's [provide] section
        if not var:
            for n in names:
                p = w['provides'].get(n)
                if p and p[0] == sp and p[1]:
                    var = p[1]
                    break
        if not var:
            return fail()
        dep = st['vars'].get(var)
        if dep is None or dep == 'notdep' or not dep[1]:
            return fail()
        if not vsat(dep[2], wanted):
            return fail()
        return self.found(dep, names)

    def found(self, dep, names) -> str:
        # later lookups of any of the names give the same dependency
        for n in names:
            if n not in self.w['overrides']:
                self.w['overrides'][n] = [dep, False]
        return 'found:' + dep[0]


# ---------------------------------------------------------------------------------------------
# protocol encoding for the Lean model (mvdriver-dep)
# ---------------------------------------------------------------------------------------------

def _e(s: T.Optional[str]) -> str:
    return enc(s) if s else ''


def enc_dep(d) -> str:
    return f'{_e(d[0])}:{int(bool(d[1]))}:{_e(d[2])}'


def enc_world(w: dict) -> T.List[str]:
    """fields: wrap_mode | fff | overrides | cache | system | provides | subprojects"""
    fff = ','.join(_e(x) for x in w['fff'])
    ov = ','.join(f'{_e(n)}:{enc_dep(d[0])}:{int(d[1])}' for n, d in w['overrides'].items())
    ca = ','.join(f'{_e(n)}:{enc_dep(d)}' for n, d in w['cache'].items())
    sy = ','.join(f'{_e(n)}:{_e(v)}' for n, v in w['system'].items())
    pr = ','.join(f'{_e(n)}:{_e(p[0])}:{int(p[1] is not None)}:{_e(p[1])}' for n, p in w['provides'].items())
    sps = []
    for sp, st in w['subprojects'].items():
        o = '+'.join(f'{_e(n)}:{enc_dep(d)}' for n, d in st['overrides'].items())
        v = '+'.join((f'{_e(n)}:N' if d == 'notdep' else f'{_e(n)}:D:{enc_dep(d)}') for n, d in st['vars'].items())
        sps.append(f'{_e(sp)};{st["state"]};{st["configure"]};{o};{v}')
    return [w['wrap_mode'], fff, ov, ca, sy, pr, '/'.join(sps)]


def enc_req(r: dict) -> T.List[str]:
    """fields: names | wanted | required | allow_fallback | fallback"""
    names = ','.join(_e(n) if n else 'E' for n in r['names'])
    wanted = ','.join(_e(x) for x in r['wanted'])
    allow = {None: 'N', True: 'T', False: 'F'}[r['allow_fallback']]
    fb = 'N' if r['fallback'] is None else 'L' + ','.join(_e(x) if x else 'E' for x in r['fallback'])
    return [names, wanted, str(int(r['required'])), allow, fb]


def line_seq(w: dict, reqs: T.List[dict]) -> str:
    """one protocol line: lookups run in sequence from world w"""
    return 'seq ' + '|'.join(enc_world(w) + ['#'.join('&'.join(enc_req(r)) for r in reqs)])


def canon_out(out: str) -> str:
    if out.startswith('found:'):
        return 'found:' + enc(out[6:])
    return out


def canon_effects(eff: T.List[str]) -> str:
    return ','.join(e.split(':', 1)[0] + ':' + enc(e.split(':', 1)[1]) for e in eff)


def canon_world_enc(w: dict) -> str:
    """same canonical text as `Driver.DepPolicy.showWorld`"""
    def sd(d):
        return f'{enc(d[0])}:{int(bool(d[1]))}:{enc(d[2])}'
    ov = sorted(f'{enc(n)}={sd(d[0])}:{int(bool(d[1]))}' for n, d in w['overrides'].items())
    ca = sorted(f'{enc(n)}={sd(d)}' for n, d in w['cache'].items())
    sp = sorted(f'{enc(n)}={s["state"]}' for n, s in w['subprojects'].items())
    return ','.join(ov) + ';' + ','.join(ca) + ';' + ','.join(sp)
