"""C12 end-to-end liveness leg: an independent witness of what is actually *alive*.

Every generated test program may consist of several processes (leader + workers in the leader's process group) and
every one of them appends heartbeat lines `<wall time> <test id> <iteration> <pid> <role>` to a shared log while it
lives.  The oracle reads only that log, what meson reported (testlog.json: start time + duration, result) and the
moment `meson test` exited:

  (1) no heartbeat of a test later than the moment meson reported it finished (+ grace);
  (2) never heartbeats of more than --num-processes distinct tests for longer than the grace;
  (3) no test alive together with a test declared non-parallel for longer than the grace;
  (4) nothing alive after `meson test` has exited.

grace = the documented SIGTERM -> SIGKILL window, harvested from the live `TestSubprocess._kill` timeouts, + 0.3 s of
scheduling noise.  Runs: tests exceeding their timeout, --maxfail cancellation, SIGTERM / SIGINT sent to `meson test`.
Process shapes: single process; python leader + python worker it waits for; `sh -c` running a worker; double fork
(worker re-parented to init but still in the group).  Signal dispositions: default; everybody ignores SIGTERM; only
the leader ignores SIGTERM; only the workers ignore SIGTERM (the leader dies from it).
"""
from __future__ import annotations

import inspect
import json
import os
import re
import signal
import subprocess
import sys
import time
import typing as T

from . import common

NOISE = 0.3
HB_SCRIPT = r'''#!/usr/bin/env python3
import os, signal, subprocess, sys, time
role = sys.argv[1]
def beat_until(tid, role, log, deadline, stop=None):
    it = os.environ.get('MESON_TEST_ITERATION', '1')
    fd = os.open(log, os.O_WRONLY | os.O_APPEND | os.O_CREAT, 0o644)
    pid = os.getpid()
    while time.time() < deadline and not (stop and stop()):
        os.write(fd, ('%.6f %s %s %d %s\n' % (time.time(), tid, it, pid, role)).encode())
        time.sleep(0.05)
def disposition(ignore):
    signal.signal(signal.SIGTERM, signal.SIG_IGN if ignore else signal.SIG_DFL)
    signal.alarm(30)            # hard stop: never outlive the harness by much
if role == 'worker':
    tid, ignore, life, log = sys.argv[2], sys.argv[3] == '1', float(sys.argv[4]), sys.argv[5]
    disposition(ignore)
    beat_until(tid, 'worker', log, time.time() + life)
    os._exit(0)
tid, shape, disp, life, rc, log = sys.argv[2], sys.argv[3], sys.argv[4], float(sys.argv[5]), int(sys.argv[6]), sys.argv[7]
disposition(disp in ('ignore', 'leader'))
wargs = [sys.executable, os.path.abspath(__file__), 'worker', tid, '1' if disp in ('ignore', 'worker') else '0', str(life), log]
deadline = time.time() + life
if shape == 'sub':
    p = subprocess.Popen(wargs)
    beat_until(tid, 'leader', log, deadline + 0.2, stop=lambda: p.poll() is not None)
elif shape == 'dfork':
    if os.fork() == 0:
        if os.fork() == 0:
            os.execv(wargs[0], wargs)
        os._exit(0)
    os.wait()
    beat_until(tid, 'leader', log, deadline)
else:
    beat_until(tid, 'leader', log, deadline)
os._exit(rc)
'''

SHAPES = ['single', 'sub', 'sh', 'dfork']
DISPS = ['default', 'ignore', 'leader', 'worker']     # who ignores SIGTERM: nobody, everybody, leader only, workers only


def harvest_grace() -> T.Tuple[float, T.List[float]]:
    """SIGTERM -> SIGKILL window of the live `_kill` (first `timeout=` in its source) + scheduling noise"""
    from mesonbuild import mtest
    try:
        src = inspect.getsource(mtest.TestSubprocess._kill)
        ts = [float(x) for x in re.findall(r'timeout\s*=\s*([0-9.]+)', src)]
    except Exception:
        ts = []
    first = ts[0] if ts else 0.5
    return min(first, 2.0) + NOISE, ts


def mk(tid: str, shape: str, disp: str, life: float, rc: int = 0, par: bool = True, timeout: T.Optional[int] = None) -> dict:
    return {'name': tid, 'shape': shape, 'disp': disp, 'life': life, 'rc': rc, 'par': par, 'to': timeout}


def write_project(src: str, tests: T.List[dict], log: str) -> None:
    os.makedirs(src, exist_ok=True)
    script = os.path.join(src, 'hb.py')
    with open(script, 'w') as f:
        f.write(HB_SCRIPT)
    lines = ["project('p')", f"py = find_program('{sys.executable}')", "sh = find_program('sh')"]
    for t in tests:
        kw = [f"is_parallel: {'true' if t['par'] else 'false'}"]
        if t['to'] is not None:
            kw.append(f"timeout: {t['to']}")
        if t['shape'] == 'sh':
            trap = 'trap "" TERM; ' if t['disp'] in ('ignore', 'leader') else ''
            # `trap ""` is inherited; the worker sets its own disposition explicitly
            cmd = (f"{trap}{sys.executable} {script} worker {t['name']} {'1' if t['disp'] in ('ignore', 'worker') else '0'} "
                   f"{t['life']} {log}; exit {t['rc']}")
            lines.append(f"test('{t['name']}', sh, args: ['-c', '{cmd}'], {', '.join(kw)})")
        else:
            args = ', '.join(f"'{a}'" for a in [script, 'leader', t['name'], t['shape'], t['disp'], str(t['life']),
                                                 str(t['rc']), log])
            lines.append(f"test('{t['name']}', py, args: [{args}], {', '.join(kw)})")
    with open(os.path.join(src, 'meson.build'), 'w') as f:
        f.write('\n'.join(lines) + '\n')


def read_hb(log: str) -> T.List[T.Tuple[float, str, int, int, str]]:
    out = []
    if os.path.exists(log):
        for line in open(log, errors='replace'):
            p = line.split()
            if len(p) == 5:
                try:
                    out.append((float(p[0]), p[1], int(p[2]) - 1, int(p[3]), p[4]))
                except ValueError:
                    pass
    return out


def reap(marker: str) -> int:
    """kill whatever of our own test processes is still alive (never leave workers behind): every process whose
    command line mentions the scratch directory of this leg"""
    n = 0
    me = os.getpid()
    for d in os.listdir('/proc'):
        if not d.isdigit() or int(d) == me:
            continue
        try:
            cmd = open(f'/proc/{d}/cmdline', 'rb').read()
        except OSError:
            continue
        if marker.encode() in cmd:
            try:
                os.kill(int(d), signal.SIGKILL)
                n += 1
            except OSError:
                pass
    return n


def oracle(tests: T.List[dict], jobs: int, hb: T.List[T.Tuple[float, str, int, int, str]], jl: T.List[dict],
           t_exit: float, grace: float) -> T.List[T.Tuple[str, str]]:
    bad: T.List[T.Tuple[str, str]] = []
    par = {t['name']: t['par'] for t in tests}
    first: T.Dict[T.Tuple[str, int], float] = {}
    last: T.Dict[T.Tuple[str, int], float] = {}
    roles: T.Dict[T.Tuple[str, int], T.Set[str]] = {}
    for (ts, tid, it, _pid, role) in hb:
        k = (tid, it)
        first[k] = min(first.get(k, ts), ts)
        last[k] = max(last.get(k, ts), ts)
        roles.setdefault(k, set()).add(role)
    # (1) nothing of a test is alive after meson reported it finished
    for j in jl:
        k = (j['name'].split(':')[-1], j['iter'])
        if k in last and j.get('starttime') is not None and j.get('duration') is not None:
            end = j['starttime'] + j['duration']
            late = [(ts, role) for (ts, tid, it, _p, role) in hb if (tid, it) == k and ts > end + grace]
            if late:
                bad.append(('alive-after-report',
                            f'test {k[0]} was reported {j["result"]} after {j["duration"]:.2f}s but its '
                            f'{sorted({r for _t, r in late})} kept running: {len(late)} heartbeats up to '
                            f'{max(t for t, _r in late) - end:.2f}s after the report (grace {grace:.2f}s)'))
    # (2) more distinct tests alive than jobs
    ev = []
    for k in first:
        ev.append((first[k], 1, k))
        ev.append((last[k], -1, k))
    ev.sort(key=lambda e: (e[0], e[1]))
    n, since = 0, None
    for (ts, d, k) in ev:
        if n > jobs and since is not None and ts - since > grace:
            bad.append(('job-bound-alive', f'{n} tests had live processes for {ts - since:.2f}s with --num-processes {jobs}'))
            since = None
        n += d
        if n > jobs and since is None:
            since = ts
        if n <= jobs:
            since = None
    # (3) nothing alive together with a non-parallel test
    ks = sorted(first)
    for a in ks:
        if par.get(a[0], True):
            continue
        for b in ks:
            if b == a:
                continue
            ov = min(last[a], last[b]) - max(first[a], first[b])
            if ov > grace:
                bad.append(('serial-overlap-alive',
                            f'processes of test {b[0]} were alive for {ov:.2f}s while the non-parallel test {a[0]} was running'))
    # (4) nothing alive after `meson test` exited
    after = [(ts, tid, role) for (ts, tid, _it, _p, role) in hb if ts > t_exit + NOISE]
    if after:
        bad.append(('alive-after-exit',
                    f'{sorted({(tid, role) for _t, tid, role in after})} still running '
                    f'{max(t for t, _i, _r in after) - t_exit:.2f}s after `meson test` exited'))
    return bad


def run_meson_test(repo: str, bld: str, args: T.List[str], log: str, sig: T.Optional[int], wait_for: T.List[str],
                   settle: float) -> T.Tuple[int, str, float]:
    """run `meson test`; optionally send `sig` to it 0.6 s after every test in `wait_for` has a heartbeat"""
    env = dict(os.environ)
    env['PYTHONPATH'] = repo
    env.pop('MESON_TESTTHREADS', None)
    env.pop('MESON_NUM_PROCESSES', None)
    p = subprocess.Popen([sys.executable, os.path.join(repo, 'meson.py'), 'test', '--no-rebuild', '-C', bld] + args,
                         env=env, stdout=subprocess.PIPE, stderr=subprocess.STDOUT, text=True, start_new_session=True)
    try:
        if sig is not None:
            t0 = time.time()
            while time.time() - t0 < 30 and p.poll() is None:
                seen = {h[1] for h in read_hb(log)}
                if all(w in seen for w in wait_for):
                    break
                time.sleep(0.05)
            time.sleep(0.6)
            if p.poll() is None:
                p.send_signal(sig)
        out, _ = p.communicate(timeout=120)
    except subprocess.TimeoutExpired:
        p.kill()
        out, _ = p.communicate()
        out += '\n[harness: meson test did not finish in 120 s]'
    t_exit = time.time()
    time.sleep(settle)
    return p.returncode, out, t_exit


def scenarios(deep: bool, rng) -> T.List[dict]:
    """kill reason x process shape x signal disposition: the full matrix when `deep`, a covering sample otherwise"""
    combos = [(s, d) for s in SHAPES for d in DISPS if not (s == 'single' and d in ('leader', 'worker'))]
    out = []
    if deep:
        groups = [combos[i:i + 4] for i in range(0, len(combos), 4)]
    else:
        # covering sample: each disposition once, each multi-process shape at least once
        sh3 = ['sub', 'sh', 'dfork']
        rng.shuffle(sh3)
        groups = [[(sh3[0], 'default'), (sh3[1], 'worker'), (sh3[2], rng.choice(['ignore', 'leader'])),
                   (rng.choice(sh3), rng.choice(['default', 'worker']))]]
    for g in groups:
        # timeout: every member overruns a 1 s limit; a quick test and a non-parallel test follow
        tests = [mk(f'k{i}', s, d, 5.0, timeout=1) for i, (s, d) in enumerate(g)]
        tests += [mk('q', 'single', 'default', 0.2), mk('excl', 'sub', 'default', 1.6, par=False)]
        out.append({'reason': 'timeout', 'tests': tests, 'args': [], 'jobs': 2, 'sig': None})
    for g in (groups if deep else groups[:1]):
        # --maxfail: long tests are cancelled when `f` fails
        tests = [mk(f'k{i}', s, d, 5.0) for i, (s, d) in enumerate(g)]
        tests += [mk('f', 'single', 'default', 0.7, rc=1), mk('excl', 'single', 'default', 0.5, par=False)]
        out.append({'reason': 'maxfail', 'tests': tests, 'args': ['--maxfail', '1'], 'jobs': len(g) + 1, 'sig': None})
    for g in (groups if deep else groups[:1]):
        tests = [mk(f'k{i}', s, d, 4.0) for i, (s, d) in enumerate(g)]
        out.append({'reason': 'sigterm', 'tests': tests, 'args': [], 'jobs': len(g), 'sig': signal.SIGTERM,
                    'wait_for': [t['name'] for t in tests]})
    if deep:
        for g in groups:
            tests = [mk(f'k{i}', s, d, 2.5) for i, (s, d) in enumerate(g)]
            out.append({'reason': 'sigint', 'tests': tests, 'args': [], 'jobs': len(g), 'sig': signal.SIGINT,
                        'wait_for': [t['name'] for t in tests]})
    return out


def run_leg(ctx, deep: bool) -> None:
    grace, harvested = harvest_grace()
    ctx.extra['liveness_grace_s'] = round(grace, 2)
    ctx.extra['kill_timeouts_harvested'] = harvested
    base = common.scratch_dir('mverif-c12l-')
    all_hb: T.List[T.Tuple[float, str, int, int, str]] = []
    script = ''
    try:
        for si, sc in enumerate(scenarios(deep, ctx.rng)):
            src, bld = os.path.join(base, f's{si}'), os.path.join(base, f'b{si}')
            log = os.path.join(base, f'hb{si}.log')
            script = os.path.join(src, 'hb.py')
            write_project(src, sc['tests'], log)
            env = dict(os.environ, PYTHONPATH=common.REPO)
            p = subprocess.run([sys.executable, os.path.join(common.REPO, 'meson.py'), 'setup', '--backend=none', bld, src],
                               env=env, stdout=subprocess.PIPE, stderr=subprocess.STDOUT, text=True, timeout=300)
            if p.returncode != 0:
                raise common.ToolFailure('meson setup failed: ' + p.stdout[-600:])
            rc, out, t_exit = run_meson_test(common.REPO, bld, sc['args'] + ['--num-processes', str(sc['jobs'])], log,
                                             sc['sig'], sc.get('wait_for', []), settle=1.2)
            hb = read_hb(log)
            all_hb += hb
            jl = []
            jpath = os.path.join(bld, 'meson-logs', 'testlog.json')
            if os.path.exists(jpath):
                for line in open(jpath, encoding='utf-8'):
                    if line.strip():
                        j = json.loads(line)
                        jl.append({'name': j['name'], 'result': j['result'], 'starttime': j['starttime'],
                                   'duration': j['duration'],
                                   'iter': int(j['env'].get('MESON_TEST_ITERATION', '1')) - 1})
            ctx.count()
            ctx.tag('live:' + sc['reason'])
            for t in sc['tests']:
                ctx.tag(f'live-shape:{t["shape"]}/{t["disp"]}')
            case = {'stream': 'e2e-liveness', 'reason': sc['reason'], 'tests': sc['tests'], 'jobs': sc['jobs'],
                    'args': sc['args'], 'signal': int(sc['sig']) if sc['sig'] is not None else None,
                    'reported': [{k: (round(v, 3) if isinstance(v, float) else v) for k, v in j.items()} for j in jl],
                    'meson_exit': rc}
            if sc['reason'] == 'timeout':
                # sanity of the scenario itself: the overrunning tests must have been reported TIMEOUT
                got = {j['name'].split(':')[-1]: j['result'] for j in jl}
                for t in sc['tests']:
                    if t['to'] is not None and got.get(t['name']) not in ('TIMEOUT', None):
                        ctx.violation(f'live:misclassified:{t["shape"]}/{t["disp"]}',
                                      f'test {t["name"]} overran its {t["to"]}s limit but is reported {got.get(t["name"])}', case)
            for kind, msg in oracle(sc['tests'], sc['jobs'], hb, jl, t_exit, grace):
                shapes = sorted({f'{t["shape"]}/{t["disp"]}' for t in sc['tests'] if t['name'] in msg})
                ctx.violation(f'live:{kind}:{sc["reason"]}:{",".join(shapes)}', msg, case)
            reap(base + os.sep)
            if len(ctx.violations) >= 4:
                break
    finally:
        reap(base + os.sep)
        common.rmtree(base)
