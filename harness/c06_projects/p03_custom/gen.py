#!/usr/bin/env python3
import sys
for a in sys.argv[1:]:
    pass
