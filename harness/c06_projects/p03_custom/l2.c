int l2(void) { return 1; }
