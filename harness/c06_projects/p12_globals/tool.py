#!/usr/bin/env python3
import sys
if len(sys.argv) > 1 and not sys.argv[1] in "zam":
    open(sys.argv[1], "w").write("x\n")
