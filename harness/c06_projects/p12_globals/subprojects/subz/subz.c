#ifdef MAIN
int main(void){return 0;}
#else
int subz(void){return 1;}
#endif
