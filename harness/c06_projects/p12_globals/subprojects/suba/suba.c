#ifdef MAIN
int main(void){return 0;}
#else
int suba(void){return 1;}
#endif
