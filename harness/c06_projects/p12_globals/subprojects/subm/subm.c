#ifdef MAIN
int main(void){return 0;}
#else
int subm(void){return 1;}
#endif
