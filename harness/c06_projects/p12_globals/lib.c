int p12lib(void) { return 1; }
