extern "C" int p12pp() { return 1; }
