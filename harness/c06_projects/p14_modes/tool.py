#!/usr/bin/env python3
import sys
a = sys.argv[1:]
if a[0] == '--stdout':
    print('captured', *[x.rsplit('/', 1)[-1] for x in a[1:]])
else:
    open(a[0], 'w').write('from ' + ' '.join(x.rsplit('/', 1)[-1] for x in a[1:]) + '\n')
