int p14(void) { return 1; }
