int two(void) { return 1; }
