#!/usr/bin/env python3
import sys
open(sys.argv[1], "w").write("#define H 1\n")
