int one(void) { return 1; }
