int ss_z(void) { return 1; }
