int common(void) { return 1; }
