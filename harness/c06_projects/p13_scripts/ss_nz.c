int ss_nz(void) { return 1; }
