#!/bin/sh
exit 0
