int ss_a(void) { return 1; }
