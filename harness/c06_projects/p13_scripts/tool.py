#!/usr/bin/env python3
import sys
a = sys.argv[1:]
if a and a[0] == '--stdout':
    print('gen', *[x.rsplit('/', 1)[-1] for x in a[1:]])
else:
    for p in a:
        if p.endswith(('.c', '.h', '.txt')) and not p.endswith('.in'):
            try:
                open(p, 'w').write('/* gen */\n')
            except OSError:
                pass
