int ss_m(void) { return 1; }
