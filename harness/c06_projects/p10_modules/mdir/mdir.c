int mdir(void) { return 1; }
