#!/usr/bin/env python3
import os, sys
d = sys.argv[1]
for f in sorted(os.listdir(d)):
    print(os.path.join(d, f))
