int zdir(void) { return 1; }
