int many_k(void) { return 1; }
