int many_c(void) { return 1; }
