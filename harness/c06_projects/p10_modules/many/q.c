int many_q(void) { return 1; }
