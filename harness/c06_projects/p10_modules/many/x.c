int many_x(void) { return 1; }
