int many_b(void) { return 1; }
