int adir(void) { return 1; }
