#!/usr/bin/env python3
import sys
a = sys.argv[1:]
if a and a[0] == '--out':
    open(a[1], 'w').write('generated from ' + ' '.join(x.rsplit('/', 1)[-1] for x in a[2:]) + '\n')
else:
    print('captured', *a)
