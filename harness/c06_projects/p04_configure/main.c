#include "config.h"
int main(void) { return 0; }
