int alpha(void) { return 1; }
