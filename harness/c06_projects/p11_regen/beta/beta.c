int beta(void) { return 1; }
