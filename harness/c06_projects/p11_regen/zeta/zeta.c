int zeta(void) { return 1; }
