int mid(void) { return 1; }
