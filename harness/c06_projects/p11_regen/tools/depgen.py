#!/usr/bin/env python3
"""writes an output and a make-style depfile with several rules / branches (absolute paths of real files)"""
import os, sys
here = os.path.dirname(os.path.dirname(os.path.abspath(__file__)))
a = sys.argv[1:]
if a[0] == '--cat':
    with open(a[1], 'w') as f:
        for p in a[2:]:
            f.write(open(p).read())
elif a[0] == '--print':
    print(' '.join(os.path.basename(p) for p in a[1:]))
else:
    out, dep, tag = a
    d = lambda n: os.path.join(here, 'deps', tag, n).replace(' ', '\\ ')
    with open(out, 'w') as f:
        f.write('generated ' + tag + '\n')
    with open(dep, 'w') as f:
        o = os.path.basename(out)
        f.write(f'{o}: {d("d1")} {d("d2")} \\\n  {d("d3")}\n')
        f.write(f'{d("d1")}: {d("t1")} {d("t2")} {d("t3")}\n')
        f.write(f'{d("d2")}: {d("u1")} {d("u2")} {d("u3")}\n')
        f.write(f'{d("d3")} {d("d4")}: {d("v1")} {d("v2")} {d("v3")} {d("d1")}\n')
        f.write(f'unrelated: {d("x1")}\n')
