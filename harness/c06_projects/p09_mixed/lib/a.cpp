int a() { return 1; }
