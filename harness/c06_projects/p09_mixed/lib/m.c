int m(void) { return 1; }
