int z() { return 1; }
