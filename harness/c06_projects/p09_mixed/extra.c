int extra(void) { return 0; }
#ifdef WITH_MAIN
int main(void){return 0;}
#endif
