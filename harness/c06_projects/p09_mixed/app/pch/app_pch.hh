#include <vector>
