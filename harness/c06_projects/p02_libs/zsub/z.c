int zshr(void) { return 1; }
