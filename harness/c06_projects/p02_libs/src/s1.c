#include <p02.h>
int s1(void) { return 1; }
