#include <p02.h>
int m1(void) { return 1; }
