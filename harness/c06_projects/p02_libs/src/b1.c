#include <p02.h>
int b1(void) { return 1; }
