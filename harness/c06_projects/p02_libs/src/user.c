#include <p02.h>
int main(void) { return h1() + b1() - 2; }
