#include <p02.h>
int h1(void) { return 1; }
