#include <p02.h>
int s2(void) { return 1; }
