int subshr(void) { return 1; }
