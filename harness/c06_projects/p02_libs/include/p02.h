#pragma once
int s1(void); int s2(void); int h1(void); int b1(void);
