int util(void) { return 1; }
