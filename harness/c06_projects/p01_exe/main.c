int util(void);
int main(void) { return util() - 1; }
