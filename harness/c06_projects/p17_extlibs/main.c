int main(void) { return 0; }
