int s_mix(void) { return 1; }
