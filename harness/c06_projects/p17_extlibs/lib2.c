int st_mix(void) { return 1; }
