int subz(void) { return 1; }
