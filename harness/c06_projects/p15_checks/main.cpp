extern "C" int p15c(void);
int main() { return p15c() - 1; }
