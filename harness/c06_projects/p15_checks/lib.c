int p15c(void) { return 1; }
