#!/usr/bin/env python3
import sys
print('out', *sys.argv[1:])
print('err', *sys.argv[1:], file=sys.stderr)
sys.exit(2)
