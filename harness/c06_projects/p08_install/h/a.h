h/a.h
