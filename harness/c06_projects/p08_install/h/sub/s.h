h/sub/s.h
