h/z.h
