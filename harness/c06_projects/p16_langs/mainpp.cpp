int main() { return 0; }
