module fa_mod
  use fz_mod
  implicit none
contains
  subroutine fa_sub()
  end subroutine fa_sub
end module fa_mod
