program fmain
  use fm_mod
  use fs_mod
  call fm_sub()
end program fmain
