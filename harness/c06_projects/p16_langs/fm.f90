module fm_mod
  use fa_mod
  use fz_mod
  implicit none
contains
  subroutine fm_sub()
  end subroutine fm_sub
end module fm_mod
