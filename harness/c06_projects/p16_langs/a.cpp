extern "C" int a_fn() { return 1; }
