module fs_mod
  use fm_mod
  implicit none
contains
  subroutine fs_sub()
  end subroutine fs_sub
end module fs_mod
