int helper(void) { return 1; }
