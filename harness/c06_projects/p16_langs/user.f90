subroutine user_sub()
  use fm_mod
  use fa_mod
  call fm_sub()
end subroutine user_sub
