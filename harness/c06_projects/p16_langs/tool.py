#!/usr/bin/env python3
import sys, os
n = os.path.basename(sys.argv[1]).split(".")[0]
open(sys.argv[1], "w").write("int %s_v;\n" % n)
