module fz_mod

  implicit none
contains
  subroutine fz_sub()
  end subroutine fz_sub
end module fz_mod
