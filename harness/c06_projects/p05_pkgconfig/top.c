int top(void) { return 1; }
