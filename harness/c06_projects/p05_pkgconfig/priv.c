int priv(void) { return 1; }
