int base(void) { return 1; }
