def run_e2e(ctx, scratch, extra_strings=None, deep=False):
    pass
def replay_case(ctx, scratch, case):
    pass
